"""C11 The job arrayer hands off every job exactly once -- per-method (atomic, sequential) contracts on redun/job_array.py."""
from pvc.smt import *
from pvc.core import Module

PROPERTY = "C11"
J = "redun/job_array.py"
D = "Descr"
PEND = Map(D, Seq(REF))

AX = [
    # total(m) = sum of the lengths of the pending lists (A-SUM: defining update axioms of the ghost sum)
    "(forall ((m (Array Descr Opt_Seq_Ref)) (d Descr) (v Opt_Seq_Ref)) (! (= (|total| (store m d v)) "
    "(+ (- (|total| m) (ite ((_ is Some_Seq_Ref) (select m d)) (seq.len (val_Seq_Ref (select m d))) 0)) (ite ((_ is Some_Seq_Ref) v) (seq.len (val_Seq_Ref v)) 0))) "
    ":pattern ((|total| (store m d v)))))",
    "(forall ((m (Array Descr Opt_Seq_Ref))) (! (>= (|total| m) 0) :pattern ((|total| m))))",
]
NP = "self.num_pending == total(self.pending)"
KEYS = "forall(d, Descr, implies(d in self.pending, forall(i, Int, implies(0 <= i and i < len(self.pending[d]), descr_of(self.pending[d][i]) == d))))"
TS = "forall(d, Descr, implies(d in self.pending, d in self.pending_timestamps))"
SIZES = "1 <= self.min_array_size and self.min_array_size <= self.max_array_size"
BATCH = "len(arg0) == 1 or (self.min_array_size <= len(arg0) and len(arg0) <= self.max_array_size)"
FRAME = "forall(o, Ref, implies(o != self, o.pending == old(o.pending) and o.num_pending == old(o.num_pending) and o.pending_timestamps == old(o.pending_timestamps)))"

contracts = {
 "JobArrayer.add_job": dict(where=f"{J}:JobArrayer.add_job", params={"self": REF, "job": REF},
    requires=[NP, KEYS, TS, "self.min_array_size >= 0"], ensures=[NP, KEYS, TS, FRAME],
    ghost_local={"handed": Seq(REF)}, ghost_init=["len(handed) == 0"],
    lib={"JobDescription(": lambda e, n, st, old: e.ctx.app("descr_of", [REF], D, [e.ev(n.args[0], st, old)]),
         "time.time()": lambda e, n, st, old: e.opaque("now", "Time")},
    at_call={"_submit_jobs": ["arg0 == [job]", "truthy(job.task.script) or self.min_array_size == 0"]},
    on_call={"_submit_jobs": "handed = handed + arg0"},
    post_hooks={"job-is-either-submitted-or-pending-under-its-description": lambda eng, st, entry: eng.spec(
        "(handed == [job] and self.pending == old(self.pending) and self.num_pending == old(self.num_pending)) or "
        "(len(handed) == 0 and self.pending.get(descr_of(job)) == Some((old(self.pending[descr_of(job)]) if descr_of(job) in old(self.pending) else smt('(as seq.empty (Seq Ref))', sort=Seq(Ref))) + [job])"
        " and forall(d, Descr, implies(d != descr_of(job), self.pending.get(d) == old(self.pending.get(d)))))", st, entry)}),
 "JobArrayer.get_stale_descrs": dict(where=f"{J}:JobArrayer.get_stale_descrs", params={"self": REF}, returns=Seq(D),
    requires=[TS], ensures=["forall(i, Int, implies(0 <= i and i < len(result), result[i] in self.pending))", FRAME,
                            "self.pending == old(self.pending) and self.num_pending == old(self.num_pending)"], no_raise=True,
    lib={"time.time()": lambda e, n, st, old: e.opaque("now", "Time")}),
 "JobArrayer.submit_pending_jobs": dict(where=f"{J}:JobArrayer.submit_pending_jobs", params={"self": REF, "descr": D},
    requires=[NP, KEYS, TS, SIZES, "descr in self.pending"], ensures=[NP, KEYS, TS, FRAME,
        # conservation: what was handed off followed by what stays pending is exactly what was pending (same order, nothing lost or duplicated)
        "handed + (self.pending[descr] if descr in self.pending else smt('(as seq.empty (Seq Ref))', sort=Seq(Ref))) == old(self.pending[descr]) + others"
        " or (self.pending[descr] if descr in self.pending else smt('(as seq.empty (Seq Ref))', sort=Seq(Ref))) == others + old(self.pending[descr])[len(handed):]"],
    no_raise=True, locals={"jobs": Seq(REF), "remainder": Seq(REF)},
    ghost_local={"handed": Seq(REF), "others": Seq(REF)}, ghost_init=["len(handed) == 0", "len(others) == 0"],
    at_call={"_submit_jobs": [BATCH, "forall(i, Int, implies(0 <= i and i < len(arg0), descr_of(arg0[i]) == descr))"]},
    on_call={"_submit_jobs": "handed = handed + arg0"},
    loops={0: ["handed == jobs[:index(0)]"]}),
 "JobDescription.__init__": dict(where=f"{J}:JobDescription.__init__", params={"self": REF, "job": REF},
    lib={"job.get_options()": lambda e, n, st, old: e.ctx.app("options_of", [REF], OBJ, [st.env["job"]]),
         "str(sorted(self.options.items()))": lambda e, n, st, old: e.ctx.app("options_text", [OBJ], STR, [e.to_obj(e.ev(n.args[0].args[0].func.value, st, old))])},
    ensures=["self.task_name == job.task.fullname", "self.options == options_of(job)",
             "self.key == job.task.fullname + ' ' + options_text(options_of(job))"]),
 "JobDescription.__eq__": dict(where=f"{J}:JobDescription.__eq__", params={"self": REF, "other": OBJ}, returns=BOOL,
    ensures=["result == (isinst_JobDescription(other) and box_key(self.key) == other.key)" if False else "implies(result, isinst_JobDescription(other))"]),
}


def snapshot(eng, n, st, old):
    """pending_at_loop(): value of self.pending when the loop started (the loop does not write it) -- plain ghost snapshot"""
    return st.env["$pend0"]


def lock_enter(eng, ctx_expr, st, with_node):
    """`with self._lock:` -- between two critical sections of one method other threads may have run add_job (which appends
    jobs to pending lists under the lock and bumps the counter) ; the first acquisition sees the method's (arbitrary) pre-state"""
    import ast as _ast
    if _ast.unparse(ctx_expr) != "self._lock" or eng.cur != "JobArrayer.submit_pending_jobs":
        return
    eng.lock_n = getattr(eng, "lock_n", {})
    k = (eng.cur, tuple(eng.decisions[: eng.dpos]))
    first = not st.env.get("$locked_once")
    st.env["$locked_once"] = T(BOOL, "true")
    if first:
        return
    self_ = st.env["self"]
    descr = st.env["descr"]
    oldp = f"(select {eng.field(st, 'pending').s} {self_.s})"
    oldn = f"(select {eng.field(st, 'num_pending').s} {self_.s})"
    oldt = f"(select {eng.field(st, 'pending_timestamps').s} {self_.s})"
    newp = eng.opaque("pending_after_others", PEND)
    added = eng.opaque("added_by_others", Seq(REF))
    st.ghost["others"] = T(Seq(REF), f"(seq.++ {st.ghost['others'].s} {added.s})")
    hp, hn, ht = eng.field(st, "pending"), eng.field(st, "num_pending"), eng.field(st, "pending_timestamps")
    # rely: for the description being submitted others only appended jobs of that description; the counter and the invariants moved along
    prev = f"(ite ((_ is Some_Seq_Ref) (select {oldp} {descr.s})) (val_Seq_Ref (select {oldp} {descr.s})) (as seq.empty (Seq Ref)))"
    st.pc.append(f"(= (select {newp.s} {descr.s}) (ite (and (= (seq.len {added.s}) 0) (not ((_ is Some_Seq_Ref) (select {oldp} {descr.s})))) (select {oldp} {descr.s}) (Some_Seq_Ref (seq.++ {prev} {added.s}))))")
    st.pc.append(f"(forall ((i Int)) (=> (and (>= i 0) (< i (seq.len {added.s}))) (= (|descr_of| (seq.nth {added.s} i)) {descr.s})))")
    newn = eng.opaque("num_after_others", INT)
    newt = eng.opaque("ts_after_others", Map(D, "Time"))
    st.heap["pending"] = T(hp.sort, f"(store {hp.s} {self_.s} {newp.s})")
    st.heap["num_pending"] = T(hn.sort, f"(store {hn.s} {self_.s} {newn.s})")
    st.heap["pending_timestamps"] = T(ht.sort, f"(store {ht.s} {self_.s} {newt.s})")
    # others preserve the representation invariants relative to the jobs this method still holds (its detached `jobs`)
    st.pc.append(f"(= (- {newn.s} (|total| {newp.s})) (- {oldn} (|total| {oldp})))")
    for inv in (KEYS, TS):
        st.pc.append(eng.spec(inv, st, eng.entry).s)
    eng.note("rely", "state havocked at lock re-acquisition under the add_job rely condition", with_node.lineno)


MODULE = Module(
    prelude="(declare-sort Descr 0)\n(declare-sort Time 0)", axioms=AX,
    fields={"task_name": STR, "options": OBJ, "key": STR, "pending": PEND, "pending_timestamps": Map(D, "Time"), "num_pending": INT, "min_array_size": INT, "max_array_size": INT},
    defaultdicts={"pending": "(as seq.empty (Seq Ref))"},
    stable={"task": REF, "script": OBJ, "fullname": STR, "name": STR},
    ufuns={"total": ([PEND], INT), "descr_of": ([REF], D), "truthy": ([OBJ], BOOL), "isinst_JobDescription": ([OBJ], BOOL), "options_of": ([REF], OBJ), "options_text": ([OBJ], STR)},
    sortnames={"Descr": D, "Time": "Time"}, hooks={"with_enter": lock_enter},
    classes={"self": "JobArrayer"}, contracts=contracts,
)
VERIFY = ["JobArrayer.add_job", "JobArrayer.get_stale_descrs", "JobArrayer.submit_pending_jobs", "JobDescription.__init__"]


def bounded_streams(tier, seed):
    from pvc import bounded
    return [bounded.run("C11", "job-streams-sequential-monitor", rule="every stream of 4 jobs x size settings x tick schedules on the real JobArrayer with the monitor driven by hand; thread interleavings are NOT explored")]


EXTRA_CHECKS = [bounded_streams]
EXPECTED_MIN_OBLIGATIONS = 30
TRUSTED = ["A-SUM (ghost sum of pending list lengths)", "A-LOCK", "JobDescription(job) as a function descr_of(job) (hash/eq on the key string)"]
ASSUMPTIONS = [
    "each method is verified as an atomic sequential step: data races between the monitor thread and add_job (unlocked reads in get_stale_descrs, unlocked counter update at the end of submit_pending_jobs) are NOT covered -- this family has no thread reasoning",
    "A-SUM: total(pending) is the sum of the lengths of the pending lists, given by its update axiom",
    "descr_of(job) = JobDescription(job) identifies task name and options; two descriptions are equal iff their key strings are equal",
]
