"""C30 File value hashes track the filesystem -- shares the ghost-filesystem contracts of C04 (contracts/c04.py)."""
import importlib.util, os
_spec = importlib.util.spec_from_file_location("contracts_c04_for_c30", os.path.join(os.path.dirname(__file__), "c04.py"))
_m = importlib.util.module_from_spec(_spec)
_spec.loader.exec_module(_m)
PROPERTY = "C30"
_m.PROPERTY = "C04"      # the replay / bounded driver lives under c04
MODULES = [_m.MODULES[0]]   # file.py / value.py contracts; the scheduler's cache branch belongs to C04 only
EXTRA_CHECKS = _m.EXTRA_CHECKS
EXPECTED_MIN_OBLIGATIONS = 70
TRUSTED = _m.TRUSTED
ASSUMPTIONS = _m.ASSUMPTIONS
REPLAY_PER_OBLIGATION = False
