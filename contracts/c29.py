"""C29 Script tasks run exactly the given command with correct staging -- contracts on the real scripting functions."""
import ast, string
from pvc.smt import *
from pvc.core import Module
from pvc import extract
from pvc.result import Result

PROPERTY = "C29"
SC = "redun/scripting.py"
FL = "redun/file.py"


def template_pieces():
    """the wrapper template is read from the repo on every run and split at its fields"""
    fn = extract.find(f"{SC}:get_wrapped_command")
    tmpl = None
    for x in ast.walk(fn):
        if isinstance(x, ast.Call) and isinstance(x.func, ast.Attribute) and x.func.attr == "format" and isinstance(x.func.value, ast.Constant):
            tmpl = x.func.value.value
    if tmpl is None:
        raise extract.NotFound("get_wrapped_command: template literal with .format not found")
    return tmpl, list(string.Formatter().parse(tmpl))


contracts = {
 "prepare_command": dict(where=f"{SC}:prepare_command", params={"command": STR, "default_shell": STR}, returns=STR,
    ensures=["result == (str_strip0(dedent(command)) if str_strip0(dedent(command)).startswith('#!') else str_rstrip1(default_shell, '\\n') + '\\n' + str_strip0(dedent(command)))"]),
 "get_command_eof": dict(where=f"{SC}:get_command_eof", params={"command": STR, "eof_prefix": STR}, returns=STR,
    ensures=["not (result in str_split1(command, '\\n'))", "result.startswith(eof_prefix)"],
    loops={0: ["eof.startswith(eof_prefix)"]}, no_raise=True),
 "get_wrapped_command": dict(where=f"{SC}:get_wrapped_command", params={"command": STR, "eof_prefix": STR}, returns=STR,
    ghost_local={"e": STR},
    after_call={("get_command_eof", 0): "e = result"},
    before_call={("get_command_eof", 0): ["arg0 == command"]},
    ensures=["not (e in str_split1(command, '\\n'))"],
    post_hooks={"heredoc-body-is-the-command": lambda eng, st, entry: T(BOOL,
                    f"(str.contains {st.env['$result'].s} (str.++ {smt_str('<<' + chr(34))} {st.ghost['e'].s} {smt_str(chr(34) + chr(10))} {entry.env['command'].s} {smt_str(chr(10))} {st.ghost['e'].s} {smt_str(chr(10))}))"),
                "result-is-the-template-instance": lambda eng, st, entry: T(BOOL,
                    f"(= {st.env['$result'].s} (str.++ {smt_str(TCONS['TPRE'])} {st.ghost['e'].s} {smt_str(TCONS['TMID1'])} {entry.env['command'].s} {smt_str(TCONS['TMID2'])} {st.ghost['e'].s} {smt_str(TCONS['TPOST'])}))")}),
 "StagingFile.render_stage": dict(where=f"{FL}:StagingFile.render_stage", params={"self": REF, "as_mount": BOOL}, returns=STR,
    ensures=["result == ('' if self.local.path == self.remote.path else copy_cmd(self.remote, self.local.path, as_mount))"],
    lib={"self.remote.shell_copy_to(": lambda e, n, st, old: copy_cmd(e, n, st, old)}),
 "StagingFile.render_unstage": dict(where=f"{FL}:StagingFile.render_unstage", params={"self": REF, "as_mount": BOOL}, returns=STR,
    ensures=["result == ('' if self.local.path == self.remote.path else copy_cmd(self.local, self.remote.path, as_mount))"],
    lib={"self.local.shell_copy_to(": lambda e, n, st, old: copy_cmd(e, n, st, old)}),
}


def copy_cmd(eng, n, st, old):
    src = eng.ev(n.func.value, st, old)
    dst = eng.ev(n.args[0], st, old)
    am = eng.ev(n.keywords[0].value, st, old) if n.keywords else eng.ev(n.args[1], st, old)
    return eng.ctx.app("copy_cmd", [REF, STR, BOOL], STR, [src, dst, am])


TCONS = {"TPRE": "", "TMID1": "", "TMID2": "", "TPOST": ""}


def build_module():
    tmpl, pieces = template_pieces()
    fields = [f for _, f, _, _ in pieces if f is not None]
    lits = [l for l, _, _, _ in pieces]
    ok = fields == ["eof", "command", "eof"]
    cons = {}
    if ok:
        # literal text before/between/after the fields; the trailing text after the last field may be absent in `pieces`
        tail = tmpl.split("{eof}")[-1]
        cons = {"TPRE": lits[0], "TMID1": lits[1], "TMID2": lits[2], "TPOST": tail}
    cs = dict(contracts)
    TCONS.update(cons)
    m = Module(
        fields={}, stable={"local": REF, "remote": REF, "path": STR},
        ufuns={"dedent": ([STR], STR), "str_strip0": ([STR], STR), "str_rstrip1": ([STR, STR], STR), "str_split1": ([STR, STR], Seq(STR)),
               "copy_cmd": ([REF, STR, BOOL], STR), "dec": ([INT], STR)},
        contracts=cs)
    return m, ok, cons, tmpl


MODULE, TEMPLATE_OK, _cons, TEMPLATE = build_module()
VERIFY = ["prepare_command", "get_command_eof", "get_wrapped_command", "StagingFile.render_stage", "StagingFile.render_unstage"]


def template_shape(tier, seed):
    """finite check on the template constant itself: heredoc opened with a quoted terminator, body is exactly the command
    on its own lines, terminator alone on the next line"""
    good = TEMPLATE_OK and TCONS["TPRE"].endswith('<<"') and TCONS["TMID1"] == '"\n' and TCONS["TMID2"] == "\n" and TCONS["TPOST"].startswith("\n")
    return [Result("get_wrapped_command/template-shape", "finite", "proved" if good else "refuted", "get_wrapped_command", 0, solver="python",
                   detail={"fields": [f for _, f, _, _ in string.Formatter().parse(TEMPLATE) if f], "stage": 0})]


# line-level heredoc lemma: if the terminator is not among the command's lines, the first line equal to it in
# lines ++ [eof] ++ rest is the one we wrote, so the shell reads back exactly `lines`
LEMMA = open(__import__("os").path.join(__import__("os").path.dirname(__file__), "c29_heredoc_lemma.smt2")).read()


def lemmas(tier, seed):
    from pvc import solve
    out = []
    for sv in ("z3", "cvc5"):
        r, ms, _ = solve.run1(sv, LEMMA, 30)
        if r == "unsat":
            return [Result("lemma/heredoc-first-terminator-line", "lemma", "proved", "(spec level)", 0, solver=sv, ms=ms, detail={"stage": 1})]
    return [Result("lemma/heredoc-first-terminator-line", "lemma", "undecided", "(spec level)", 0, detail={"last": r})]


def bounded_assembly(tier, seed):
    from pvc import bounded
    return [bounded.run("C29", "wrapper-execution-and-script-assembly", rule="real wrapper executed through sh with a cat shebang (stdout must equal the command text); script() command assembly order; staging no-op only for equal paths")]


EXTRA_CHECKS = [template_shape, lemmas, bounded_assembly]
EXPECTED_MIN_OBLIGATIONS = 15
TRUSTED = ["textwrap.dedent / str.strip / str.rstrip / str.split as uninterpreted pure functions", "A-DEC", "shell heredoc semantics"]
ASSUMPTIONS = ["dedent, strip, rstrip('\\n'), split('\\n') are uninterpreted pure functions (the statement is relative to them)",
               "POSIX shell semantics of a quoted heredoc (body taken verbatim up to the first line equal to the terminator) is trusted; the list-level lemma connects 'terminator not among the lines' to 'body read back is the command'",
               "termination of get_command_eof's search is argued on paper (candidates are pairwise distinct, lines is finite); partial correctness only",
               "script() assembly order (cd, stage inputs, wrapped command, unstage outputs) and postprocess_script.get_file are covered by the bounded replay driver, not by VCs"]
