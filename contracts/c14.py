"""C14 The canonical structure encoding behind every hash is injective -- encoder refinement contracts on redun/bcoding.py."""
import ast
from pvc.smt import *
from pvc.core import Module
from pvc import extract

PROPERTY = "C14"
B = "redun/bcoding.py"
BV = "BVal"
KV = Tup(STR, BV)

PRELUDE = ("(declare-datatypes ((BVal 0) (Opt_BVal 0)) (((BInt (bi Int)) (BBool (bb Bool)) (BTxt (bt String)) (BByt (by String)) "
           "(BSeq (bs (Seq BVal))) (BMap (bm (Array String Opt_BVal))) (BOther (bo Obj))) ((None_BVal) (Some_BVal (val_BVal BVal)))))")

AX = [
 # --- A-DEC: decimal rendering of integers
 "(forall ((n Int)) (! (> (str.len (|dec| n)) 0) :pattern ((|dec| n))))",
 # --- utf-8 encoding of text: injective (A-UTF8)
 "(forall ((a String) (b String)) (! (=> (= (|utf8| a) (|utf8| b)) (= a b)) :pattern ((|utf8| a) (|utf8| b))))",
 # --- enc: the canonical encoding, one-step unfoldings per constructor
 "(forall ((i Int)) (! (= (|enc| (BInt i)) (str.++ \"i\" (|dec| i) \"e\")) :pattern ((|enc| (BInt i)))))",
 "(forall ((s String)) (! (= (|enc| (BTxt s)) (str.++ (|dec| (str.len (|utf8| s))) \":\" (|utf8| s))) :pattern ((|enc| (BTxt s)))))",
 "(forall ((s String)) (! (= (|enc| (BByt s)) (str.++ (|dec| (str.len s)) \":\" s)) :pattern ((|enc| (BByt s)))))",
 "(forall ((xs (Seq BVal))) (! (= (|enc| (BSeq xs)) (str.++ \"l\" (|encs| xs (seq.len xs)) \"e\")) :pattern ((|enc| (BSeq xs)))))",
 "(forall ((xs (Seq BVal)) (i Int)) (! (= (|encs| xs i) (ite (<= i 0) \"\" (str.++ (|encs| xs (- i 1)) (|enc| (seq.nth xs (- i 1)))))) :pattern ((|encs| xs i))))",
 "(forall ((m (Array String Opt_BVal))) (! (= (|enc| (BMap m)) (str.++ \"d\" (|encits| (|sorted_items| m) (seq.len (|sorted_items| m))) \"e\")) :pattern ((|enc| (BMap m)))))",
 "(forall ((its (Seq Tup_Tup_String_BVal)) (i Int)) (! (= (|encits| its i) (ite (<= i 0) \"\" (str.++ (|encits| its (- i 1)) (|enc| (BTxt (f0_Tup_String_BVal (seq.nth its (- i 1))))) (|enc| (f1_Tup_String_BVal (seq.nth its (- i 1))))))) :pattern ((|encits| its i))))",
 # --- A-SORT / A-DICT: sorted(mapping.items()) for a string-keyed mapping: strictly increasing keys, exactly the items
 "(forall ((m (Array String Opt_BVal)) (i Int) (j Int)) (! (=> (and (>= i 0) (< i j) (< j (seq.len (|sorted_items| m)))) (str.< (f0_Tup_String_BVal (seq.nth (|sorted_items| m) i)) (f0_Tup_String_BVal (seq.nth (|sorted_items| m) j)))) :pattern ((seq.nth (|sorted_items| m) i) (seq.nth (|sorted_items| m) j))))",
 "(forall ((m (Array String Opt_BVal)) (i Int)) (! (=> (and (>= i 0) (< i (seq.len (|sorted_items| m)))) (= (select m (f0_Tup_String_BVal (seq.nth (|sorted_items| m) i))) (Some_BVal (f1_Tup_String_BVal (seq.nth (|sorted_items| m) i))))) :pattern ((seq.nth (|sorted_items| m) i))))",
 "(forall ((m (Array String Opt_BVal)) (k String)) (! (=> ((_ is Some_BVal) (select m k)) (exists ((i Int)) (and (>= i 0) (< i (seq.len (|sorted_items| m))) (= (f0_Tup_String_BVal (seq.nth (|sorted_items| m) i)) k)))) :pattern ((select m k) (|sorted_items| m))))",
 # --- encodable: what the encoder accepts
 "(forall ((v BVal)) (! (=> (or ((_ is BInt) v) ((_ is BTxt) v) ((_ is BByt) v)) (|encodable| v)) :pattern ((|encodable| v))))",
 "(forall ((v BVal)) (! (=> (or ((_ is BBool) v) ((_ is BOther) v)) (not (|encodable| v))) :pattern ((|encodable| v))))",
 "(forall ((v BVal)) (! (=> ((_ is BSeq) v) (= (|encodable| v) (forall ((i Int)) (=> (and (>= i 0) (< i (seq.len (bs v)))) (|encodable| (seq.nth (bs v) i)))))) :pattern ((|encodable| v))))",
 "(forall ((v BVal)) (! (=> ((_ is BMap) v) (= (|encodable| v) (forall ((k String)) (=> ((_ is Some_BVal) (select (bm v) k)) (|encodable| (val_BVal (select (bm v) k))))))) :pattern ((|encodable| v))))",
]


def isinst(eng, v, nm, st):
    if v.sort != BV:
        return None
    t = {"int": f"(or ((_ is BInt) {v.s}) ((_ is BBool) {v.s}))", "bool": f"((_ is BBool) {v.s})", "str": f"((_ is BTxt) {v.s})",
         "bytes": f"((_ is BByt) {v.s})", "Mapping": f"((_ is BMap) {v.s})",
         "Iterable": f"(or ((_ is BSeq) {v.s}) ((_ is BMap) {v.s}) ((_ is BTxt) {v.s}) ((_ is BByt) {v.s}))"}
    return t.get(nm)


def as_bytes(eng, v):
    """the byte string a value contributes when written to the file"""
    if isinstance(v, T) and v.sort == STR:
        return v
    if isinstance(v, T) and v.sort == BV:
        # only bytes objects can be written; text must have been encoded first (a TypeError otherwise)
        return T(STR, f"(ite ((_ is BByt) {v.s}) (by {v.s}) (|not_bytes| {v.s}))")
    return None


def f_write(eng, n, st, old):
    f = eng.ev(n.func.value, st, old)
    v = as_bytes(eng, eng.ev(n.args[0], st, old))
    if v is None or not isinstance(f, T) or f.sort != REF:
        return NotImplemented
    h = eng.field(st, "buf")
    cur = f"(select {h.s} {f.s})"
    st.heap["buf"] = T(h.sort, f"(store {h.s} {f.s} (str.++ {cur} {v.s}))")
    return T(NONE, "none")


def method(eng, recv, at, n, st, old):
    if recv.sort == BV and at == "encode":
        return T(BV, f"(ite ((_ is BTxt) {recv.s}) (BByt (|utf8| (bt {recv.s}))) (|bad_encode| {recv.s}))")
    if recv.sort == BV and at == "items":
        return T(Seq(KV), f"(|items_view| (bm {recv.s}))")
    return None


def blen(eng, v, st):
    if v.sort == BV:
        return T(INT, f"(ite ((_ is BByt) {v.s}) (str.len (by {v.s})) (ite ((_ is BTxt) {v.s}) (str.len (bt {v.s})) (|len_other| {v.s})))")
    return None


def coerce(eng, t, sort):
    if sort == BV and isinstance(t, T) and t.sort == STR:
        return T(BV, f"(BTxt {t.s})")
    if sort == INT and isinstance(t, T) and t.sort == BV:
        return T(INT, f"(bi {t.s})")
    return None


def to_str(eng, v, st):
    if v.sort == BV:
        return T(STR, f"(|dec| (bi {v.s}))")
    return None


def it(eng, v, st):
    if v.sort == BV:
        return T(Seq(BV), f"(bs {v.s})")
    return None


APPEND = "f.buf == old(f.buf) + {x}"
FRAME = "forall(o, Ref, implies(o != f, o.buf == old(o.buf)))"
contracts = {
 "_encode_int": dict(where=f"{B}:_encode_int", params={"integer": BV, "f": REF},
    requires=["smt('((_ is BInt) {v})', v=integer)"],
    ensures=[APPEND.format(x="enc(integer)"), FRAME], modifies=["buf"], no_raise=True),
 "_encode_buffer": dict(where=f"{B}:_encode_buffer", params={"string": BV, "f": REF},
    requires=["smt('(or ((_ is BTxt) {v}) ((_ is BByt) {v}))', v=string)"],
    ensures=[APPEND.format(x="enc(string)"), FRAME], modifies=["buf"], no_raise=True),
 "bencode": dict(where=f"{B}:bencode", params={"data": BV, "f": Opt(REF)}, returns=Opt(STR),
    ensures=["implies(f != None, val(f).buf == old(val(f).buf) + enc(data))", "implies(f != None, forall(o, Ref, implies(o != val(f), o.buf == old(o.buf))))",
             "implies(f == None, result == Some(enc(data)))", "encodable(data)"],
    raises={"TypeError": "not encodable(data)"}, modifies=["buf"],
    lib={"BytesIO()": lambda e, n, st, old: new_file(e, st), "f.getvalue()": lambda e, n, st, old: T(STR, f"(select {e.field(st, 'buf').s} {st.env['f'].s})")}),
 "_encode_iterable": dict(where=f"{B}:_encode_iterable", params={"iterable": BV, "f": REF},
    requires=["smt('((_ is BSeq) {v})', v=iterable)"],
    ensures=[APPEND.format(x="enc(iterable)"), FRAME, "encodable(iterable)"], raises={"TypeError": "not encodable(iterable)"}, modifies=["buf"],
    loops={0: ["f.buf == old(f.buf) + 'l' + encs(smt('(bs {v})', v=iterable, sort=Seq(BVal)), index(0))", FRAME,
               "forall(j, Int, implies(0 <= j and j < index(0), encodable(smt('(seq.nth (bs {v}) {j})', v=iterable, j=j, sort=BVal))))"]}),
 "_encode_mapping": dict(where=f"{B}:_encode_mapping", params={"mapping": BV, "f": REF},
    requires=["smt('((_ is BMap) {v})', v=mapping)"],
    ensures=[APPEND.format(x="enc(mapping)"), FRAME, "encodable(mapping)"], raises={"TypeError": "not encodable(mapping)"}, modifies=["buf"],
    lib={"sorted(mapping.items())": lambda e, n, st, old: T(Seq(KV), f"(|sorted_items| (bm {st.env['mapping'].s}))")},
    loops={0: ["f.buf == old(f.buf) + 'd' + encits(sorted_items(smt('(bm {v})', v=mapping, sort=Map(Str, BVal))), index(0))", FRAME,
               "forall(j, Int, implies(0 <= j and j < index(0), encodable(smt('(f1_Tup_String_BVal (seq.nth (|sorted_items| (bm {v})) {j}))', v=mapping, j=j, sort=BVal))))"]}),
 "_bencode_to_file": dict(where=f"{B}:_bencode_to_file", params={"data": BV, "f": REF},
    ensures=[APPEND.format(x="enc(data)"), FRAME, "encodable(data)"], raises={"TypeError": "not encodable(data)"}, modifies=["buf"]),
}


def new_file(eng, st):
    f = eng.opaque("bytesio", REF)
    h = eng.field(st, "buf")
    st.heap["buf"] = T(h.sort, f"(store {h.s} {f.s} \"\")")
    eng.note("A-NEW", "BytesIO() returns a fresh empty buffer", 0)
    return f


MODULE = Module(
    prelude=PRELUDE, predeclared_opts=[Opt(BV)], axioms=AX,
    fields={"buf": STR},
    ufuns={"dec": ([INT], STR), "utf8": ([STR], STR), "enc": ([BV], STR), "encs": ([Seq(BV), INT], STR), "encits": ([Seq(KV), INT], STR),
           "sorted_items": ([Map(STR, BV)], Seq(KV)), "encodable": ([BV], BOOL), "not_bytes": ([BV], STR), "bad_encode": ([BV], BV),
           "len_other": ([BV], INT), "items_view": ([Map(STR, BV)], Seq(KV))},
    hooks={"isinstance": isinst, "method": method, "len": blen, "coerce": coerce, "iter": it, "str": to_str},
    consts={k: (STR, smt_str(v.decode("latin-1"))) for k, v in extract.module_constants(B).items() if isinstance(v, bytes)},
    lib={"f.write(": f_write},
    sortnames={"BVal": BV},
    contracts=contracts,
)
VERIFY = ["_encode_int", "_encode_buffer", "bencode", "_encode_iterable", "_encode_mapping", "_bencode_to_file"]


def bounded_roundtrip(tier, seed):
    from pvc import bounded
    return [bounded.run("C14", "injectivity-and-decode-roundtrip", env={"C14_DEPTH": "2" if tier == "quick" else "3"},
                        rule="every structure up to the bound on the real bencode/bdecode: distinct canonical structures get distinct encodings, decode(encode(v)) == v, nested bools rejected, key order irrelevant")]


EXTRA_CHECKS = [bounded_roundtrip]
EXPECTED_MIN_OBLIGATIONS = 40
TRUSTED = ["A-DEC", "A-UTF8", "A-SORT/A-DICT (sorted(mapping.items()))", "enc axioms (definition of the canonical encoding)", "BytesIO as an append-only byte buffer"]
ASSUMPTIONS = [
    "enc is the specification of the canonical encoding, given by one-step unfolding axioms per constructor (ints i<dec>e, strings <len>:<bytes> over utf-8 bytes, lists l...e, mappings d<sorted key/value>e)",
    "A-SORT/A-DICT: sorted(mapping.items()) of a string-keyed mapping is the sequence of its items in strictly increasing key order and depends only on the mapping's contents (not on insertion order)",
    "A-UTF8: str.encode() is an injective function utf8; A-DEC: str(int) is the function dec; BytesIO.write appends, getvalue returns the contents",
    "mapping keys are text strings (the property's 'string-keyed mappings'); bytes keys and mixed keys are outside the contract",
    "injectivity of enc and bdecode(bencode(v)) == v are decided only by the bounded check (labelled bounded): the decoder is not under contract yet",
]
