"""C23 Record transfer between repositories preserves the call graph -- contracts on the ownership-edge generators
(get_execution_child_edges ... get_tag_entity_child_edges), the closure walk iter_record_ids and the duplicate filter of put_records
(redun/backends/db/__init__.py).

Tables are ghost sets of rows (uninterpreted row sorts, one function per column); record ids and hashes are terms of the sort RID (the
null of a nullable column is falsy).  A-QUERY: filter_in(session.query(cols...)[.filter(c)...], key, ids) returns one tuple of the
selected columns for exactly the rows of the table whose key column is in ids (and that pass the extra filters, which are unknown row
predicates); the Argument LEFT OUTER JOIN ArgumentResult query returns, for each selected Argument row, one tuple per matching
ArgumentResult row, or one tuple with a null third column when there is none."""
import ast
from pvc.smt import *
from pvc.core import Module, RaiseEx
from pvc.result import Result
from pvc import extract

PROPERTY = "C23"
DB = "redun/backends/db/__init__.py"
RID = "RID"
EDGE = Tup(STR, OBJ, RID)
TABLES = {"Execution": ["id", "job_id"], "Job": ["id", "task_hash", "call_hash", "parent_id"], "CallNode": ["call_hash", "task_hash", "value_hash"],
          "Argument": ["arg_hash", "call_hash", "value_hash"], "ArgumentResult": ["arg_hash", "result_call_hash"], "CallEdge": ["parent_id", "child_id"], "CallSubtreeTask": ["call_hash", "task_hash"],
          "Subvalue": ["value_hash", "parent_value_hash"], "TagEdit": ["parent_id", "child_id"], "Tag": ["tag_hash", "entity_id"]}
MODELS = ["Execution", "Job", "CallNode", "Value", "Tag", "Task"]
PRELUDE = "(declare-sort RID 0)\n" + "\n".join(f"(declare-sort Row_{t} 0)" for t in TABLES)
AX = [
 "(distinct " + " ".join(f"|M_{m}|" for m in MODELS) + ")",
 # membership of an edge target in the yielded sequence
 "(forall ((s (Seq {E})) (t (Seq {E})) (m Obj) (x RID)) (! (= (|in_y| (seq.++ s t) m x) (or (|in_y| s m x) (|in_y| t m x))) :pattern ((|in_y| (seq.++ s t) m x))))",
 "(forall ((e {E}) (m Obj) (x RID)) (! (= (|in_y| (seq.unit e) m x) (and (= (f1_{M} e) m) (= (f2_{M} e) x))) :pattern ((|in_y| (seq.unit e) m x))))",
 "(forall ((m Obj) (x RID)) (! (not (|in_y| (as seq.empty (Seq {E})) m x)) :pattern ((|in_y| (as seq.empty (Seq {E})) m x))))",
 # the null of a nullable column is falsy, every id / hash is truthy
 "(forall ((x RID)) (! (= (|truthy_RID| x) (not (= x |null_id|))) :pattern ((|truthy_RID| x))))",
 # arg_hash is the primary key of Argument
 "(forall ((a Row_Argument) (b Row_Argument)) (! (=> (= (|col_Argument_arg_hash| a) (|col_Argument_arg_hash| b)) (= a b)) :pattern ((|col_Argument_arg_hash| a) (|col_Argument_arg_hash| b))))",
]
AX = [a.replace("{E}", sort_smt(EDGE)).replace("{M}", mangle(EDGE)) for a in AX]
GHOST = {f"tbl_{t}": Set(f"Row_{t}") for t in TABLES}
UF = {"in_y": ([Seq(EDGE), OBJ, RID], BOOL), "null_id": ([], RID), "truthy_RID": ([RID], BOOL)}
UF.update({f"col_{t}_{c}": ([f"Row_{t}"], RID) for t, cs in TABLES.items() for c in cs})
UF.update({f"M_{m}": ([], OBJ) for m in MODELS})
CONSTS = {m: (OBJ, f"|M_{m}|") for m in MODELS}


def truthy_rid(t):
    t.tr = f"(not (= {t.s} |null_id|))"
    return t


def parse_query(e, q, st, old):
    """session.query(T.c1, T.c2, ...) [.outerjoin(U)] [.filter(cond)]* -> (table, [columns], outerjoin table or None, number of extra filters)"""
    extra, oj = 0, None
    while isinstance(q, ast.Call) and isinstance(q.func, ast.Attribute) and q.func.attr in ("filter", "outerjoin"):
        if q.func.attr == "filter":
            extra += len(q.args)
        else:
            oj = ast.unparse(q.args[0])
        q = q.func.value
    if isinstance(q, ast.Name) and isinstance(st.env.get(q.id), tuple) and st.env[q.id][0] == "query":
        t, cols, oj0, extra0 = st.env[q.id][1:]
        return t, cols, oj or oj0, extra + extra0
    if not (isinstance(q, ast.Call) and ast.unparse(q.func) == "session.query"):
        raise KeyError("A-QUERY: unsupported query " + ast.unparse(q)[:60])
    cols = []
    for a in q.args:
        if not (isinstance(a, ast.Attribute) and isinstance(a.value, ast.Name)):
            raise KeyError("A-QUERY: column expected, got " + ast.unparse(a))
        cols.append((a.value.id, a.attr))
    return cols[0][0], cols, oj, extra


def lib_query(e, n, st, old):
    t, cols, oj, extra = parse_query(e, n, st, old)
    return ("query", t, cols, oj, extra)


def lib_filter_in(e, n, st, old):
    t, cols, oj, extra = parse_query(e, n.args[0], st, old)
    keyc = n.args[1]
    ids = e.ev(n.args[2], st, old)
    c = e.ctx
    k = c.n = c.n + 1
    rs = f"Row_{t}"
    col = lambda tt, cc, r: f"(|col_{tt}_{cc}| {r})"
    keep = lambda r: conj([f"(select {st.ghost['tbl_' + t].s} {r})", f"(select {ids.s} {col(keyc.value.id, keyc.attr, r)})"] + [f"(|flt{k}_{i}| {r})" for i in range(extra)])
    for i in range(extra):
        c.fun(f"flt{k}_{i}", [rs], BOOL)      # an extra .filter(...): an unknown predicate of the row
    if extra:
        e.note("A-QUERY", f"{extra} extra filter(s) on {t}: rows are selected only if they pass an unknown predicate", n.lineno)
    rsort = Tup(*[RID for _ in cols])
    R = c.fresh(Seq(rsort), "rows")
    c.fun(f"pos{k}", [rs], INT)
    if oj is None:
        tup = lambda r: mk_tup(c, [T(RID, col(tt, cc, r)) for tt, cc in cols]).s
        st.pc.append(f"(forall ((r {rs})) (! (=> {keep('r')} (and (<= 0 (|pos{k}| r)) (< (|pos{k}| r) (seq.len {R.s})) (= (seq.nth {R.s} (|pos{k}| r)) {tup('r')}))) :pattern ((|pos{k}| r)) :pattern ((select {st.ghost['tbl_' + t].s} r))))")
        return R
    # LEFT OUTER JOIN on the foreign key <oj>.arg_hash == <t>.arg_hash; the columns of <oj> come last in the selected tuple
    if (t, oj) != ("Argument", "ArgumentResult") or [tt for tt, _ in cols] != ["Argument", "Argument", "ArgumentResult"]:
        raise KeyError("A-QUERY: outer join outside the modelled shape")
    os_ = f"Row_{oj}"
    c.fun(f"pos2_{k}", [rs, os_], INT)
    joined = lambda r, o: f"(and (select {st.ghost['tbl_' + oj].s} {o}) (= {col(oj, 'arg_hash', o)} {col(t, 'arg_hash', r)}))"
    own = lambda r: [T(RID, col(tt, cc, r)) for tt, cc in cols[:2]]
    nth = lambda i, j: tup_get(T(rsort, f"(seq.nth {R.s} {i})"), j).s
    st.pc.append(f"(forall ((r {rs})) (! (=> {keep('r')} (and (<= 0 (|pos{k}| r)) (< (|pos{k}| r) (seq.len {R.s})) (= {nth(f'(|pos{k}| r)', 0)} {own('r')[0].s}) (= {nth(f'(|pos{k}| r)', 1)} {own('r')[1].s}))) "
                 f":pattern ((|pos{k}| r)) :pattern ((select {st.ghost['tbl_' + t].s} r))))")
    st.pc.append(f"(forall ((r {rs}) (o {os_})) (! (=> (and {keep('r')} {joined('r', 'o')}) (and (<= 0 (|pos2_{k}| r o)) (< (|pos2_{k}| r o) (seq.len {R.s})) "
                 f"(= (seq.nth {R.s} (|pos2_{k}| r o)) {mk_tup(c, own('r') + [T(RID, col(oj, cols[2][1], 'o'))]).s}))) :pattern ((|pos2_{k}| r o)) :pattern ((select {st.ghost['tbl_' + t].s} r) (select {st.ghost['tbl_' + oj].s} o))))")
    # arg_hash is the primary key of Argument: tuples with the same first column agree on the second
    st.pc.append(f"(forall ((i Int) (j Int)) (! (=> (and (<= 0 i) (< i (seq.len {R.s})) (<= 0 j) (< j (seq.len {R.s})) (= {nth('i', 0)} {nth('j', 0)})) (= {nth('i', 1)} {nth('j', 1)})) :pattern ((seq.nth {R.s} i) (seq.nth {R.s} j))))")
    return R


def on_yield(e, st, cur, new, v):
    """membership in the extended sequence, stated directly (the same fact follows from the in_y axioms over seq.++, but needs no sequence reasoning)"""
    st.pc.append(f"(forall ((m Obj) (x RID)) (! (= (|in_y| {new.s} m x) (or (|in_y| {cur.s} m x) (and (= m {tup_get(v, 1).s}) (= x {tup_get(v, 2).s})))) :pattern ((|in_y| {new.s} m x))))")


def attr_hook(e, o, attr, st, old):
    if isinstance(o, T) and isinstance(o.sort, str) and o.sort.startswith("Row_") and attr in TABLES.get(o.sort[4:], []):
        return T(RID, f"(|col_{o.sort[4:]}_{attr}| {o.s})")
    return NotImplemented


LIB = {"filter_in(": lib_filter_in, "session.query(": lib_query}


def yields_all(table, key, *targets):
    """completeness: for every row of <table> whose <key> is in ids, every listed (model, column) target has been yielded"""
    return [f"forall(r, Row_{table}, implies(tbl_{table}[r] and ids[r.{key}], in_y(yielded, {m}, r.{c})))" for m, c in targets]


def yields_all_upto(table, key, pos, *targets):
    return [f"forall(r, Row_{table}, implies(tbl_{table}[r] and ids[r.{key}] and {pos}, in_y(yielded, {m}, r.{c})))" for m, c in targets]


P = {"self": REF}
EP = {"session": OBJ, "ids": Set(RID)}
edge_contracts = {
 "get_execution_child_edges": dict(where=f"{DB}:get_execution_child_edges", params=EP, yields=Seq(EDGE), ghost=GHOST, lib=LIB, no_raise=True, on_yield=on_yield,
    loops={0: dict(inv=["forall(j, Int, implies(0 <= j and j < index(), in_y(yielded, Job, iterated(0)[j][0])))"])},
    ensures=yields_all("Execution", "id", ("Job", "job_id"))),
 "get_job_child_edges": dict(where=f"{DB}:get_job_child_edges", params=EP, yields=Seq(EDGE), ghost=GHOST, lib=LIB, no_raise=True, on_yield=on_yield,
    loops={0: dict(inv=["forall(j, Int, implies(0 <= j and j < index(), in_y(yielded, Task, iterated(0)[j][0]) and in_y(yielded, CallNode, iterated(0)[j][1])))"]),
           1: dict(inv=yields_all("Job", "id", ("Task", "task_hash"), ("CallNode", "call_hash")) + ["forall(j, Int, implies(0 <= j and j < index(), in_y(yielded, Job, iterated(1)[j][0])))"])},
    # a job owns its task, its call node and its child jobs
    ensures=yields_all("Job", "id", ("Task", "task_hash"), ("CallNode", "call_hash")) + yields_all("Job", "parent_id", ("Job", "id"))),
 "get_call_node_child_edges": dict(where=f"{DB}:get_call_node_child_edges", params=EP, yields=Seq(EDGE), ghost=GHOST, lib=LIB, no_raise=True, on_yield=on_yield, locals={"seen_args": Set(RID)},
    loops={0: dict(inv=["forall(j, Int, implies(0 <= j and j < index(), in_y(yielded, Task, iterated(0)[j][0]) and in_y(yielded, Value, iterated(0)[j][1])))"]),
           1: dict(inv=yields_all("CallNode", "call_hash", ("Task", "task_hash"), ("Value", "value_hash")) + [
               "forall(j, Int, implies(0 <= j and j < len(iterated(1)) and seen_args[iterated(1)[j][0]], in_y(yielded, Value, iterated(1)[j][1])))",
               "forall(j, Int, implies(0 <= j and j < index(), in_y(yielded, Value, iterated(1)[j][1])))",
               "forall(j, Int, implies(0 <= j and j < index() and iterated(1)[j][2] != null_id, in_y(yielded, CallNode, iterated(1)[j][2])))"]),
           2: dict(inv=yields_all("CallNode", "call_hash", ("Task", "task_hash"), ("Value", "value_hash")) + yields_all("Argument", "call_hash", ("Value", "value_hash")) + [
               "forall(a, Row_Argument, forall(u, Row_ArgumentResult, implies(tbl_Argument[a] and ids[a.call_hash] and tbl_ArgumentResult[u] and u.arg_hash == a.arg_hash and u.result_call_hash != null_id, "
               " in_y(yielded, CallNode, u.result_call_hash))))",
               "forall(j, Int, implies(0 <= j and j < index(), in_y(yielded, CallNode, iterated(2)[j][0])))"]),
           3: dict(inv=yields_all("CallNode", "call_hash", ("Task", "task_hash"), ("Value", "value_hash")) + yields_all("Argument", "call_hash", ("Value", "value_hash")) + [
               "forall(a, Row_Argument, forall(u, Row_ArgumentResult, implies(tbl_Argument[a] and ids[a.call_hash] and tbl_ArgumentResult[u] and u.arg_hash == a.arg_hash and u.result_call_hash != null_id, "
               " in_y(yielded, CallNode, u.result_call_hash))))"] + yields_all("CallEdge", "parent_id", ("CallNode", "child_id")) + [
               "forall(j, Int, implies(0 <= j and j < index(), in_y(yielded, Task, iterated(3)[j][0])))"])},
    # a call node owns its task, its result value, the values of its arguments, the upstream call nodes of its arguments, its child call nodes
    ensures=yields_all("CallNode", "call_hash", ("Task", "task_hash"), ("Value", "value_hash")) + yields_all("Argument", "call_hash", ("Value", "value_hash")) + [
        "forall(a, Row_Argument, forall(u, Row_ArgumentResult, implies(tbl_Argument[a] and ids[a.call_hash] and tbl_ArgumentResult[u] and u.arg_hash == a.arg_hash and u.result_call_hash != null_id, "
        " in_y(yielded, CallNode, u.result_call_hash))))"] + yields_all("CallEdge", "parent_id", ("CallNode", "child_id"))
        # ... and the tasks of its subtree (the rows shallow cache validity is decided from travel with the call node)
        + yields_all("CallSubtreeTask", "call_hash", ("Task", "task_hash"))),
 "get_value_child_edges": dict(where=f"{DB}:get_value_child_edges", params=EP, yields=Seq(EDGE), ghost=GHOST, lib=LIB, no_raise=True, on_yield=on_yield,
    loops={0: dict(inv=["forall(j, Int, implies(0 <= j and j < index(), in_y(yielded, Value, iterated(0)[j][0])))"])},
    ensures=yields_all("Subvalue", "parent_value_hash", ("Value", "value_hash"))),
 "get_tag_child_edges": dict(where=f"{DB}:get_tag_child_edges", params=EP, yields=Seq(EDGE), ghost=GHOST, lib=LIB, no_raise=True, on_yield=on_yield,
    loops={0: dict(inv=["forall(j, Int, implies(0 <= j and j < index(), in_y(yielded, Tag, iterated(0)[j][0])))"]),
           1: dict(inv=yields_all("TagEdit", "child_id", ("Tag", "parent_id")) + ["forall(j, Int, implies(0 <= j and j < index(), in_y(yielded, Tag, iterated(1)[j][0])))"])},
    # the whole edit history of a tag travels with it: the tags it replaced and the tags that replaced (or deleted) it
    ensures=yields_all("TagEdit", "child_id", ("Tag", "parent_id")) + yields_all("TagEdit", "parent_id", ("Tag", "child_id"))),
 "get_tag_entity_child_edges": dict(where=f"{DB}:get_tag_entity_child_edges", params=EP, yields=Seq(EDGE), ghost=GHOST, lib=LIB, no_raise=True, on_yield=on_yield,
    loops={0: dict(inv=["forall(j, Int, implies(0 <= j and j < index(), in_y(yielded, Tag, iterated(0)[j][0])))"])},
    # every tag ever attached to the entity, current or superseded (a superseded tag is the only path to its deletion marker)
    ensures=yields_all("Tag", "entity_id", ("Tag", "tag_hash"))),
}
EDGE_MODULE = Module(prelude=PRELUDE, sortnames={"RID": RID, **{f"Row_{t}": f"Row_{t}" for t in TABLES}}, axioms=AX, ufuns=UF, consts=CONSTS, hooks={"attr": attr_hook}, contracts=edge_contracts)
# ------------------------------------------------------------------------------------------------ iter_record_ids: the closure walk
MID = Tup(OBJ, RID)
WAX = [
 "(forall ((s (Seq RID)) (i Int)) (! (=> (and (<= 0 i) (< i (seq.len s))) (|in_ids| s (seq.nth s i))) :pattern ((seq.nth s i))))",
 "(forall ((s (Seq RID)) (t (Seq RID)) (h RID)) (! (= (|in_ids| (seq.++ s t) h) (or (|in_ids| s h) (|in_ids| t h))) :pattern ((|in_ids| (seq.++ s t) h))))",
 "(forall ((x RID) (h RID)) (! (= (|in_ids| (seq.unit x) h) (= x h)) :pattern ((|in_ids| (seq.unit x) h))))",
 "(forall ((h RID)) (! (not (|in_ids| (as seq.empty (Seq RID)) h)) :pattern ((|in_ids| (as seq.empty (Seq RID)) h))))",
]


def walk_on_yield(e, st, cur, new, v):
    st.pc.append(f"(forall ((h RID)) (! (= (|in_ids| {new.s} h) (or (|in_ids| {cur.s} h) (= h {v.s}))) :pattern ((|in_ids| {new.s} h))))")


def walk_comp(e, n, st, old):
    """[("", model, id) for model, id in <typed roots>]: one edge per element, same order"""
    if not (isinstance(n, ast.ListComp) and len(n.generators) == 1 and isinstance(n.elt, ast.Tuple) and isinstance(n.generators[0].target, ast.Tuple) and not n.generators[0].ifs):
        return NotImplemented
    g = n.generators[0]
    src = e.ev(g.iter, st, old)
    if not (isinstance(src, T) and src.sort == Seq(MID)):
        return NotImplemented
    r = e.ctx.fresh(Seq(EDGE), "root_edges")
    j = "|q_re|"
    st2 = st.clone()
    for i, t in enumerate(g.target.elts):
        st2.env[t.id] = tup_get(T(MID, f"(seq.nth {src.s} {j})"), i)
    e.nofork += 1
    try:
        el = e.coerce(e.ev(n.elt, st2, old), EDGE, "comprehension element")
    finally:
        e.nofork -= 1
    st.pc.append(f"(= (seq.len {r.s}) (seq.len {src.s}))")
    st.pc.append(f"(forall (({j} Int)) (! (=> (and (<= 0 {j}) (< {j} (seq.len {r.s}))) (= (seq.nth {r.s} {j}) {el.s})) :pattern ((seq.nth {r.s} {j})) :pattern ((seq.nth {src.s} {j}))))")
    return r


PENDING = "exists(j, Int, {lo} <= j and j < len(child_edges) and child_edges[j][2] == {x})"
NEW = "exists(m, Obj, new_model_ids[(m, {x})])"
WALK_COMMON = ["forall(h, RID, seen[h] == in_ids(yielded, h))",
               "forall(i, Int, forall(j, Int, implies(0 <= i and i < j and j < len(yielded), yielded[i] != yielded[j])))",
               "forall(h, RID, implies(seen[h], desc(h)))",
               "forall(j, Int, implies(0 <= j and j < len(child_edges), desc(child_edges[j][2])))"]
walk_contracts = {
 "RedunBackendDb.iter_record_ids": dict(where=f"{DB}:RedunBackendDb.iter_record_ids", params={"self": REF, "root_ids": Set(RID)}, yields=Seq(RID), on_yield=walk_on_yield,
    locals={"seen": Set(RID), "new_model_ids": Set(MID), "child_edges": Seq(EDGE)},
    # desc: any set of ids that contains the roots and is closed under ownership edges (so: the descendants of the roots)
    requires=["forall(r, RID, implies(root_ids[r], desc(r)))", "forall(a, RID, forall(b, RID, implies(desc(a) and edge(a, b), desc(b))))"],
    loops={0: dict(inv=WALK_COMMON + [
               "forall(a, RID, forall(b, RID, implies(seen[a] and edge(a, b), seen[b] or " + PENDING.format(lo="0", x="b") + ")))",
               "forall(r, RID, implies(root_ids[r] and is_record(r), seen[r] or " + PENDING.format(lo="0", x="r") + "))"]),
           1: dict(inv=WALK_COMMON + [
               "forall(a, RID, forall(b, RID, implies(seen[a] and edge(a, b), seen[b] or " + NEW.format(x="a") + " or " + PENDING.format(lo="index()", x="b") + ")))",
               "forall(r, RID, implies(root_ids[r] and is_record(r), seen[r] or " + PENDING.format(lo="index()", x="r") + "))",
               "forall(m, Obj, forall(a, RID, implies(new_model_ids[(m, a)], seen[a])))"])},
    ensures=[  # every root that is a record is yielded; the yielded set is closed under ownership edges; nothing is yielded twice; only descendants of the roots are yielded
        "forall(r, RID, implies(root_ids[r] and is_record(r), in_ids(yielded, r)))",
        "forall(a, RID, forall(b, RID, implies(in_ids(yielded, a) and edge(a, b), in_ids(yielded, b))))",
        "forall(i, Int, forall(j, Int, implies(0 <= i and i < j and j < len(yielded), yielded[i] != yielded[j])))",
        "forall(h, RID, implies(in_ids(yielded, h), desc(h)))"]),
 # the typed roots: the roots that exist as records, with their model
 "*._get_record_types": dict(where=f"{DB}:RedunBackendDb._get_record_types", params={"self": REF, "record_ids": Set(RID)}, returns=Seq(MID),
    ensures=["forall(r, RID, implies(record_ids[r] and is_record(r), exists(j, Int, 0 <= j and j < len(result) and result[j][1] == r)))",
             "forall(j, Int, implies(0 <= j and j < len(result), record_ids[result[j][1]]))"]),
 # the ownership edges out of a set of records (the union of the edge generators above)
 "*.get_child_record_ids": dict(where=f"{DB}:RedunBackendDb.get_child_record_ids", params={"self": REF, "model_ids": Set(MID)}, returns=Seq(EDGE),
    ensures=["forall(m, Obj, forall(a, RID, forall(b, RID, implies(model_ids[(m, a)] and edge(a, b), exists(j, Int, 0 <= j and j < len(result) and result[j][2] == b)))))",
             "forall(j, Int, implies(0 <= j and j < len(result), exists(m, Obj, exists(a, RID, model_ids[(m, a)] and edge(a, result[j][2])))))"]),
}
WALK_MODULE = Module(prelude="(declare-sort RID 0)", sortnames={"RID": RID}, axioms=WAX, hooks={"comp": walk_comp},
                     ufuns={"in_ids": ([Seq(RID), RID], BOOL), "edge": ([RID, RID], BOOL), "desc": ([RID], BOOL), "is_record": ([RID], BOOL)}, contracts=walk_contracts)


# ------------------------------------------------------------------------------------------------ put_records: only records that are not there yet are written
def lib_list(e, n, st, old):
    a = n.args[0]
    if isinstance(a, ast.Call) and ast.unparse(a.func) == "map" and ast.unparse(a.args[0]).endswith(".get_pk"):
        xs = e.ev(a.args[1], st, old)              # list(map(serializer.get_pk, records)): the primary key of each record, same order
        r = e.ctx.fresh(Seq(RID), "pks")
        st.pc.append(f"(= (seq.len {r.s}) (seq.len {xs.s}))")
        st.pc.append(f"(forall ((j Int)) (! (=> (and (<= 0 j) (< j (seq.len {r.s}))) (= (seq.nth {r.s} j) (|pk| (seq.nth {xs.s} j)))) :pattern ((seq.nth {r.s} j)) :pattern ((seq.nth {xs.s} j))))")
        return r
    v = e.ev(a, st, old)
    if isinstance(v, T) and isinstance(v.sort, tuple) and v.sort[0] == "Seq":
        return v
    return NotImplemented


def lib_set_ids(e, n, st, old):
    v = e.ev(n.args[0], st, old)
    if isinstance(v, T) and v.sort == Seq(RID):
        r = e.ctx.fresh(Set(RID), "idset")
        st.pc.append(f"(forall ((h RID)) (! (= (select {r.s} h) (|in_ids| {v.s} h)) :pattern ((select {r.s} h))))")
        return r
    return NotImplemented


def lib_add_all(e, n, st, old):
    a = n.args[0]
    if (isinstance(a, ast.Call) and ast.unparse(a.func) == "chain.from_iterable" and isinstance(a.args[0], ast.Call) and ast.unparse(a.args[0].func) == "map"
            and ast.unparse(a.args[0].args[0]).endswith(".deserialize")):
        st.ghost["added"] = e.coerce(e.ev(a.args[0].args[1], st, old), Seq(OBJ), "add_all")       # the rows of exactly these records are added
        return T(NONE, "none")
    raise KeyError("A-ORM: session.add_all outside the modelled shape")


def put_on_append(e, st, cur, new, x):
    if new.sort == Seq(OBJ):
        st.pc.append(f"(forall ((h RID)) (! (= (|has_pk| {new.s} h) (or (|has_pk| {cur.s} h) (= (|pk| {x.s}) h))) :pattern ((|has_pk| {new.s} h))))")


NEWPK = "has_pk({xs}, {h})"       # some element of the sequence has this primary key (axioms PAX)
PUT_INV = ["forall(j, Int, implies(0 <= j and j < len({xs}), not in_db(pk({xs}[j]))))",
           "forall(i, Int, forall(j, Int, implies(0 <= i and i < j and j < len({xs}), pk({xs}[i]) != pk({xs}[j]))))",
           "forall(i, Int, implies(0 <= i and i < len({xs}), in_objs(records, {xs}[i]) and has_pk(records, pk({xs}[i]))))"]
put_contracts = {
 "RedunBackendDb.put_records": dict(where=f"{DB}:RedunBackendDb.put_records", params={"self": REF, "records": Seq(OBJ)}, returns=INT, ghost={"added": Seq(OBJ)}, modifies=["added"], on_append=put_on_append,
    locals={"new_records": Seq(OBJ), "existing_ids": Set(RID), "record_ids": Seq(RID)},
    lib={"list(": lib_list, "set(": lib_set_ids, "session.add_all(": lib_add_all, "self.with_session()": lambda e, n, st, old: e.opaque("session"),
         "with_defer_constraints(": lambda e, n, st, old: e.opaque("ctx"), "self._postprocess_new_records()": lambda e, n, st, old: T(NONE, "none"),
         "session.commit()": lambda e, n, st, old: T(NONE, "none")},
    loops={0: dict(inv=[c.format(xs="new_records") for c in PUT_INV] + [
               "forall(h, RID, existing_ids[h] == ((in_ids(record_ids, h) and in_db(h)) or " + NEWPK.format(xs="new_records", h="h") + "))",
               "forall(j, Int, implies(0 <= j and j < index() and not in_db(pk(records[j])), " + NEWPK.format(xs="new_records", h="pk(records[j])") + "))"])},
    # what is written: records of the batch, none that exists already, none twice, and every record that was missing; the count returned is their number
    ensures=[c.format(xs="added") for c in PUT_INV] + [
        "forall(j, Int, implies(0 <= j and j < len(records) and not in_db(pk(records[j])), " + NEWPK.format(xs="added", h="pk(records[j])") + "))",
        "result == len(added)",
        # repeating a transfer: when every record of the batch exists already, nothing is written
        "implies(forall(h, RID, implies(has_pk(records, h), in_db(h))), forall(j, Int, not (0 <= j and j < len(added))))"]),
 "*.has_records": dict(where=f"{DB}:RedunBackendDb.has_records", params={"self": REF, "record_ids": Seq(RID)}, returns=Seq(RID),
    ensures=["forall(h, RID, in_ids(result, h) == (in_ids(record_ids, h) and in_db(h)))"]),
}
PAX = WAX + [
 # has_pk(s, h): some element of s has primary key h;  in_objs(s, x): x is an element of s
 "(forall ((s (Seq Obj)) (i Int)) (! (=> (and (<= 0 i) (< i (seq.len s))) (and (|has_pk| s (|pk| (seq.nth s i))) (|in_objs| s (seq.nth s i)))) :pattern ((seq.nth s i))))",
 "(forall ((s (Seq Obj)) (t (Seq Obj)) (h RID)) (! (= (|has_pk| (seq.++ s t) h) (or (|has_pk| s h) (|has_pk| t h))) :pattern ((|has_pk| (seq.++ s t) h))))",
 "(forall ((x Obj) (h RID)) (! (= (|has_pk| (seq.unit x) h) (= (|pk| x) h)) :pattern ((|has_pk| (seq.unit x) h))))",
 "(forall ((h RID)) (! (not (|has_pk| (as seq.empty (Seq Obj)) h)) :pattern ((|has_pk| (as seq.empty (Seq Obj)) h))))",
]
PUT_MODULE = Module(prelude="(declare-sort RID 0)", sortnames={"RID": RID}, axioms=PAX,
                    ufuns={"in_ids": ([Seq(RID), RID], BOOL), "pk": ([OBJ], RID), "in_db": ([RID], BOOL), "has_pk": ([Seq(OBJ), RID], BOOL), "in_objs": ([Seq(OBJ), OBJ], BOOL)}, contracts=put_contracts)


# ------------------------------------------------------------------------------------------------ RedunClient._sync_records (redun push / pull): what is walked and what is written
def lib_exec_rows(e, n, st, old):
    """src_backend.session.query(Execution.id).join(Job, ...).order_by(...).all(): one tuple per execution of the source"""
    if not ast.unparse(n).startswith("src_backend.session.query(Execution.id)"):
        return NotImplemented
    return e.ctx.app("exec_rows", [REF], Seq(Tup(RID)), [st.env["src_backend"]])


def lib_walk(e, n, st, old):
    arg = e.coerce(e.ev(n.args[0], st, old), Seq(RID), "iter_record_ids argument")
    rows = e.ctx.app("exec_rows", [REF], Seq(Tup(RID)), [st.env["src_backend"]])
    given = e.entry.env["root_ids"]
    all_execs = f"(and (= (seq.len {arg.s}) (seq.len {rows.s})) (forall ((j Int)) (=> (and (<= 0 j) (< j (seq.len {rows.s}))) (= (seq.nth {arg.s} j) {tup_get(T(Tup(RID), f'(seq.nth {rows.s} j)'), 0).s}))))"
    has_given = f"(and {is_some(given).s} (> (seq.len {unopt(given).s}) 0))"
    # the walk starts from the ids the caller gave, or -- without ids -- from EVERY execution of the source (also those the destination has already:
    # tags and other records attached to them later must travel too)
    e.oblige(f"{e.cur}/at[iter_record_ids-call].0", "at", st, T(BOOL, f"(ite {has_given} (= {arg.s} {unopt(given).s}) {all_execs})"), n.lineno)
    if e.ev(n.func.value, st, old).s != st.env["src_backend"].s:
        e.oblige(f"{e.cur}/at[iter_record_ids-call].1", "at", st, T(BOOL, "false"), n.lineno)
    return e.ctx.app("walked", [Seq(RID)], OBJ, [arg])


def lib_get_records(e, n, st, old):
    arg = e.to_obj(e.ev(n.args[0], st, old))
    e.oblige(f"{e.cur}/at[get_records-call].0", "at", st, T(BOOL, f"(and (= {e.ev(n.func.value, st, old).s} {st.env['src_backend'].s}) (exists ((s (Seq RID))) (= {arg.s} (|walked| s))))"), n.lineno)
    return e.ctx.app("records_of", [OBJ], OBJ, [arg])


def lib_put(e, n, st, old):
    arg = e.to_obj(e.ev(n.args[0], st, old))
    e.oblige(f"{e.cur}/at[put_records-call].0", "at", st, T(BOOL, f"(and (= {e.ev(n.func.value, st, old).s} {st.env['dest_backend'].s}) (exists ((w Obj)) (= {arg.s} (|records_of| w))))"), n.lineno)
    st.ghost["put_done"] = T(BOOL, "true")
    return e.opaque("num_records", INT)


sync_contracts = {
 "RedunClient._sync_records": dict(where="redun/cli.py:RedunClient._sync_records", params={"self": REF, "src_backend": REF, "dest_backend": REF, "root_ids": Opt(Seq(RID))}, returns=INT,
    defaults={"root_ids": "None"}, ghost={"put_done": BOOL}, requires=["not put_done"], modifies=["put_done"],
    lib={"src_backend.session.query(": lib_exec_rows, "src_backend.iter_record_ids(": lib_walk, "dest_backend.iter_record_ids(": lib_walk, "src_backend.get_records(": lib_get_records,
         "dest_backend.get_records(": lib_get_records, "dest_backend.put_records(": lib_put, "src_backend.put_records(": lib_put},
    # the records of the walk from those roots are read from the source and written to the destination, on every path
    ensures=["put_done"]),
}
SYNC_MODULE = Module(prelude="(declare-sort RID 0)", sortnames={"RID": RID}, ufuns={"exec_rows": ([REF], Seq(Tup(RID))), "walked": ([Seq(RID)], OBJ), "records_of": ([OBJ], OBJ)}, contracts=sync_contracts)


MODULES = [(EDGE_MODULE, list(edge_contracts)), (WALK_MODULE, ["RedunBackendDb.iter_record_ids"]), (PUT_MODULE, ["RedunBackendDb.put_records"]), (SYNC_MODULE, ["RedunClient._sync_records"])]


def bounded_transfers(tier, seed):
    from pvc import bounded
    return [bounded.run(PROPERTY, "generated-transfers", env=({} if tier == "quick" else {"C23_DEEP": "1"}), timeout=3000, rule="repositories built by generated histories (fan-out executions, an execution served from the cache in one step, file results, tags with an update and "
                        "deletions) transferred through iter_record_ids / get_records / JSON lines / put_records into fresh, already populated and incrementally updated destinations: the rows owned by the "
                        "transferred executions (independent ownership walk) are equal in both repositories, child edges in the same order, tags with the same current / superseded status; repeating adds nothing")]


EXTRA_CHECKS = [bounded_transfers]
EXPECTED_MIN_OBLIGATIONS = 90
TRUSTED = ["A-QUERY (filter_in over session.query(columns) returns a tuple for every row of the table whose key column is among the ids; LEFT OUTER JOIN of Argument with ArgumentResult as described above)",
           "Argument.arg_hash is a primary key", "get_child_record_ids is the union of the six edge generators over the ids grouped by model (its dispatch table is not under contract)",
           "_get_record_types / has_records through their stated contracts", "RecordSerializer.get_pk / deserialize as uninterpreted functions of the record", "session.add_all adds the rows of exactly the records passed"]
ASSUMPTIONS = [
    "edge generators: completeness only (every owned record is yielded); that nothing else is yielded is not claimed",
    "the per-model serializers (field-by-field round trip of rows through JSON) are compared by the bounded check only",
    "iter_record_ids: the abstract edge relation of the walk contract is the one the edge generators realise; termination of the walk (finite repository) is not proved",
    "'the destination's cache never serves a result the source's caching rules would refuse': the contracts carry only that the subtree task rows travel with a call node; the cache lookup in the destination (C03's contracts) is not re-proved over transferred rows, one bounded scenario compares source and destination after a code change",
    "has_pk(s, h) / in_objs(s, x) / in_ids(s, h) / in_y(s, m, x) are membership predicates axiomatised over append, concatenation and indexing",
]
