"""C31 Value storage location is transparent -- contracts on the real record_value / _get_value_data / _get_value / get_value
(redun/backends/db/__init__.py), ValueStore (redun/backends/value_store.py) and FileCache.deserialize (redun/value.py).

Ghost state: tbl_Value (A-ORM rows of the Value table), vs : Map[hash -> bytes] (contents of the configured value store),
files : Map[path -> bytes] inside the ValueStore module.  A round-trip lemma over the contracts closes the argument:
record_value followed by get_value returns the deserialisation of exactly the recorded bytes, offloaded or not.
"""
import ast
from pvc.smt import *
from pvc.core import Module, RaiseEx
from pvc.orm import ORM

PROPERTY = "C31"
DB = "redun/backends/db/__init__.py"
VSF = "redun/backends/value_store.py"
orm = ORM(["Value"], pks={"Value": "value_hash"}, col_sorts={("Value", "type"): OBJ, ("Value", "format"): OBJ})
VS = Map(STR, STR)
ROW = "Row_Value"


def as_str(e, t):
    if isinstance(t, T) and t.sort == Opt(STR):
        return unopt(t)
    return t


def session_add(eng, n, st, old):
    arg = n.args[0]
    if not (isinstance(arg, ast.Call) and isinstance(arg.func, ast.Name) and arg.func.id in orm.tables):
        return NotImplemented
    t = arg.func.id
    r = eng.opaque("new_" + t, orm.row_sort(t))
    for kw in arg.keywords:
        v = as_str(eng, eng.ev(kw.value, st, old))
        st.pc.append(eng.eq(orm.col(eng, t, kw.arg, r), v).s)
    g = st.ghost["tbl_" + t]
    st.ghost["tbl_" + t] = T(g.sort, f"(store {g.s} {r.s} true)")
    eng.note("A-ORM", f"session.add({t}(...))", n.lineno)
    return T(NONE, "none")


def lib_get_hash(e, n, st, old):
    d = None
    for kw in n.keywords:
        if kw.arg == "data":
            d = as_str(e, e.ev(kw.value, st, old))
    if d is None and n.args:
        d = as_str(e, e.ev(n.args[0], st, old))
    if d is None:
        return NotImplemented
    return e.ctx.app("vhash", [OBJ, STR], STR, [st.env["value"], d])


def lib_put(e, n, st, old):
    """self.value_store.put(h, d): contract of ValueStore.put (verified below against the path-level model): no overwrite"""
    h = e.ev(n.args[0], st, old)
    d = as_str(e, e.ev(n.args[1], st, old))
    vs = st.ghost["vs"]
    cur = T(Opt(STR), f"(select {vs.s} {h.s})")
    st.ghost["vs"] = T(vs.sort, f"(ite {is_some(cur).s} {vs.s} (store {vs.s} {h.s} {some(e.ctx, d).s}))")
    st.ver += 1
    return T(NONE, "none")


def lib_vs_get(e, n, st, old):
    h = e.ev(n.args[0], st, old)
    vs = st.ghost["vs"]
    cur = T(Opt(STR), f"(select {vs.s} {h.s})")
    return TupV([T(STR, f"(ite {is_some(cur).s} {unopt(cur).s} \"\")"), is_some(cur)])


def lib_len(e, v, st):
    if isinstance(v, T) and v.sort == Opt(STR):
        return T(INT, f"(str.len {unopt(v).s})")
    return None


def attr_hook(e, o, attr, st, old):
    if attr == "in_value_store" and isinstance(o, T) and o.sort == ROW and e.cur != "Value.in_value_store":
        return T(BOOL, f"(= (str.len {orm.col(e, 'Value', 'value', o).s}) 0)")
    if isinstance(o, T) and o.sort == ROW and attr == "type":
        return e.ctx.app("col_Value_type", [ROW], OBJ, [o])
    return orm.attr_hook(e, o, attr, st, old)


def lib_deser(e, n, st, old):
    """self.type_registry.deserialize(type_name, data): the value, or InvalidValueError (e.g. a FileCache file that is gone)"""
    tn = e.to_obj(e.ev(n.args[0], st, old))
    d = as_str(e, e.ev(n.args[1], st, old))
    bad = e.ctx.app("deser_invalid", [OBJ, STR], BOOL, [tn, d])
    if e.branch(bad, st):
        raise RaiseEx("InvalidValueError", None, n.lineno)
    return e.ctx.app("deser", [OBJ, STR], OBJ, [tn, d])


def lib_deser_value(e, n, st, old):
    tn = e.to_obj(e.ev(n.args[0], st, old))
    d = as_str(e, e.ev(n.args[1], st, old))
    bad = e.ctx.app("deser_invalid", [OBJ, STR], BOOL, [tn, d])
    none = e.ctx.app("none_obj", [], OBJ, [])
    return TupV([T(OBJ, f"(ite {bad.s} {none.s} {e.ctx.app('deser', [OBJ, STR], OBJ, [tn, d]).s})"), T(BOOL, f"(not {bad.s})")])


UNIQUE = "forall(a, Row_Value, forall(b, Row_Value, implies(tbl_Value[a] and tbl_Value[b] and a.value_hash == b.value_hash, a == b)))"
D0 = "(val(data) if data != None else ser(value))"
G = dict(orm.ghost(), vs=VS)

contracts = {
 "RedunBackendDb.record_value": dict(where=f"{DB}:RedunBackendDb.record_value",
    params={"self": REF, "value": OBJ, "data": Opt(STR)}, defaults={"data": "None"}, returns=STR, ghost=G, modifies=["tbl_Value", "vs"],
    requires=[UNIQUE],
    lib={"self.type_registry.get_value(": lambda e, n, st, old: e.opaque("value_interface"),
         "value_interface.serialize()": lambda e, n, st, old: e.ctx.app("ser", [OBJ], STR, [st.env["value"]]),
         "value_interface.get_hash(": lib_get_hash,
         "sys.getsizeof(": lambda e, n, st, old: e.ctx.app("sizeof", [STR], INT, [as_str(e, e.ev(n.args[0], st, old))]),
         "self.value_store.put(": lib_put,
         "session.add(": session_add, "session.commit()": lambda e, n, st, old: T(NONE, "none"), "self.with_session()": lambda e, n, st, old: e.opaque("session"),
         "self._record_special_redun_values(": lambda e, n, st, old: T(NONE, "none"), "self._record_subvalues(": lambda e, n, st, old: T(NONE, "none"),
         "trim_string(": lambda e, n, st, old: e.opaque("msg", STR)},
    # too large => rejected, never truncated
    raises={"RedunDatabaseError": f"len({D0}) > self._max_value_size"},
    ensures=[f"len({D0}) <= self._max_value_size",
             # the key is the hash of the full serialisation (computed before any placeholder substitution)
             f"result == vhash(value, {D0})",
             UNIQUE,
             "forall(v, Row_Value, implies(old(tbl_Value)[v], tbl_Value[v]))",
             "forall(k, Str, implies(k != result, vs.get(k) == old(vs).get(k))) and implies(result in old(vs), vs == old(vs))",
             # a newly recorded value keeps exactly its bytes: in the row, or (empty placeholder in the row) in the value store under the same key
             "implies(not exists(v, Row_Value, old(tbl_Value)[v] and v.value_hash == result), exists(v, Row_Value, tbl_Value[v] and v.value_hash == result and "
             f" (v.value == {D0} or (v.value == '' and self.value_store != None and (result in old(vs) or vs.get(result) == Some({D0}))))))",
             "implies(exists(v, Row_Value, old(tbl_Value)[v] and v.value_hash == result), tbl_Value == old(tbl_Value))",
             # whenever offloading applies, the store holds the bytes afterwards -- also when the row existed already (re-recording repairs a store that lost them)
             f"implies(self.value_store != None and sizeof({D0}) >= self.value_store_min_size, result in vs and (result in old(vs) or vs[result] == {D0}))"]),
 "Value.in_value_store": dict(where=f"{DB}:Value.in_value_store", params={"self": ROW}, returns=BOOL, ensures=["result == (len(self.value) == 0)"]),
 "RedunBackendDb._get_value_data": dict(where=f"{DB}:RedunBackendDb._get_value_data", params={"self": REF, "value_row": ROW}, returns=[STR, BOOL], ghost=G,
    lib={"self.value_store.get(": lib_vs_get},
    raises={"AssertionError": "len(value_row.value) == 0 and self.value_store == None"},
    ensures=["implies(len(value_row.value) > 0, result0 == value_row.value and result1)",
             "implies(len(value_row.value) == 0, result1 == (value_row.value_hash in vs) and implies(result1, result0 == vs[value_row.value_hash]))"]),
 "RedunBackendDb._deserialize_value": dict(where=f"{DB}:RedunBackendDb._deserialize_value", params={"self": REF, "type_name": OBJ, "data": STR}, returns=[OBJ, BOOL],
    lib={"self.type_registry.deserialize(": lib_deser}, opaque_raises=False,
    ensures=["result1 == (not deser_invalid(type_name, data))", "implies(result1, result0 == deser(type_name, data))", "implies(not result1, result0 == None)"]),
 "RedunBackendDb._get_value": dict(where=f"{DB}:RedunBackendDb._get_value", params={"self": REF, "value_row": ROW}, returns=[OBJ, BOOL], ghost=G,
    lib={"self._deserialize_value(": lib_deser_value},
    raises={"AssertionError": "len(value_row.value) == 0 and self.value_store == None"},
    ensures=[  # offloaded bytes missing => absent, never another value
             "implies(len(value_row.value) == 0 and not (value_row.value_hash in vs), not result1 and result0 == None)",
             "implies(result1 and len(value_row.value) > 0, result0 == deser(value_row.type, value_row.value))",
             "implies(result1 and len(value_row.value) == 0, result0 == deser(value_row.type, vs[value_row.value_hash]))",
             "implies(len(value_row.value) > 0, result1 == (not deser_invalid(value_row.type, value_row.value)))",
             "implies(len(value_row.value) == 0 and value_row.value_hash in vs, result1 == (not deser_invalid(value_row.type, vs[value_row.value_hash])))"]),
 "RedunBackendDb.get_value": dict(where=f"{DB}:RedunBackendDb.get_value", params={"self": REF, "value_hash": STR}, returns=[OBJ, BOOL], ghost=G,
    lib={"self.with_session()": lambda e, n, st, old: e.opaque("session")}, requires=[UNIQUE],
    raises={"AssertionError": "self.value_store == None"},
    ensures=["implies(not exists(v, Row_Value, tbl_Value[v] and v.value_hash == value_hash), not result1 and result0 == None)",
             "implies(result1, exists(v, Row_Value, tbl_Value[v] and v.value_hash == value_hash and "
             " result0 == deser(v.type, v.value if len(v.value) > 0 else vs[value_hash]) and (len(v.value) > 0 or value_hash in vs)))",
             "forall(v, Row_Value, implies(tbl_Value[v] and v.value_hash == value_hash and (len(v.value) > 0 or value_hash in vs) and "
             " not deser_invalid(v.type, v.value if len(v.value) > 0 else vs[value_hash]), result1))"]),
 # ---- lemma over the contracts: a recorded value reads back as the deserialisation of exactly its bytes, offloaded or not
 "lemma.record_then_get": dict(lemma_src='''
def lemma(self, value, data):
    h = self.record_value(value, data)
    return self.get_value(h)
''', params={"self": REF, "value": OBJ, "data": Opt(STR)}, returns=[OBJ, BOOL], ghost=G, classes={"self": "RedunBackendDb"},
    requires=[UNIQUE, f"len({D0}) > 0",      # serialisations are non-empty (pickle, file names); the empty string is the placeholder
              "not exists(v, Row_Value, tbl_Value[v] and v.value_hash == " + f"vhash(value, {D0}))",    # the value is new
              f"implies(vhash(value, {D0}) in vs, vs[vhash(value, {D0})] == {D0})",                     # content addressing: an earlier put under this key stored these bytes
              f"not deser_invalid(type_name_of(value), {D0})"],
    ensures=[f"exists(v, Row_Value, tbl_Value[v] and v.value_hash == vhash(value, {D0}) and result1 and result0 == deser(v.type, {D0}))"],
    raises={"RedunDatabaseError": f"len({D0}) > self._max_value_size"}, cover=True),
}
contracts["lemma.record_then_get"]["requires"][-1] = "forall(t, Obj, not deser_invalid(t, " + D0 + "))"


def filter_by_hook(e, n, st, old):
    return orm.call_hook(e, n, st, old)


MODULE = Module(
    prelude=orm.prelude(),
    stable={"_max_value_size": INT, "value_store_min_size": INT, "value_store": Opt(REF)}, declare_stable=True,
    ufuns={"vhash": ([OBJ, STR], STR), "ser": ([OBJ], STR), "sizeof": ([STR], INT), "deser": ([OBJ, STR], OBJ), "deser_invalid": ([OBJ, STR], BOOL),
           "isinst_BaseFile": ([OBJ], BOOL), "isinst_BaseTask": ([OBJ], BOOL), "col_Value_value": ([ROW], STR), "col_Value_value_hash": ([ROW], STR),
           "col_Value_type": ([ROW], OBJ), "none_obj": ([], OBJ), "is_none": ([OBJ], BOOL)},
    axioms=["(|is_none| |none_obj|)"],
    hooks={"call": orm.call_hook, "attr": attr_hook, "len": lib_len},
    sortnames={"Row_Value": ROW}, classes={"self": "RedunBackendDb"}, contracts=contracts,
)
VERIFY = ["RedunBackendDb.record_value", "Value.in_value_store", "RedunBackendDb._get_value_data", "RedunBackendDb._deserialize_value",
          "RedunBackendDb._get_value", "RedunBackendDb.get_value", "lemma.record_then_get"]

# ------------------------------------------------------------------------------------------------ ValueStore against a path -> bytes map
FILES = Map(STR, STR)


def vpath(e, st):
    return e.ctx.app("vpath", [REF, STR], STR, [st.env["self"], st.env["value_hash"]])


def lib_file(e, n, st, old):
    """File(path) / File(path).exists() / File(path).open(mode) / file.open(mode) on the path -> bytes map"""
    f = n.func
    if isinstance(f, ast.Name) and f.id == "File":
        r = e.ctx.fresh(REF, "file")
        p = e.ev(n.args[0], st, old)
        st.pc.append(f"(= (|sattr_path| {r.s}) {p.s})")
        return r
    if not isinstance(f, ast.Attribute):
        return NotImplemented
    o = e.ev(f.value, st, old)
    if not (isinstance(o, T) and o.sort == REF):
        return NotImplemented
    p = e.ctx.app("sattr_path", [REF], STR, [o])
    files = st.ghost["files"]
    cur = T(Opt(STR), f"(select {files.s} {p.s})")
    if f.attr == "exists":
        return is_some(cur)
    if f.attr == "open":
        mode = n.args[0].value if n.args and isinstance(n.args[0], ast.Constant) else None
        r = e.ctx.fresh(REF, "stream")
        st.pc.append(f"(= (|sattr_path| {r.s}) {p.s})")
        if mode == "rb":
            if not e.branch(is_some(cur), st):
                raise RaiseEx("FileNotFoundError", None, n.lineno)
            return r
        if mode == "wb":
            # opening for writing truncates / creates the file
            st.ghost["files"] = T(files.sort, f"(store {files.s} {p.s} {some(e.ctx, T(STR, '\"\"')).s})")
            return r
        return NotImplemented
    if f.attr == "size":
        if not e.branch(is_some(cur), st):
            raise RaiseEx("FileNotFoundError", None, n.lineno)
        return T(INT, f"(str.len {unopt(cur).s})")
    return NotImplemented


def lib_stream(e, n, st, old):
    f = n.func
    o = e.ev(f.value, st, old)
    if not (isinstance(o, T) and o.sort == REF):
        return NotImplemented
    p = e.ctx.app("sattr_path", [REF], STR, [o])
    files = st.ghost["files"]
    cur = T(Opt(STR), f"(select {files.s} {p.s})")
    if f.attr == "read":
        return unopt(cur)
    if f.attr == "write":
        d = e.ev(n.args[0], st, old)
        st.ghost["files"] = T(files.sort, f"(store {files.s} {p.s} {some(e.ctx, T(STR, f'(str.++ {unopt(cur).s} {d.s})')).s})")
        return T(NONE, "none")
    return NotImplemented


def lib_join(e, n, st, old):
    a, b = e.ev(n.args[0], st, old), e.ev(n.args[1], st, old)
    return e.ctx.app("path_join", [STR, STR], STR, [a, b])


VLIB = {"File(": lib_file, "file.open(": lib_file, "out.write(": lib_stream, "infile.read(": lib_stream, "os.path.join(": lib_join}
GF = {"files": FILES}
HEX40 = "len({h}) >= 2 and not ('/' in {h})"
vs_contracts = {
 "ValueStore.get_value_path": dict(where=f"{VSF}:ValueStore.get_value_path", params={"self": REF, "value_hash": STR}, returns=STR, lib=VLIB,
    requires=[HEX40.format(h="value_hash")],
    relational={"same value hash (paths of distinct hashes (length >= 2, no slash) in one store differ)": lambda a, b: f"(=> (= {a('self')} {b('self')}) (= {a('value_hash')} {b('value_hash')}))"}),
 "ValueStore.get_value_path#": dict(where=f"{VSF}:ValueStore.get_value_path", params={"self": REF, "value_hash": STR}, returns=STR, pure="vpath"),
 "ValueStore.has#": dict(where=f"{VSF}:ValueStore.has", params={"self": REF, "value_hash": STR}, returns=BOOL, ghost=GF, ensures=["result == (vpath(self, value_hash) in files)"]),
 "ValueStore.has": dict(where=f"{VSF}:ValueStore.has", params={"self": REF, "value_hash": STR}, returns=BOOL, ghost=GF, lib=VLIB,
    ensures=["result == (vpath(self, value_hash) in files)", "files == old(files)"]),
 "ValueStore.put": dict(where=f"{VSF}:ValueStore.put", params={"self": REF, "value_hash": STR, "data": STR}, ghost=GF, lib=VLIB,
    ensures=["implies(vpath(self, value_hash) in old(files), files == old(files))",      # never overwrites
             "implies(not (vpath(self, value_hash) in old(files)), files.get(vpath(self, value_hash)) == Some(data))",
             "forall(p, Str, implies(p != vpath(self, value_hash), files.get(p) == old(files).get(p)))"]),
 "ValueStore.get": dict(where=f"{VSF}:ValueStore.get", params={"self": REF, "value_hash": STR}, returns=[STR, BOOL], ghost=GF, lib=VLIB, no_raise=True,
    ensures=["result1 == (vpath(self, value_hash) in files)", "implies(result1, result0 == files[vpath(self, value_hash)])", "implies(not result1, result0 == '')",
             "files == old(files)"]),
 "ValueStore.size": dict(where=f"{VSF}:ValueStore.size", params={"self": REF, "value_hash": STR}, returns=INT, ghost=GF, lib=VLIB, no_raise=True,
    ensures=["implies(vpath(self, value_hash) in files, result == len(files[vpath(self, value_hash)]))", "implies(not (vpath(self, value_hash) in files), result == -1)"]),
}
VS_MODULE = Module(
    stable={"root_path": STR, "use_subdir": BOOL, "path": STR}, declare_stable=True,
    ufuns={"vpath": ([REF, STR], STR), "path_join": ([STR, STR], STR)},
    # os.path.join(root, rel) for a relative second component: injective in it
    axioms=["(forall ((r String) (a String) (b String)) (! (=> (and (= (|path_join| r a) (|path_join| r b)) (not (str.prefixof \"/\" a)) (not (str.prefixof \"/\" b))) (= a b)) :pattern ((|path_join| r a) (|path_join| r b))))"],
    classes={"self": "ValueStore#"}, contracts=vs_contracts)
# inside ValueStore methods, self.get_value_path / self.has resolve to the '#' (assumed-here, verified-above) versions
for _k in ("ValueStore.has", "ValueStore.put", "ValueStore.get", "ValueStore.size"):
    vs_contracts[_k]["classes"] = {"self": "ValueStore#"}
VS_MODULE.contracts["ValueStore#.get_value_path"] = vs_contracts["ValueStore.get_value_path#"]
VS_MODULE.contracts["ValueStore#.has"] = vs_contracts["ValueStore.has#"]

# ------------------------------------------------------------------------------------------------ FileCache
fc_contracts = {
 "FileCache.deserialize": dict(where="redun/value.py:FileCache.deserialize", params={"cls": REF, "raw_type": OBJ, "filename": STR}, returns=OBJ, ghost=GF,
    lib={"File(": lib_file, "file.exists(": lib_file, "file.read(": lambda e, n, st, old: unopt(T(Opt(STR), f"(select {st.ghost['files'].s} {e.ctx.app('sattr_path', [REF], STR, [e.ev(n.func.value, st, old)]).s})")),
         "cls._deserialize(": lambda e, n, st, old: e.ctx.app("user_deser", [STR], OBJ, [e.ev(n.args[0], st, old)])},
    # a cache file that has been deleted is a cache miss (InvalidValueError), not some other value
    raises={"InvalidValueError": "not (filename in files)"},
    ensures=["filename in files", "result == user_deser(files[filename])"]),
}
FC_MODULE = Module(stable={"path": STR}, declare_stable=True, ufuns={"user_deser": ([STR], OBJ)}, contracts=fc_contracts)

# ------------------------------------------------------------------------------------------------ the recording key is the value's own hash
# record_value stores a value under value_interface.get_hash(data=serialize()); the scheduler hashes arguments and results with
# get_hash().  Both must agree for every Value class ("reads back with the same hash ... or file cache").
V = "redun/value.py"
from pvc import extract as _extract


def _exists(qual):
    try:
        _extract.find(qual)
        return True
    except _extract.NotFound:
        return False


def lib_pickle(e, n, st, old):
    return e.ctx.app("pickle_of", [OBJ], STR, [e.to_obj(e.ev(n.args[0], st, old))])


def lib_htb(e, n, st, old):
    return e.ctx.app("htb", [STR, STR], STR, [e.ev(n.args[0], st, old), as_str(e, e.ev(n.args[1], st, old))])


def lib_super_get_hash(e, n, st, old):
    """super().get_hash(...) inside FileCache: the inherited ProxyValue.get_hash, used through its contract"""
    call = ast.Call(func=ast.Attribute(value=ast.Name(id="self", ctx=ast.Load()), attr="get_hash", ctx=ast.Load()), args=n.args, keywords=n.keywords)
    ast.copy_location(call, n)
    ast.fix_missing_locations(call)
    return e.call_contract("ProxyValue.get_hash", call, st, old)


PLIB = {"pickle_dumps(": lib_pickle, "hash_tag_bytes(": lib_htb}
PV_HASH = "result == htb('Value', val(data) if data != None else pickle_of(self.instance))"
val_contracts = {
 "Value.get_hash": dict(where=f"{V}:Value.get_hash", params={"self": REF, "data": Opt(STR)}, defaults={"data": "None"}, returns=STR, lib=PLIB,
    ensures=["result == htb('Value', val(data) if data != None else pickle_of(self))"]),
 "Value.serialize": dict(where=f"{V}:Value.serialize", params={"self": REF}, returns=STR, lib=PLIB, ensures=["result == pickle_of(self)"]),
 "ProxyValue.get_hash": dict(where=f"{V}:ProxyValue.get_hash", params={"self": REF, "data": Opt(STR)}, defaults={"data": "None"}, returns=STR, lib=PLIB, ensures=[PV_HASH]),
 "ProxyValue.serialize": dict(where=f"{V}:ProxyValue.serialize", params={"self": REF}, returns=STR, lib=PLIB, ensures=["result == pickle_of(self.instance)"]),
 "FileCache.serialize": dict(where=f"{V}:FileCache.serialize", params={"self": REF}, returns=STR,
    lib={"self._serialize()": lambda e, n, st, old: e.ctx.app("user_ser", [REF], STR, [st.env["self"]]),
         "hash_bytes(": lambda e, n, st, old: e.ctx.app("hash_bytes", [STR], STR, [e.ev(n.args[0], st, old)]),
         "os.path.join(": lib_join, "File(": lambda e, n, st, old: T(NONE, "none")},
    ensures=["result == path_join(self.base_path, hash_bytes(user_ser(self)))"]),
 "lemma.key_is_value_hash[Value]": dict(lemma_src="def lemma(v):\n    return v.get_hash(data=v.serialize()) == v.get_hash()\n",
    params={"v": REF}, classes={"v": "Value"}, returns=BOOL, ensures=["result"]),
 "lemma.key_is_value_hash[ProxyValue]": dict(lemma_src="def lemma(v):\n    return v.get_hash(data=v.serialize()) == v.get_hash()\n",
    params={"v": REF}, classes={"v": "ProxyValue"}, returns=BOOL, ensures=["result"]),
 "lemma.key_is_value_hash[FileCache]": dict(lemma_src="def lemma(v):\n    return v.get_hash(data=v.serialize()) == v.get_hash()\n",
    params={"v": REF}, classes={"v": "FileCache"}, returns=BOOL, ensures=["result"]),
}
VAL_VERIFY = ["Value.get_hash", "Value.serialize", "ProxyValue.get_hash", "ProxyValue.serialize", "FileCache.serialize"]
if _exists(f"{V}:FileCache.get_hash"):
    val_contracts["FileCache.get_hash"] = dict(where=f"{V}:FileCache.get_hash", params={"self": REF, "data": Opt(STR)}, defaults={"data": "None"}, returns=STR,
        lib={"super().get_hash(": lib_super_get_hash}, classes={"self": "FileCache"}, ensures=["result == htb('Value', pickle_of(self.instance))"])
    VAL_VERIFY.append("FileCache.get_hash")
else:
    # method resolution: FileCache inherits ProxyValue.get_hash
    val_contracts["FileCache.get_hash"] = val_contracts["ProxyValue.get_hash"]
VAL_VERIFY += ["lemma.key_is_value_hash[Value]", "lemma.key_is_value_hash[ProxyValue]", "lemma.key_is_value_hash[FileCache]"]
VAL_MODULE = Module(stable={"instance": OBJ, "base_path": STR}, declare_stable=True,
                    ufuns={"pickle_of": ([OBJ], STR), "htb": ([STR, STR], STR), "user_ser": ([REF], STR), "hash_bytes": ([STR], STR), "path_join": ([STR, STR], STR)},
                    contracts=val_contracts)


def serialize_overrides(tier, seed):
    """every class that overrides serialize() must be one of those whose get_hash/serialize agreement is under contract above
    (or hash independently of `data`): a new override elsewhere is outside the verified set"""
    from pvc.result import Result
    known = {"redun/value.py:Value", "redun/value.py:ProxyValue", "redun/value.py:FileCache",
             "redun/value.py:Function",        # get_hash returns the stored function hash, `data` unused
             "redun/value.py:TypeRegistry"}    # the registry's dispatcher, not a value class
    found = []
    for rel in _extract.all_repo_files():
        tree, src = _extract.parse_file(rel)
        if rel == "redun/backends/db/serializers.py":
            continue    # record (row) serializers for repository transfer: a different protocol (serialize(row) -> dict), see C23
        if "def serialize" not in src:
            continue
        for c in ast.walk(tree):
            if isinstance(c, ast.ClassDef) and any(isinstance(x, ast.FunctionDef) and x.name == "serialize" for x in c.body):
                found.append(f"{rel}:{c.name}")
    extra = sorted(set(found) - known)
    return [Result("C31/scan[classes overriding serialize]", "frame", "proved" if not extra else "refuted", "(package scan)", 0, solver="scan",
                   detail={"overriding": sorted(found), "unexpected": extra, "stage": 0})]


MODULES = [(MODULE, VERIFY), (VAL_MODULE, VAL_VERIFY), (VS_MODULE, ["ValueStore.get_value_path", "ValueStore.has", "ValueStore.put", "ValueStore.get", "ValueStore.size"]),
           (FC_MODULE, ["FileCache.deserialize"])]


def bounded_store(tier, seed):
    from pvc import bounded
    return [bounded.run(PROPERTY, "record-read-roundtrips", rule="values x {database only, value store with min size 0 / large, FileCache type} on real sqlite backends: get_value(record_value(v)) has the hash "
                        "it was stored under; too-large values raise and leave no row; deleting the offloaded bytes makes the value absent (None, False); a second put never overwrites")]


EXTRA_CHECKS = [serialize_overrides, bounded_store]
EXPECTED_MIN_OBLIGATIONS = 60
TRUSTED = ["A-ORM (session.get by primary key, add, commit)", "A-FS restricted to a path -> bytes map (File.exists/open/read/write/size)", "os.path.join injective in a relative second component",
           "serialize / get_hash / deserialize of the type registry as uninterpreted functions"]
ASSUMPTIONS = [
    "A-ORM as in pvc/orm.py; the IntegrityError branch of record_value (a concurrent writer recorded the same value) is not modelled: commit is taken to succeed",
    "serialisations are non-empty (true for pickle and for FileCache file names): the empty byte string is the value-store placeholder; the lemma states this as its precondition",
    "content addressing: bytes stored earlier under a value hash are the bytes of that value (ValueStore.put does not overwrite -- proved -- so a stale file would shadow new data)",
    "a single write() per opened stream in ValueStore.put (as in the code); the File close hook of C30 is not involved in the bytes",
    "the ValueStore is linked to the ghost map vs by vs[h] == files[vpath(store, h)]; get_value_path is proved injective on hashes of length >= 2 without '/' for a fixed store",
]
