"""C24 Tag history behaves like a key-value multiset -- bounded stand-in only (level: exploration).

record_tags / delete_tags / update_tags / get_tags are SQLAlchemy query pipelines (IN-filters over several tables, a recursive walk down the
tag-edit graph, Query.update) that A-ORM's conjunctive fragment does not model; no contract is discharged for this property.  The check runs
the real functions, driven exactly as the `redun tag add / update / rm` commands drive them, over enumerated operation histories against a
reference model and checks the tag-edit graph for cycles after every step."""
from pvc.core import Module

PROPERTY = "C24"
LEVEL = "exploration"
MODULES = []


def bounded_histories(tier, seed):
    from pvc import bounded
    env = {"C24_LEN": "3", "C24_RANDOM": "300"} if tier == "quick" else {"C24_LEN": "4", "C24_RANDOM": "3000"}
    return [bounded.run(PROPERTY, "tag-operation-histories", env=env, timeout=3000,
                        rule="every history of <= 3 (quick) / 4 (thorough) tag commands (add a pair, update a key to a pair, remove a pair, remove a key) over 2 keys x 2 JSON values on one entity, commands with several arguments (two pairs at once; a pair and a key) after every pair of adds, plus seeded random histories of "
                             "5..7 commands over two entities, executed on a real in-memory backend the way the CLI commands call it; after every command the current tags of each entity must equal those of a "
                             "reference key-value model and the tag-edit graph must be acyclic; a history counts as non-trivial when it contains a removal or update of an existing pair")]


def bounded_null_values(tier, seed):
    from pvc import bounded
    return [bounded.run(PROPERTY, "null-valued-pairs", env={"C24_MODE": "null-ok", "C24_LEN": "3", "C24_RANDOM": "100"}, timeout=3000,
                        rule="the same histories with JSON null among the values (add / update / remove a key / remove a non-null pair); the removal of a null-valued pair is the separate obligation below"),
            bounded.run(PROPERTY, "rm-of-a-null-valued-pair", env={"C24_MODE": "null-rm"}, timeout=600,
                        rule="histories that end with `tag rm ENTITY key=null` on an entity where the pair (key, null) is current: the pair must not be current afterwards")]


EXTRA_CHECKS = [bounded_histories, bounded_null_values]
EXPECTED_MIN_OBLIGATIONS = 0
TRUSTED = ["the reference model written for this check (add inserts pairs, update replaces all values of the given keys, remove deletes pairs or whole keys)"]
ASSUMPTIONS = ["bounded: nothing is proved; histories longer than the bound, other value types, concurrent writers and other entity types are not explored",
               "the commands are reproduced from redun/cli.py: add -> record_tags(new=True), update -> record_tags(update=True), rm -> delete_tags(pairs, keys)"]
