"""C27 Task options follow the documented precedence -- contracts on the real Job/Task option functions."""
from pvc.smt import *
from pvc.core import Module

PROPERTY = "C27"
S = "redun/scheduler.py"
TK = "redun/task.py"
MAP = Map(STR, OBJ)


def right_biased(result, layers):
    """forall k: result.get(k) is taken from the right-most layer that defines k"""
    e = f"{layers[0]}.get(k)"
    for l in layers[1:]:
        e = f"({l}.get(k) if k in {l} else {e})"
    return f"forall(k, Str, {result}.get(k) == {e})"


RAW = right_biased("result", ["topts", "pexp", "self.expr._options", "self.options"])

contracts = {
 "Task.get_task_options": dict(where=f"{TK}:Task.get_task_options", params={"self": REF}, returns=MAP,
    ensures=[right_biased("result", ["self._task_options_base", "self._task_options_override"])]),
 "Task.options": dict(where=f"{TK}:Task.options", params={"self": REF, "task_options_update": MAP},
    at_call={"__class__": [right_biased("kw_task_options_override", ["self._task_options_override", "task_options_update"]),
                           "kw_task_options_base == self._task_options_base"]}),
 "Task.export_options": dict(where=f"{TK}:Task.export_options", params={"self": REF, "task_options_update": MAP},
    locals={"export_options": Set(STR)},
    at_call={"__class__": [right_biased("kw_task_options_override", ["self._task_options_override", "task_options_update"]),
                           "forall(k, Str, implies(self._export_options[k] or k in task_options_update, kw_export_options[k]))",
                           "forall(k, Str, implies(kw_export_options[k], self._export_options[k] or k in task_options_update or k == 'cache_scope'))"]},
    lib={"set(task_options_update.keys())": lambda e, n, st, old: keyset(e, st.env["task_options_update"], st)}),
 "Job.get_export_options": dict(where=f"{S}:Job.get_export_options", params={"self": REF}, returns=MAP,
    ensures=["self.eval_options != None", "forall(k, Str, result.get(k) == (val(self.eval_options).get(k) if self.export_options[k] else None))",
             "implies(old(self.eval_options) != None, self.eval_options == old(self.eval_options))"],
    modifies=["eval_options"]),
 "Job.get_raw_options": dict(where=f"{S}:Job.get_raw_options", params={"self": REF}, returns=MAP,
    ghost_local={"pexp": MAP, "topts": MAP}, locals={"parent_job_options": MAP},
    ghost_init=["forall(k, Str, k not in pexp)"],
    after_call={("Job.get_export_options", 0): "pexp = result", ("Task.get_task_options", 0): "topts = result"},
    ensures=[RAW,
             # definition layer: the task's own options, call-time overrides of the task object over definition-time ones
             right_biased("topts", ["self.task._task_options_base", "self.task._task_options_override"]),
             # the parent layer is exactly what the parent exports
             "forall(k, Str, pexp.get(k) == ((val(val(self.parent_job).eval_options).get(k) if val(self.parent_job).export_options[k] else None) if self.parent_job != None else None))"],
    modifies=["eval_options"]),
 "Job.get_options": dict(where=f"{S}:Job.get_options", params={"self": REF}, returns=MAP,
    lib={"iter_nested_value(": lambda e, n, st, old: e.opaque("leaves")},
    ensures=["self.eval_options == Some(result)",
             "implies(old(self.eval_options) != None, result == val(old(self.eval_options)))"],
    modifies=["eval_options"]),
 "Job.get_option": dict(where=f"{S}:Job.get_option", params={"self": REF, "key": STR, "default": OBJ, "as_type": OBJ}, returns=OBJ,
    ensures=["implies(old(self.eval_options) != None and not truthy(as_type), result == (val(old(self.eval_options))[key] if key in val(old(self.eval_options)) else default))"],
    modifies=["eval_options"]),
 "Job.recording_provenance": dict(where=f"{S}:Job.recording_provenance", params={"self": REF}, returns=OBJ,
    ensures=["implies(old(self.eval_options) != None, result == (val(old(self.eval_options))['prov'] if 'prov' in val(old(self.eval_options)) else True))"],
    modifies=["eval_options"]),
 "Job.__init__": dict(where=f"{S}:Job.__init__",
    params={"self": REF, "task": REF, "expr": REF, "id": OBJ, "parent_job": Opt(REF), "execution": OBJ, "options": Opt(MAP)},
    ensures=["forall(k, Str, self.export_options[k] == (task._export_options[k] or expr._export_options[k] or (parent_job != None and val(parent_job).export_options[k])))",
             "forall(k, Str, self.options.get(k) == (val(options).get(k) if options != None else None))",
             "self.eval_options == None"]),
 "options_then": dict(where=f"{S}:Scheduler._evaluate_apply.options_then",
    params={"job_options": MAP, "job": REF, "self": REF, "parent_job": OBJ, "expr": OBJ},
    classes={"job": "Job", "self": "Scheduler"},
    lib={"job.recording_provenance()": lambda e, n, st, old: prov_of(e, st)},
    before_call={("Scheduler.evaluate", 0): [
        "job.eval_options != None",
        "forall(k, Str, implies(k != 'cache_scope', val(job.eval_options).get(k) == job_options.get(k)))",
        "implies(not truthy(job_options['prov'] if 'prov' in job_options else True), val(job.eval_options).get('cache_scope') == Some(CacheScope.NONE))",
        "implies(truthy(job_options['prov'] if 'prov' in job_options else True), val(job.eval_options).get('cache_scope') == job_options.get('cache_scope'))"]}),
 "Scheduler.evaluate": dict(where=f"{S}:Scheduler.evaluate", params={"self": REF, "expr": OBJ, "parent_job": OBJ}, returns=OBJ, pure="eval_promise"),
 "Scheduler._evaluate_apply": dict(where=f"{S}:Scheduler._evaluate_apply", params={"self": REF, "expr": OBJ, "parent_job": Opt(REF)},
    classes={"job": "Job", "self": "Scheduler", "parent_job": "Job"}, locals={"job_options": MAP},
    ghost_local={"raw": MAP}, after_call={("Job.get_raw_options", 0): "raw = result"},
    lib={"Job(": lambda e, n, st, old: new_job(e, n, st, old)},
    at_call={"then#1": ["recv == eval_promise(self, raw, parent_job)"]}, must_call=["get_raw_options", "evaluate"]),
}


def new_job(eng, n, st, old):
    """Job(task, expr, parent_job=..., execution=..., options=job_options): site conditions on the scheduler-imposed options"""
    kw = {k.arg: eng.ev(k.value, st, old) for k in n.keywords if k.arg}
    opts = eng.coerce(kw["options"], MAP)
    cse = eng.enum_const("CacheScope", "CSE")
    use_cache = eng.truth(eng.ev(__import__("ast").parse("self._use_cache", mode="eval").body, st, old))
    g1 = T(BOOL, f"(=> (not {use_cache.s}) (= (select {opts.s} \"cache_scope\") (Some_Obj {cse.s})))")
    eng.oblige(f"{eng.cur}/at[Job#0].cache-downgraded-when-cache-is-off", "at", st, g1, n.lineno)
    j = eng.opaque("job", REF, "Job")
    st.pc.append(f"(= (select {eng.field(st, 'options').s} {j.s}) {opts.s})")
    return j


def keyset(eng, m, st):
    r = eng.opaque("keys", Set(STR))
    st.pc.append(f"(forall ((|q_ks| String)) (= (select {r.s} |q_ks|) {is_some(T(Opt(OBJ), f'(select {m.s} |q_ks|)')).s}))")
    return r


def prov_of(eng, st):
    """job.recording_provenance() == get_options().get('prov', True) with eval_options already set (callee contract)"""
    job = st.env["job"]
    eo = T(Opt(MAP), f"(select {eng.field(st, 'eval_options').s} {job.s})")
    m = unopt(eo)
    e = T(Opt(OBJ), f"(select {m.s} \"prov\")")
    t = eng.to_obj(T(BOOL, "true"))
    return T(OBJ, f"(ite {is_some(e).s} {unopt(e).s} {t.s})")


MODULE = Module(
    fields={"options": MAP, "eval_options": Opt(MAP), "export_options": Set(STR), "parent_job": Opt(REF)},
    stable={"_use_cache": OBJ, "task": REF, "expr": REF, "_options": MAP, "_export_options": Set(STR), "_task_options_base": MAP, "_task_options_override": MAP},
    ufuns={"truthy": ([OBJ], BOOL), "box_Bool": ([BOOL], OBJ), "eval_promise": ([REF, OBJ, OBJ], OBJ)},
    axioms=["(forall ((b Bool)) (! (= (|truthy| (|box_Bool| b)) b) :pattern ((|box_Bool| b))))"],
    enums={"CacheScope": ["NONE", "CSE", "BACKEND"]},
    classes={"self": "Job", "self.parent_job": "Job", "self.task": "Task"},
    contracts=contracts,
)
VERIFY = ["Task.get_task_options", "Task.options", "Task.export_options", "Job.get_export_options", "Job.get_raw_options", "Job.get_options", "Job.get_option",
          "Job.recording_provenance", "Job.__init__", "options_then", "Scheduler._evaluate_apply"]
EXPECTED_MIN_OBLIGATIONS = 25
TRUSTED = ["A-DICT (right bias of {**a, **b})", "effective(job): the evaluated options of a job (eval_options once set)"]
ASSUMPTIONS = [
    "A-DICT: {**a, **b} takes each key from the right-most mapping that has it; set union; dict comprehension with filter",
    "Job.get_export_options is used through its contract with effective(job) = the job's evaluated options; its own body is verified under C27 only for the filter shape (see level_note)",
    "evaluate(...) of the raw options returns the same keys with expression values replaced by their results (C19/C01 territory, not proved here)",
]


def bounded_trees(tier, seed):
    from pvc import bounded
    return [bounded.run("C27", "job-trees", rule="job trees with options at definition / export / call level, expression-valued and nested options, exports in sibling branches, on the real scheduler")]


EXTRA_CHECKS = [bounded_trees]
