"""C33 Status filters agree with displayed statuses -- the real _job_status_term (SQL three-valued logic,
A-ORM fragment) against the real Job.calc_status / Execution status mapping, over the complete finite row domain."""
import ast
from pvc.smt import *
from pvc.core import Module
from pvc import extract

PROPERTY = "C33"
Q = "redun/backends/db/query.py"
D = "redun/backends/db/__init__.py"


def repo_const(rel, name):
    tree, _ = extract.parse_file(rel)
    for n in tree.body:
        if isinstance(n, ast.Assign) and any(isinstance(t, ast.Name) and t.id == name for t in n.targets) and isinstance(n.value, ast.Constant):
            return n.value.value
    raise extract.NotFound(f"{rel}: constant {name}")


ERR = repo_const(Q, "REDUN_ERROR_TYPE_NAME")   # read from the repo on every run

PRELUDE = "(declare-datatypes ((TV 0)) (((TT) (FF) (UU))))\n(declare-sort DT 0)"
DEFS = f"""
(define-fun tv_and ((a TV) (b TV)) TV (ite (or (= a FF) (= b FF)) FF (ite (and (= a TT) (= b TT)) TT UU)))
(define-fun tv_or ((a TV) (b TV)) TV (ite (or (= a TT) (= b TT)) TT (ite (and (= a FF) (= b FF)) FF UU)))
(define-fun display3 ((e Opt_DT) (c Opt_Bool) (v Opt_String)) String
  (ite (= v (Some_String "redun.ErrorValue")) "FAILED"
  (ite (not ((_ is Some_DT) e)) "RUNNING"
  (ite (= c (Some_Bool true)) "CACHED" "DONE"))))
(define-fun reachable_row ((e Opt_DT) (c Opt_Bool) (h Opt_String) (v Opt_String)) Bool
  (or (and (not ((_ is Some_DT) e)) (= c (Some_Bool false)) (not ((_ is Some_String) h)) (not ((_ is Some_String) v)))
      (and ((_ is Some_DT) e) ((_ is Some_Bool) c) ((_ is Some_String) h) ((_ is Some_String) v))))
(define-fun exec_display ((has_job Bool) (e Opt_DT) (c Opt_Bool) (v Opt_String)) String
  (ite (not has_job) "FAILED" (ite (or (= (display3 e c v) "DONE") (= (display3 e c v) "CACHED")) "DONE" (display3 e c v))))
"""

ROW = {"Job.end_time": (Opt("DT"), "|row_end|"), "Job.cached": (Opt(BOOL), "|row_cached|"),
       "Job.call_hash": (Opt(STR), "|row_ch|"), "Value.type": (Opt(STR), "|row_vtype|"),
       "REDUN_ERROR_TYPE_NAME": (STR, smt_str(ERR))}


def sql_is(eng, n, st, old):
    """column.is_(None|True|False): never unknown"""
    col = eng.ev(n.func.value, st, old)
    arg = n.args[0]
    if isinstance(arg, ast.Constant) and arg.value is None:
        return T("TV", f"(ite {is_some(col).s} FF TT)")
    if isinstance(arg, ast.Constant) and arg.value in (True, False):
        lit = "true" if arg.value else "false"
        return T("TV", f"(ite (= {col.s} (Some_Bool {lit})) TT FF)")
    return NotImplemented


def sql_cmp(eng, op, a, b, st, n):
    """column == / != literal with NULL -> unknown"""
    if isinstance(a, T) and a.s in ("|row_vtype|", "|row_ch|") and isinstance(b, T) and b.sort == STR and isinstance(op, (ast.Eq, ast.NotEq)):
        eq = f"(= {unopt(a).s} {b.s})"
        if isinstance(op, ast.NotEq):
            eq = f"(not {eq})"
        return T("TV", f"(ite {is_some(a).s} (ite {eq} TT FF) UU)")
    return None


def sql_binop(eng, n, a, b, st):
    if a.sort == "TV" and b.sort == "TV" and isinstance(n.op, (ast.BitAnd, ast.BitOr)):
        return T("TV", f"({'tv_and' if isinstance(n.op, ast.BitAnd) else 'tv_or'} {a.s} {b.s})")
    return None


def or_fold(eng, n, st, old):
    """reduce(sa.or_, map(self._job_status_term, xs)): TRUE iff some element's term is TRUE (callee contract of _job_status_term,
    proved above, gives term(s) is TRUE  <=>  display == s for the four statuses on reachable rows)"""
    xs = eng.ev(n.args[1].args[1], st, old)
    r = eng.opaque("clause", "TV")
    disp = "(display3 |row_end| |row_cached| |row_vtype|)"
    st.pc.append(f"(= (= {r.s} TT) (exists ((i Int)) (and (>= i 0) (< i (seq.len {xs.s})) (= (seq.nth {xs.s} i) {disp}))))")
    eng.note("callee-contract", "reduce(sa.or_, map(_job_status_term, xs)) summarised through _job_status_term's proved contract", n.lineno)
    st.env["$clause"] = r
    return r


FOUR = "(status == 'RUNNING' or status == 'CACHED' or status == 'FAILED' or status == 'DONE')"
contracts = {
 "CallGraphQuery._job_status_term": dict(where=f"{Q}:CallGraphQuery._job_status_term",
    params={"self": REF, "status": STR}, returns="TV",
    requires=["reachable_row(row_end, row_cached, row_ch, row_vtype)"],
    ensures=["(result == TT) == (display3(row_end, row_cached, row_vtype) == status)"],
    raises={"NotImplementedError": "not " + FOUR},
    lib={"Job.end_time.is_(": sql_is, "Job.cached.is_(": sql_is, "Job.call_hash.is_(": sql_is}),
 "Job.calc_status": dict(where=f"{D}:Job.calc_status",
    params={"self": REF, "result_type": Opt(STR)}, returns=STR,
    ensures=["result == display3(self.end_time, self.cached, result_type)", "self._status == Some(result)"]),
 "Execution._job_status2exec_status": dict(where=f"{D}:Execution._job_status2exec_status",
    params={"self": REF, "job_status": Opt(STR)}, returns=STR,
    ensures=["result == ('FAILED' if job_status == None else ('DONE' if (val(job_status) == 'DONE' or val(job_status) == 'CACHED') else val(job_status)))"]),
 "CallGraphQuery.filter_job_statuses": dict(where=f"{Q}:CallGraphQuery.filter_job_statuses",
    params={"self": REF, "job_statuses": Seq(STR)},
    requires=["reachable_row(row_end, row_cached, row_ch, row_vtype)", "len(job_statuses) > 0"],
    lib={"reduce(sa.or_, map(self._job_status_term, ": or_fold},
    post_hooks={"clause-true-iff-displayed-status-requested": lambda eng, st, entry: T(BOOL,
        f"(= (= {st.env['$clause'].s} TT) (exists ((j Int)) (and (>= j 0) (< j (seq.len {entry.env['job_statuses'].s})) (= (seq.nth {entry.env['job_statuses'].s} j) (display3 |row_end| |row_cached| |row_vtype|)))))")}),
 "CallGraphQuery.filter_execution_statuses": dict(where=f"{Q}:CallGraphQuery.filter_execution_statuses",
    params={"self": REF, "execution_statuses": Seq(STR)},
    requires=["reachable_row(row_end, row_cached, row_ch, row_vtype)", "len(execution_statuses) > 0",
              "forall(i, Int, implies(0 <= i and i < len(execution_statuses), execution_statuses[i] == 'RUNNING' or execution_statuses[i] == 'FAILED' or execution_statuses[i] == 'DONE'))"],
    lib={"reduce(sa.or_, map(self._job_status_term, ": or_fold}, locals={"job_statuses": Seq(STR)},
    post_hooks={"clause-true-iff-displayed-execution-status-requested": lambda eng, st, entry: T(BOOL,
        f"(= (= {st.env['$clause'].s} TT) (exists ((j Int)) (and (>= j 0) (< j (seq.len {entry.env['execution_statuses'].s})) (= (seq.nth {entry.env['execution_statuses'].s} j) (exec_display true |row_end| |row_cached| |row_vtype|)))))")}),
}

# the execution query is joined with the execution's ROOT job (Execution.job_id), so execution filters judge the root job's row only
contracts["CallGraphQuery._join_jobs"] = dict(where=f"{Q}:CallGraphQuery._join_jobs", params={"self": REF},
    at_call={"join": ["arg1 == (Job.id == Execution.job_id)"]}, must_call=["join", "clone"])


def bounded_rows(tier, seed):
    from pvc import bounded
    return [bounded.run("C33", "row-shapes-and-two-job-executions", rule="every shape of the finite job row domain (end_time x cached x value type) and 16 two-job executions (root status x child status) "
                        "built with the real ORM models on in-memory SQLite: each real status filter returns a job / execution iff the real displayed status equals it")]


EXTRA_CHECKS = [bounded_rows]
MODULE = Module(
    fields={"end_time": Opt("DT"), "cached": Opt(BOOL), "_status": Opt(STR)},
    axioms=["(forall ((d DT)) (|truthy_DT| d))"],
    ufuns={"truthy_DT": (["DT"], BOOL), "row_end": ([], Opt("DT")), "row_cached": ([], Opt(BOOL)), "row_ch": ([], Opt(STR)), "row_vtype": ([], Opt(STR))},
    defs={"display3": ([Opt("DT"), Opt(BOOL), Opt(STR)], STR), "reachable_row": ([Opt("DT"), Opt(BOOL), Opt(STR), Opt(STR)], BOOL),
          "exec_display": ([BOOL, Opt("DT"), Opt(BOOL), Opt(STR)], STR)},
    prelude=PRELUDE, defs_text=DEFS, consts=ROW,
    hooks={"cmp": sql_cmp, "binop": sql_binop},
    sortnames={"TV": "TV"},
    contracts=contracts, classes={"self": "CallGraphQuery"},
)
MODULE.consts.update({"TT": ("TV", "TT"), "FF": ("TV", "FF"), "UU": ("TV", "UU")})
VERIFY = list(contracts)
EXPECTED_MIN_OBLIGATIONS = 20
TRUSTED = ["A-ORM (three-valued SQL semantics of is_/==/!=/&/|)", "A-ROWS"]
ASSUMPTIONS = [
    "A-ORM: SQLAlchemy column.is_(x) is never NULL; ==/!= against a literal are NULL when the column is NULL; & and | are Kleene connectives; a WHERE clause keeps a row iff it evaluates to TRUE; outer joins yield NULL columns",
    "A-ROWS: job rows are those written by record_job_start (no end_time, cached False, no call_hash, hence no value) and record_job_end (end_time, cached and call_hash set together; the call node has a value)",
    "the error type literal in calc_status equals query.REDUN_ERROR_TYPE_NAME (the spec function uses the literal 'redun.ErrorValue'; the query side reads the constant from the repo)",
    "executions are assumed to have a root job row (an execution whose process died before its root job was recorded displays FAILED and is outside this contract)",
]
