"""C37 The task registry stays consistent -- contracts on the real TaskRegistry methods."""
from pvc.smt import *
from pvc.core import Module

PROPERTY = "C37"
F = "redun/task.py"
TASKS = Map(STR, REF)
COUNTS = Map(STR, INT)
HH = Arr(REF, STR)


def fullname_prop(eng, o, st, old):
    """Task.fullname property: namespace + '.' + name if namespace else name (Task._format_fullname)"""
    if o.sort != REF:
        return NotImplemented
    ns = T(Opt(STR), f"(select {eng.field(st, 'namespace').s} {o.s})")
    nm = T(STR, f"(select {eng.field(st, 'name').s} {o.s})")
    t = eng.truth(ns)
    return T(STR, f"(ite {t.s} (str.++ {unopt(ns).s} \".\" {nm.s}) {nm.s})")


# ghost histogram of task hashes over the registered tasks (A-HIST: defining axioms of a histogram)
AXIOMS = [
    "(forall ((m (Array String Opt_Ref)) (hp (Array Ref String)) (h String)) (! (>= (select (|hist| m hp) h) 0) :pattern ((select (|hist| m hp) h))))",
    "(forall ((m (Array String Opt_Ref)) (hp (Array Ref String)) (n String) (v Opt_Ref) (h String))"
    " (! (= (select (|hist| (store m n v) hp) h)"
    "       (+ (- (select (|hist| m hp) h) (ite (and ((_ is Some_Ref) (select m n)) (= (select hp (val_Ref (select m n))) h)) 1 0))"
    "          (ite (and ((_ is Some_Ref) v) (= (select hp (val_Ref v)) h)) 1 0)))"
    "    :pattern ((select (|hist| (store m n v) hp) h))))",
    "(forall ((m (Array String Opt_Ref)) (hp (Array Ref String)) (h String))"
    " (! (= (> (select (|hist| m hp) h) 0) (exists ((n String)) (and ((_ is Some_Ref) (select m n)) (= (select hp (val_Ref (select m n))) h))))"
    "    :pattern ((select (|hist| m hp) h))))",
]

# representation invariant of a TaskRegistry r
INV = ("forall(n, Str, implies(n in {r}._tasks, {r}._tasks[n].fullname == n))"
       " and forall(h, Str, {r}._task_hash_counts.get(h) == (Some(hist({r}._tasks, heap_hash())[h]) if hist({r}._tasks, heap_hash())[h] > 0 else None))")
INV_SELF = INV.format(r="self")

DEC_POST = ("forall(h, Str, self._task_hash_counts.get(h) == "
            "(old(self._task_hash_counts.get(h)) if (h != old(task.hash) or old(self._task_hash_counts.get(h)) == None) "
            " else (None if old(self._task_hash_counts[h]) == 1 else Some(old(self._task_hash_counts[h]) - 1))))")
FRAME_OTHERS = "forall(o, Ref, implies(o != self, o._tasks == old(o._tasks) and o._task_hash_counts == old(o._task_hash_counts)))"

contracts = {
 "TaskRegistry._decrement_hash_count": dict(where=f"{F}:TaskRegistry._decrement_hash_count",
    params={"self": REF, "task": REF},
    requires=["forall(h, Str, implies(h in self._task_hash_counts, self._task_hash_counts[h] >= 1))"],
    ensures=[DEC_POST, "self._tasks == old(self._tasks)", FRAME_OTHERS],
    modifies=["_task_hash_counts"], asserts_checked=True),
 "TaskRegistry.add": dict(where=f"{F}:TaskRegistry.add",
    params={"self": REF, "task": REF}, requires=[INV_SELF],
    ensures=[INV_SELF,
             "forall(n, Str, self._tasks.get(n) == (Some(task) if n == task.fullname else old(self._tasks.get(n))))",
             FRAME_OTHERS],
    modifies=["_tasks", "_task_hash_counts"]),
 "TaskRegistry.rename": dict(where=f"{F}:TaskRegistry.rename",
    params={"self": REF, "old_name": STR, "new_namespace": STR, "new_name": STR}, returns=REF,
    requires=[INV_SELF, "old_name in self._tasks"],
    ensures=[INV_SELF,
             "result == old(self._tasks[old_name])",
             "result.fullname == (new_namespace + '.' + new_name if len(new_namespace) > 0 else new_name)",
             "self._tasks.get(result.fullname) == Some(result)",
             "implies(result.fullname != old_name, old_name not in self._tasks)",
             "forall(n, Str, implies(n != old_name and n != result.fullname, self._tasks.get(n) == old(self._tasks.get(n))))",
             "forall(t, Ref, t.hash == old(t.hash))",
             "forall(t, Ref, implies(t != result, t.name == old(t.name) and t.namespace == old(t.namespace)))"],
    modifies=["_tasks", "_task_hash_counts", "name", "namespace"], asserts_checked=True),
 "TaskRegistry.task_hashes": dict(where=f"{F}:TaskRegistry.task_hashes",
    params={"self": REF}, returns=Set(STR), requires=[INV_SELF], asserts_checked=True,
    ensures=["forall(h, Str, result[h] == exists(n, Str, n in self._tasks and self._tasks[n].hash == h))"]),
 "TaskRegistry.get": dict(where=f"{F}:TaskRegistry.get",
    params={"self": REF, "task_name": Opt(STR), "hash": Opt(STR)}, returns=Opt(REF), requires=[INV_SELF],
    ensures=["implies(task_name != None and len(val(task_name)) > 0, result == self._tasks.get(val(task_name)))",
             "implies(task_name != None and len(val(task_name)) > 0 and result != None, val(result).fullname == val(task_name))",
             "implies(not (task_name != None and len(val(task_name)) > 0) and result != None, val(result).hash == val(hash) and self._tasks.get(val(result).fullname) == result)",
             "implies(not (task_name != None and len(val(task_name)) > 0) and result == None, not exists(n, Str, n in self._tasks and self._tasks[n].hash == val(hash)))"],
    raises={"ValueError": "not (task_name != None and len(val(task_name)) > 0) and not (hash != None and len(val(hash)) > 0)"},
    loops={0: ["forall(n, Str, implies(visited(0)[n], self._tasks[n].hash != val(hash)))"]}),
 # wraps_task: hide the inner task under <namespace>.<wrapper>.<name>
 "recursive_rename": dict(where=f"{F}:wraps_task.transform_wrapper.create_tasks.recursive_rename",
    params={"task_": REF, "suffix": STR}, returns=STR,
    requires=[INV.format(r="the_registry()"), "the_registry()._tasks.get(task_.fullname) == Some(task_)", "task_.namespace != None", "len(suffix) > 0",
              # scope: a task that does not itself wrap another one; the recursive (nested-wrapper) case is covered by the bounded check only
              "wrapped_of(task_) == None"],
    ensures=[INV.format(r="the_registry()"),
             "result == (val(old(task_.namespace)) + '.' + suffix if val(old(task_.namespace)) != '' else suffix) + '.' + old(task_.name)",
             "the_registry()._tasks.get(result) == Some(task_)",
             "task_.fullname == result",
             "implies(result != old(task_.fullname), old(task_.fullname) not in the_registry()._tasks)"],
    modifies=["_tasks", "_task_hash_counts", "name", "namespace"],
    lib={"get_task_registry().rename(": lambda e, n, st, old: registry_call(e, "TaskRegistry.rename", n, st, old),
         "task_.get_task_option('wrapped_task', None)": lambda e, n, st, old: e.ctx.app("wrapped_of", [REF], Opt(STR), [st.env["task_"]])}),
}


def registry_call(eng, q, n, st, old):
    """get_task_registry().m(...) == the_registry().m(...) with the_registry() the global singleton"""
    import ast
    n2 = ast.parse("the_registry_obj." + n.func.attr + "()", mode="eval").body
    n2.args, n2.keywords = n.args, n.keywords
    ast.copy_location(n2, n)
    ast.fix_missing_locations(n2)
    st.env["the_registry_obj"] = eng.ctx.app("the_registry", [], REF, [])
    st.cls["the_registry_obj"] = "TaskRegistry"
    eng.call_ord[id(n2)] = eng.call_ord.get(id(n), 0)
    return eng.call_contract(q, n2, st, old)


MODULE = Module(
    fields={"_tasks": TASKS, "_task_hash_counts": COUNTS, "hash": STR, "namespace": Opt(STR), "name": STR},
    defaultdicts={"_task_hash_counts": "0"},
    props={"fullname": fullname_prop},
    ufuns={"hist": ([TASKS, HH], Arr(STR, INT)), "the_registry": ([], REF), "wrapped_of": ([REF], Opt(STR))},
    axioms=AXIOMS,
    classes={"self": "TaskRegistry"},
    contracts=contracts,
)


def heap_hash(eng, n, st, old):
    return eng.field(st, "hash")


MODULE.lib["heap_hash("] = heap_hash
VERIFY = list(contracts)
EXPECTED_MIN_OBLIGATIONS = 30
TRUSTED = ["A-HIST (defining axioms of the ghost histogram)", "A-ALIAS"]
ASSUMPTIONS = ["A-HIST: hist(tasks, hash) is the histogram of task hashes over the registered tasks: non-negative, updated pointwise by store, positive exactly for hashes of registered tasks",
               "task.hash of a registered task is not reassigned while registered (frame scan on .hash writes)"]


from pvc import frame_scan, bounded
from pvc.result import Result


def extra(tier, seed):
    T_ = "redun/task.py:"
    out = [
        frame_scan.check("C37", "_tasks", {T_ + "TaskRegistry.__init__", T_ + "TaskRegistry.add", T_ + "TaskRegistry.rename",
                                         "redun/backends/db/query.py:CallGraphQuery.__init__"}  # CallGraphQuery._tasks is a query object of another class
                        , Result),
        frame_scan.check("C37", "_task_hash_counts", {T_ + "TaskRegistry.__init__", T_ + "TaskRegistry.add", T_ + "TaskRegistry._decrement_hash_count"}, Result),
    ]
    out.append(bounded.run("C37", "registry-op-sequences", env={"C37_DEPTH": "2" if tier == "quick" else "3"},
                           rule="every add/rename sequence up to the bound on the real TaskRegistry with real Task objects, invariant checked after each step; nested wraps_task chain (recursive branch of recursive_rename, outside the proved scope)"))
    return out


EXTRA_CHECKS = [extra]
