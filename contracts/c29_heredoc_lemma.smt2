(set-logic ALL)
; lists as (length, index -> line) pairs
(declare-const n Int) (declare-const lines (Array Int String))
(declare-const m Int) (declare-const doc (Array Int String))
(declare-const eof String) (declare-const j Int)
(assert (>= n 0)) (assert (>= m (+ n 1)))
(assert (forall ((i Int)) (=> (and (>= i 0) (< i n)) (= (select doc i) (select lines i)))))   ; doc = lines ++ [eof] ++ rest
(assert (= (select doc n) eof))
(assert (forall ((i Int)) (=> (and (>= i 0) (< i n)) (not (= (select lines i) eof)))))          ; eof is not a command line
(assert (and (>= j 0) (< j m) (= (select doc j) eof)))                                            ; j: first line equal to eof
(assert (forall ((i Int)) (=> (and (>= i 0) (< i j)) (not (= (select doc i) eof)))))
(assert (not (= j n)))
(check-sat)
