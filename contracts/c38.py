"""C38 Sub-scheduler runs: kernel contracts on subrun (option assembly, result mapping), _subrun_root_task (branching), Scheduler.extend_run
(the stub parent job) and the cache-result filter of RedunBackendDb.check_cache."""
import ast, copy, importlib.util, os
from pvc.smt import *
from pvc.core import Module, RaiseEx

PROPERTY = "C38"
S = "redun/scheduler.py"
OPTS = Map(STR, OBJ)


def lib_cfg_dict(e, n, st, old):
    return e.ctx.app("config_dict_of", [REF, STR], OBJ, [st.env["scheduler"], T(STR, '"."')])


def lib_enum_cast(name):
    def h(e, n, st, old):
        return e.ctx.app("as_" + name, [OBJ], OBJ, [e.to_obj(e.ev(n.args[0], st, old))])
    return h


def lib_options_get(e, n, st, old):
    """sexpr._options.get(key, default): the call-time option, else the default"""
    k = e.ev(n.args[0], st, old)
    d = e.to_obj(e.ev(n.args[1], st, old))
    o = e.ctx.app("call_options", [REF], OPTS, [st.env["sexpr"]])
    cur = T(Opt(OBJ), f"(select {o.s} {k.s})")
    return T(OBJ, f"(ite {is_some(cur).s} {unopt(cur).s} {d.s})")


def lib_root_call(e, n, st, old):
    """_subrun_root_task.options(executor=executor, **all_options)(...): record the options and keyword arguments of the root task call"""
    inner = n.func
    if not (isinstance(inner, ast.Call) and ast.unparse(inner.func) == "_subrun_root_task.options"):
        return NotImplemented
    opts = None
    for kw in inner.keywords:
        if kw.arg is None:
            opts = e.ev(kw.value, st, old)
        else:
            st.env["$opt_" + kw.arg] = e.ev(kw.value, st, old)
    st.env["$root_options"] = opts
    for kw in n.keywords:
        v = e.ev(kw.value, st, old)
        st.env["$kw_" + kw.arg] = e.coerce(v, OBJ) if isinstance(v, EmptyV) else v
    e.sites_seen.add("root_call")
    stb = st.clone()
    stb.env["root_options"] = opts
    for kw in n.keywords:
        v = st.env["$kw_" + kw.arg]
        stb.env["kw_" + kw.arg] = v
    for i, c in enumerate(e.cur_contract.get("root_call", [])):
        e.oblige(f"{e.cur}/at[_subrun_root_task-call].{i}", "at", st, e.spec(c, stb, e.entry), n.lineno)
    return e.opaque("root_expr")


SUBRUN_ROOT = [
    # never a single-reduction hit for the subrun itself (unless the caller overrides the option explicitly)
    "implies(not ('allowed_cache_results' in task_options), root_options['allowed_cache_results'] == {CacheResult.CSE, CacheResult.ULTIMATE})",
    "forall(k, Str, implies(k in task_options, root_options.get(k) == task_options.get(k)))",
    "implies(not ('cache_scope' in task_options), root_options['cache_scope'] == as_CacheScope(call_option(sexpr, 'cache_scope', subrun_default('cache_scope'))))",
    "implies(not ('check_valid' in task_options), root_options['check_valid'] == as_CacheCheckValid(call_option(sexpr, 'check_valid', subrun_default('check_valid'))))",
    # a parent without provenance cannot be extended: a new execution is forced
    "kw_new_execution == (new_execution or not recording(parent_job))",
    "kw_run_config['dryrun'] == scheduler._dryrun and kw_run_config['cache'] == scheduler._use_cache and kw_run_config['context'] == job_context(parent_job)",
    "kw_export_options == export_options_of(parent_job)",
    "kw_config_dir == config_dir",
    "implies(config_dir != None, kw_config == empty_config())",
    "implies(config_dir == None and truthy(config), kw_config == config)",
    "implies(config_dir == None and not truthy(config), kw_config == config_dict_of(scheduler, '.'))",
]

contracts = {
 "subrun": dict(where=f"{S}:subrun",
    params={"scheduler": REF, "parent_job": REF, "sexpr": REF, "expr": OBJ, "executor": STR, "config": OBJ, "config_dir": Opt(STR), "new_execution": BOOL,
            "load_modules": OBJ, "task_options": OPTS},
    locals={"all_options": OPTS},
    lib={"scheduler.config.get_config_dict(": lib_cfg_dict, "CacheScope(": lib_enum_cast("CacheScope"), "CacheCheckValid(": lib_enum_cast("CacheCheckValid"),
         "sexpr._options.get(": lib_options_get, "subrun.get_task_option(": lambda e, n, st, old: e.ctx.app("subrun_default", [STR], OBJ, [e.ev(n.args[0], st, old)]),
         "parent_job.get_context()": lambda e, n, st, old: e.ctx.app("job_context", [REF], OBJ, [st.env["parent_job"]]),
         "parent_job.recording_provenance()": lambda e, n, st, old: e.ctx.app("recording", [REF], BOOL, [st.env["parent_job"]]),
         "parent_job.get_export_options()": lambda e, n, st, old: e.ctx.app("export_options_of", [REF], OBJ, [st.env["parent_job"]]),
         "_subrun_root_task.options(": lib_root_call, "get_task_registry()": lambda e, n, st, old: e.opaque("registry"), "quote(": lambda e, n, st, old: e.opaque("quoted")},
    root_call=SUBRUN_ROOT, at_call={"root_call": []}),
 "subrun.then": dict(where=f"{S}:subrun.then", params={"subrun_result": OPTS, "scheduler": REF, "executor": STR, "expr": OBJ}, returns=OBJ,
    lib={"Promise()": lambda e, n, st, old: e.ctx.app("never_resolving_promise", [INT], OBJ, [T(INT, str(e.ctx.n))]),
         "log_banner(": lambda e, n, st, old: T(NONE, "none"), "pprint.pformat(": lambda e, n, st, old: e.opaque("txt", STR), "trim_string(": lambda e, n, st, old: e.opaque("txt", STR)},
    requires=["'config' in subrun_result and 'run_config' in subrun_result and 'status' in subrun_result"],
    raises={"Exception": "not ('result' in subrun_result) and 'error' in subrun_result"},
    ensures=["implies('result' in subrun_result, result == subrun_result['result'])",
             "'result' in subrun_result or not ('error' in subrun_result)",
             "implies(not ('result' in subrun_result) and 'dryrun' in subrun_result, is_never_resolving(result))",
             "implies(not ('result' in subrun_result) and not ('dryrun' in subrun_result), result == None)"]),
 "_subrun_root_task": dict(where=f"{S}:_subrun_root_task",
    params={"expr": REF, "config": OBJ, "config_dir": Opt(STR), "load_modules": OBJ, "run_config": OPTS, "new_execution": BOOL, "job_info": REF, "export_options": OBJ},
    returns=OPTS,
    lib={"Config(": lambda e, n, st, old: e.opaque("config_obj"), "postprocess_config(": lambda e, n, st, old: e.opaque("config_obj"),
         "Scheduler(": lambda e, n, st, old: e.ctx.fresh(REF, "sub_scheduler"), "sub_scheduler.load()": lambda e, n, st, old: T(NONE, "none"),
         "with_export_options(": lambda e, n, st, old: e.ctx.app("with_exports", [REF, OBJ], OBJ, [st.env["expr"], e.to_obj(e.ev(n.args[1], st, old))]),
         "expr.eval()": lambda e, n, st, old: e.ctx.app("unquoted", [REF], OBJ, [st.env["expr"]]),
         "sub_scheduler.extend_run(": lambda e, n, st, old: lib_extend(e, n, st, old), "sub_scheduler.run(": lambda e, n, st, old: lib_run(e, n, st, old),
         "pickle_loads(pickle_dumps(": lambda e, n, st, old: e.ctx.app("fresh_copy", [OBJ], OBJ, [e.to_obj(e.ev(n.args[0].args[0], st, old))]),
         "sub_scheduler.config.get_config_dict()": lambda e, n, st, old: e.opaque("cfg"), "sub_scheduler.get_job_status_report()": lambda e, n, st, old: e.opaque("report"),
         "importlib.import_module(": lambda e, n, st, old: T(NONE, "none"), "Dir(": lambda e, n, st, old: e.opaque("dir")},
    ghost={"extended": BOOL, "ran_new": BOOL, "evaluated": OBJ, "parent_id": OBJ},
    requires=["not extended and not ran_new"],
    ensures=["extended != ran_new", "extended == (not new_execution)",
             # the expression handed to the sub-scheduler is the quoted one (with the exported options re-applied), a fresh copy for a new execution
             "implies(extended, evaluated == (with_exports(expr, export_options) if truthy(export_options) else unquoted(expr)) and parent_id == job_info.job_id)",
             "implies(ran_new, evaluated == fresh_copy(with_exports(expr, export_options) if truthy(export_options) else unquoted(expr)))",
             "implies(ran_new, result.get('result') == Some(run_result()))",
             "implies(extended, forall(k, Str, implies(k in extend_result() and k != 'run_config' and k != 'status', result.get(k) == extend_result().get(k))))",
             "'config' in result and 'run_config' in result and 'status' in result"]),
 "Scheduler.extend_run": dict(where=f"{S}:Scheduler.extend_run", params={"self": REF, "expr": OBJ, "parent_job_id": STR, "dryrun": BOOL, "cache": BOOL, "context": OBJ}, returns=OPTS,
    lib={"self.backend.get_job(": lambda e, n, st, old: e.ctx.app("job_details", [STR], Opt(OPTS), [e.ev(n.args[0], st, old)]),
         "needs_root_task(": lambda e, n, st, old: e.opaque("needs", BOOL), "root_task(": lambda e, n, st, old: e.opaque("root_expr"), "quote(": lambda e, n, st, old: e.opaque("quoted"),
         "Execution(": lambda e, n, st, old: lib_execution(e, n, st, old), "Job(": lambda e, n, st, old: lib_stub_job(e, n, st, old),
         "self._run(": lambda e, n, st, old: lib_inner_run(e, n, st, old)},
    raises={"ValueError": "job_details(parent_job_id) == None", "AssertionError": ""},
    requires=["implies(job_details(parent_job_id) != None, 'execution_id' in val(job_details(parent_job_id)))", "stub == None and run_parent == None and run_promise == None"],
    ghost={"stub": Opt(REF), "run_parent": Opt(REF), "run_promise": Opt(REF)},
    ensures=[  # new jobs are created under a stub that carries the caller's job id and the caller's execution id
             "stub != None and run_parent == stub", "val(stub).id == parent_job_id",
             "exec_id(val(stub).execution) == val(job_details(parent_job_id))['execution_id']",
             "result['job_id'] == only_child(val(stub)).id",
             "implies(val(run_promise).is_fulfilled, result.get('result') == Some(val(run_promise).value) and not ('error' in result))",
             "implies(not val(run_promise).is_fulfilled and val(run_promise).is_rejected, result.get('error') == Some(val(run_promise).error) and not ('result' in result))",
             "implies(not val(run_promise).is_fulfilled and not val(run_promise).is_rejected, 'dryrun' in result and not ('result' in result) and not ('error' in result))"]),
}


def lib_extend(e, n, st, old):
    st.ghost["extended"] = T(BOOL, "true")
    st.ghost["evaluated"] = e.to_obj(e.ev(n.args[0], st, old))
    for kw in n.keywords:
        if kw.arg == "parent_job_id":
            st.ghost["parent_id"] = e.to_obj(e.ev(kw.value, st, old))
    r = e.ctx.app("extend_result", [], OPTS, [])
    # extend_run returns a dict or (only if its own contract is broken) something else: the code asserts it is a dict
    return r


def lib_run(e, n, st, old):
    st.ghost["ran_new"] = T(BOOL, "true")
    st.ghost["evaluated"] = e.to_obj(e.ev(n.args[0], st, old))
    return e.ctx.app("run_result", [], OBJ, [])


def lib_execution(e, n, st, old):
    r = e.ctx.fresh(REF, "execution")
    st.pc.append(f"(= (|exec_id| {r.s}) {e.to_obj(e.ev(n.args[0], st, old)).s})")
    return r


def lib_stub_job(e, n, st, old):
    r = e.ctx.fresh(REF, "stub_job")
    for kw in n.keywords:
        v = e.ev(kw.value, st, old)
        if kw.arg == "id":
            st.pc.append(f"(= (|sattr_id| {r.s}) {v.s})")
        if kw.arg == "execution":
            st.pc.append(f"(= (|sattr_execution| {r.s}) {v.s})")
    st.ghost["stub"] = some(e.ctx, r)
    return r


def lib_inner_run(e, n, st, old):
    for kw in n.keywords:
        v = e.ev(kw.value, st, old)
        if kw.arg == "parent_job":
            st.ghost["run_parent"] = some(e.ctx, v)
    p = e.ctx.fresh(REF, "result_promise")
    st.ghost["run_promise"] = some(e.ctx, p)
    # afterwards the stub has exactly one child: the root job of the sub-execution (assumed contract of _run / Job.__init__)
    par = unopt(st.ghost["run_parent"])
    h = e.field(st, "child_jobs")
    kids = e.ctx.fresh(Seq(REF), "kids")
    st.pc.append(f"(= (seq.len {kids.s}) 1)")
    st.pc.append(f"(= (seq.nth {kids.s} 0) (|only_child| {par.s}))")
    st.heap["child_jobs"] = T(h.sort, f"(store {h.s} {par.s} {kids.s})")
    st.ver += 1
    return p


def isinst(e, v, nm, st):
    if nm == "dict" and isinstance(v, T) and v.sort == OPTS:
        return "true"
    return None


MODULE = Module(
    fields={"_dryrun": BOOL, "_use_cache": BOOL, "child_jobs": Seq(REF), "_current_execution": REF},
    stable={"id": STR, "job_id": STR, "execution": REF, "is_fulfilled": BOOL, "is_rejected": BOOL, "is_pending": BOOL, "value": OBJ, "error": OBJ, "call_hash": OBJ}, declare_stable=True,
    ufuns={"config_dict_of": ([REF, STR], OBJ), "call_options": ([REF], OPTS), "subrun_default": ([STR], OBJ), "job_context": ([REF], OBJ), "recording": ([REF], BOOL),
           "export_options_of": ([REF], OBJ), "as_CacheScope": ([OBJ], OBJ), "as_CacheCheckValid": ([OBJ], OBJ), "truthy": ([OBJ], BOOL), "empty_config": ([], OBJ),
           "never_resolving_promise": ([INT], OBJ), "is_never_resolving": ([OBJ], BOOL), "with_exports": ([REF, OBJ], OBJ), "unquoted": ([REF], OBJ), "fresh_copy": ([OBJ], OBJ),
           "extend_result": ([], OPTS), "run_result": ([], OBJ), "job_details": ([STR], Opt(OPTS)), "exec_id": ([REF], OBJ), "only_child": ([REF], REF),
           "none_obj": ([], OBJ), "is_none": ([OBJ], BOOL)},
    defs={"call_option": ([REF, STR, OBJ], OBJ)},
    defs_text="(define-fun call_option ((s Ref) (k String) (d Obj)) Obj (ite ((_ is Some_Obj) (select (|call_options| s) k)) (val_Obj (select (|call_options| s) k)) d))",
    axioms=["(forall ((i Int)) (! (|is_never_resolving| (|never_resolving_promise| i)) :pattern ((|never_resolving_promise| i))))", "(|is_none| |none_obj|)",
            "(not (|truthy| |empty_config|))"],
    enums={"CacheResult": ["CSE", "SINGLE", "ULTIMATE", "MISS"]},
    hooks={"isinstance": isinst, "coerce": lambda e, t, sort: (e.ctx.app("empty_config", [], OBJ, []) if sort == OBJ and isinstance(t, EmptyV) and t.kind == "dict" else None)},
    contracts=contracts)
VERIFY = ["subrun", "subrun.then", "_subrun_root_task", "Scheduler.extend_run"]

# ---- the backend honours allowed_cache_results: a hit of a kind that is not allowed is never returned (C05's contract of check_cache, extended)
_spec = importlib.util.spec_from_file_location("contracts_c05_for_c38", os.path.join(os.path.dirname(__file__), "c05.py"))
_c05 = importlib.util.module_from_spec(_spec)
_spec.loader.exec_module(_c05)
_cc = dict(_c05.contracts["RedunBackendDb.check_cache"])
_cc["ensures"] = ["implies(allowed_cache_results != None, result2 == CacheResult.MISS or val(allowed_cache_results)[result2])",
                  "implies(result2 == CacheResult.MISS, result1 == None)"]
_c05.MODULE.contracts["RedunBackendDb.check_cache[allowed]"] = _cc
MODULES = [(MODULE, VERIFY), (_c05.MODULE, ["RedunBackendDb.check_cache[allowed]"])]


def bounded_subruns(tier, seed):
    from pvc import bounded
    return [bounded.run(PROPERTY, "subrun-vs-direct", rule="expressions (values, nested calls, failing calls, cached re-runs) evaluated directly and through subrun with new_execution in {False, True}: same result or same error type and "
                        "message; with new_execution=False the sub-execution's jobs are recorded under the calling job in the same execution; the subrun root task is never served by a single-reduction entry")]


EXTRA_CHECKS = [bounded_subruns]
EXPECTED_MIN_OBLIGATIONS = 40
TRUSTED = ["Task.options / TaskExpression construction (C27, C18)", "Scheduler._run / Job.__init__ (the stub gets exactly one child: the sub-execution's root job)", "A-ORM for check_cache (C05)",
           "CacheScope(...) / CacheCheckValid(...) enum conversion as uninterpreted functions"]
ASSUMPTIONS = [
    "'returns the same result or error as evaluating it directly, for all sub-workflows' is a whole-execution simulation between two schedulers (C01-shaped): only exercised by the bounded check",
    "subrun: the options and arguments of the _subrun_root_task call are read off the real call expression (site conditions); module collection (load_modules) is not specified",
    "extend_run: _run(parent_job=stub) is assumed to create exactly one child job under the stub; Promise state attributes are read once",
    "_subrun_root_task: the Scheduler constructor, config loading and module imports are opaque",
]
