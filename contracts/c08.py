"""C08 Resource limits are never exceeded -- contracts on the real scheduler functions."""
from pyvc.smt import *
from pyvc.core import Module

PROPERTY = "C08"
SCHED = "redun/scheduler.py"
LIM = Map(STR, INT)
HELD = Arr(REF, Opt(LIM))

P_HANDLER = "held[job] == (None if job.was_cached else Some(limits_of(job)))"
SAFE = "forall(k, Str, self.limits_used[k] <= mapget(self.limits, k, 1))"

contracts = {
 "Scheduler._is_job_within_limits": dict(
    where=f"{SCHED}:Scheduler._is_job_within_limits",
    params={"self": REF, "job_limits": LIM}, returns=BOOL,
    ensures=["result == forall(k, Str, implies(k in job_limits, mapget(self.limits, k, 1) - self.limits_used[k] - job_limits[k] >= 0))"]),
 "Scheduler._consume_resources": dict(
    where=f"{SCHED}:Scheduler._consume_resources",
    params={"self": REF, "job_limits": LIM},
    requires=["forall(k, Str, implies(k in job_limits, mapget(self.limits, k, 1) - self.limits_used[k] - job_limits[k] >= 0))",
              "forall(k, Str, implies(k in job_limits, job_limits[k] >= 0))", SAFE],
    ensures=["forall(k, Str, self.limits_used[k] == old(self.limits_used[k]) + (job_limits[k] if k in job_limits else 0))",
             "forall(o, Ref, implies(o != self, o.limits_used == old(o.limits_used)))", SAFE],
    modifies=["limits_used"],
    loops={0: ["forall(k, Str, self.limits_used[k] == old(self.limits_used[k]) + (job_limits[k] if visited(0)[k] else 0))",
               "forall(o, Ref, implies(o != self, o.limits_used == old(o.limits_used)))"]}),
 "Scheduler._release_resources": dict(
    where=f"{SCHED}:Scheduler._release_resources",
    params={"self": REF, "job_limits": LIM},
    requires=["forall(k, Str, implies(k in job_limits, job_limits[k] >= 0))", SAFE],
    ensures=["forall(k, Str, self.limits_used[k] == old(self.limits_used[k]) - (job_limits[k] if k in job_limits else 0))",
             "forall(o, Ref, implies(o != self, o.limits_used == old(o.limits_used)))", SAFE],
    modifies=["limits_used"],
    loops={0: ["forall(k, Str, self.limits_used[k] == old(self.limits_used[k]) - (job_limits[k] if visited(0)[k] else 0))",
               "forall(o, Ref, implies(o != self, o.limits_used == old(o.limits_used)))"]}),
}

MODULE = Module(
    fields={"limits_used": Arr(STR, INT), "limits": LIM, "_dryrun": BOOL, "was_cached": BOOL},
    classes={"self": "Scheduler", "job": "Job"},
    ufuns={"limits_of": ([REF], LIM)},
    contracts=contracts,
)
VERIFY = list(contracts)
