"""C08 Resource limits are never exceeded -- contracts on the real scheduler functions."""
from pvc.smt import *
from pvc.core import Module

PROPERTY = "C08"
SCHED = "redun/scheduler.py"
LIM = Map(STR, INT)
HELD = Arr(REF, Opt(LIM))

# link between the ghost holdings and the code's own belief that a job must give units back
P_HANDLER = "held[job] == (Some(limits_of(job)) if job.holds_limits else None)"
SAFE = "forall(k, Str, self.limits_used[k] <= mapget(self.limits, k, 1))"

contracts = {
 "Scheduler._is_job_within_limits": dict(
    where=f"{SCHED}:Scheduler._is_job_within_limits",
    params={"self": REF, "job_limits": LIM}, returns=BOOL,
    ensures=["result == forall(k, Str, implies(k in job_limits, mapget(self.limits, k, 1) - self.limits_used[k] - job_limits[k] >= 0))"]),
 "Scheduler._consume_resources": dict(
    where=f"{SCHED}:Scheduler._consume_resources",
    params={"self": REF, "job_limits": LIM},
    requires=["forall(k, Str, implies(k in job_limits, mapget(self.limits, k, 1) - self.limits_used[k] - job_limits[k] >= 0))",
              "forall(k, Str, implies(k in job_limits, job_limits[k] >= 0))", SAFE],
    ensures=["forall(k, Str, self.limits_used[k] == old(self.limits_used[k]) + (job_limits[k] if k in job_limits else 0))",
             "forall(o, Ref, implies(o != self, o.limits_used == old(o.limits_used)))", SAFE],
    modifies=["limits_used"],
    loops={0: ["forall(k, Str, self.limits_used[k] == old(self.limits_used[k]) + (job_limits[k] if visited(0)[k] else 0))",
               "forall(o, Ref, implies(o != self, o.limits_used == old(o.limits_used)))"]}),
 "Scheduler._release_resources": dict(
    where=f"{SCHED}:Scheduler._release_resources",
    params={"self": REF, "job_limits": LIM},
    requires=["forall(k, Str, implies(k in job_limits, job_limits[k] >= 0))", SAFE],
    ensures=["forall(k, Str, self.limits_used[k] == old(self.limits_used[k]) - (job_limits[k] if k in job_limits else 0))",
             "forall(o, Ref, implies(o != self, o.limits_used == old(o.limits_used)))", SAFE],
    modifies=["limits_used"],
    loops={0: ["forall(k, Str, self.limits_used[k] == old(self.limits_used[k]) - (job_limits[k] if visited(0)[k] else 0))",
               "forall(o, Ref, implies(o != self, o.limits_used == old(o.limits_used)))"]}),
 "Job.get_limits": dict(where=f"{SCHED}:Job.get_limits", params={"self": REF}, returns=LIM,
    ensures=["result == limits_of(self)", "forall(k, Str, implies(k in result, result[k] >= 0))"]),
 # the body of get_limits against the documented list / dict forms of the `limits` option (separate module: own abstraction)

 "Scheduler._check_jobs_pending_limits": dict(where=f"{SCHED}:Scheduler._check_jobs_pending_limits", params={"self": REF}),
 "Scheduler._get_cache": dict(where=f"{SCHED}:Scheduler._get_cache", params={"self": REF, "job": REF}, returns=[OBJ, BOOL, OBJ]),
 "Scheduler.reject_job": dict(where=f"{SCHED}:Scheduler.reject_job",
    params={"self": REF, "job": REF, "error": OBJ, "error_traceback": OBJ, "job_tags": OBJ}, ghost={"held": HELD},
    requires=[P_HANDLER, SAFE]),
 "Scheduler.done_job": dict(where=f"{SCHED}:Scheduler.done_job",
    params={"self": REF, "job": REF, "result": OBJ, "job_tags": OBJ}, ghost={"held": HELD},
    requires=[P_HANDLER, SAFE]),
 "Scheduler._done_job_main_thread": dict(where=f"{SCHED}:Scheduler._done_job_main_thread",
    params={"self": REF, "job": REF, "result": OBJ, "job_tags": OBJ}, ghost={"held": HELD},
    requires=[P_HANDLER, SAFE], ensures=["held[job] == None", "not job.holds_limits", SAFE],
    before_call={("Scheduler._release_resources", 0): ["held[job] == Some(arg0)"]},
    after_call={("Scheduler._release_resources", 0): "held[job] = None"}),
 "Scheduler._reject_job_main_thread": dict(where=f"{SCHED}:Scheduler._reject_job_main_thread",
    params={"self": REF, "job": Opt(REF), "error": OBJ, "error_traceback": OBJ, "job_tags": OBJ}, ghost={"held": HELD},
    requires=["implies(job != None, " + P_HANDLER.replace("job", "val(job)") + ")", SAFE],
    ensures=["implies(job != None, held[val(job)] == None and not val(job).holds_limits)", SAFE],
    before_call={("Scheduler._release_resources", 0): ["held[val(job)] == Some(arg0)"]},
    after_call={("Scheduler._release_resources", 0): "held[val(job)] = None"}),
 "Scheduler._exec_job_main_thread": dict(where=f"{SCHED}:Scheduler._exec_job_main_thread",
    params={"self": REF, "job": REF, "eval_args": OBJ}, ghost={"held": HELD},
    requires=["held[job] == None", "not job.holds_limits", SAFE], ensures=[SAFE, P_HANDLER],
    before_call={("Scheduler._consume_resources", 0): ["held[job] == None", "arg0 == limits_of(job)"]},
    after_call={("Scheduler._consume_resources", 0): "held[job] = Some(arg0)"},
    at_call={"submit": ["not self._dryrun", "held[job] == Some(limits_of(job))"],
             "submit_script": ["not self._dryrun", "held[job] == Some(limits_of(job))"]}),
 "Job.collapse.then": dict(where=f"{SCHED}:Job.collapse.then",
    params={"self": REF, "other_job": REF, "result": OBJ}, ghost={"held": HELD}, classes={"scheduler": "Scheduler"},
    requires=["held[self] == None", "not self.holds_limits", SAFE.replace("self.", "get_current_scheduler().")]),
 "Job.collapse.fail": dict(where=f"{SCHED}:Job.collapse.fail",
    params={"self": REF, "other_job": REF, "error": OBJ}, ghost={"held": HELD}, classes={"scheduler": "Scheduler"},
    requires=["held[self] == None", "not self.holds_limits", SAFE.replace("self.", "get_current_scheduler().")]),
}

MODULE = Module(
    fields={"limits_used": Arr(STR, INT), "limits": LIM, "_dryrun": BOOL, "was_cached": BOOL, "holds_limits": BOOL},
    classes={"self": "Scheduler", "job": "Job"},
    ufuns={"limits_of": ([REF], LIM), "get_current_scheduler": ([], REF)},
    stable={"task": OBJ},
    contracts=contracts,
)
ASSUMED = ["Job.get_limits (as limits_of(job); its body is verified separately against the list/dict forms)", "Scheduler._get_cache", "Scheduler._check_jobs_pending_limits"]
VERIFY = [k for k in contracts if k not in ("Job.get_limits", "Scheduler._get_cache", "Scheduler._check_jobs_pending_limits")]


def opt_as_map(eng, x):
    if x.sort == OBJ:
        return eng.ctx.app("as_dict", [OBJ], LIM, [x])
    return None


def opt_iter(eng, v, st):
    if v.sort == OBJ:
        return eng.ctx.app("as_list", [OBJ], Seq(STR), [v])
    return None


GL_contracts = {
 "Job.get_option": dict(where=f"{SCHED}:Job.get_option", params={"self": REF, "key": STR, "default": OBJ, "as_type": OBJ}, returns=OBJ,
    ensures=["implies(key == 'limits', result == limits_option(self))"]),
 "Job.get_limits": dict(where=f"{SCHED}:Job.get_limits", params={"self": REF}, returns=LIM, classes={"self": "Job"},
    locals={"job_limits": LIM, "limits": OBJ},
    requires=["truthy(self.task)", "isinst_list(limits_option(self)) != isinst_dict(limits_option(self))"],
    ensures=["implies(isinst_dict(limits_option(self)), forall(k, Str, result.get(k) == as_dict(limits_option(self)).get(k)))",
             "implies(isinst_list(limits_option(self)), forall(k, Str, implies(k in as_list(limits_option(self)), result.get(k) == Some(1))))",
             "implies(isinst_list(limits_option(self)), forall(k, Str, implies(not (k in as_list(limits_option(self))), result.get(k) == None)))"]),
}
GL_MODULE = Module(stable={"task": OBJ},
                   ufuns={"limits_option": ([REF], OBJ), "as_dict": ([OBJ], LIM), "as_list": ([OBJ], Seq(STR)), "isinst_list": ([OBJ], BOOL), "isinst_dict": ([OBJ], BOOL), "truthy": ([OBJ], BOOL)},
                   hooks={"as_map": opt_as_map, "iter": opt_iter}, contracts=GL_contracts)
MODULES = [(MODULE, VERIFY), (GL_MODULE, ["Job.get_limits"])]


from pvc import frame_scan
from pvc.result import Result


def frame_checks(tier, seed):
    S = "redun/scheduler.py:"
    return [
        frame_scan.check("C08", "limits_used", {S + "Scheduler.__init__", S + "Scheduler._consume_resources", S + "Scheduler._release_resources"}, Result),
        frame_scan.check("C08", "holds_limits", {S + "Job.__init__", S + "Scheduler._exec_job_main_thread", S + "Scheduler._done_job_main_thread", S + "Scheduler._reject_job_main_thread"}, Result),
        frame_scan.check("C08", "was_cached", {S + "Job.__init__", S + "Job.collapse.then", S + "Job.collapse.fail", S + "Scheduler._exec_job_main_thread"}, Result),
    ]


EXTRA_CHECKS = [frame_checks]
EXPECTED_MIN_OBLIGATIONS = 60
TRUSTED = ["A-LOG", "A-QUEUE", "A-ALIAS", "A-LOCK", "A-LIMITS-NONNEG", "assumed contracts: " + ", ".join(ASSUMED)]
ASSUMPTIONS = [
    "A-QUEUE: a call deferred through events_queue.put(lambda: f(...)) / .then / .catch is verified as a call of f whose precondition is checked where the closure is created; job-local facts are stable until it runs",
    "A-ALIAS: tracked attributes are only written through the syntactic sites found by the frame scan",
    "A-LIMITS-NONNEG: per-job limit counts are non-negative (list form gives 1); Job.get_limits() is a function of the job between consume and release",
    "opaque calls (backend, executor, logging, promise plumbing) do not write limits_used/holds_limits/was_cached/_dryrun (frame scan)",
    "exceptions escaping a handler abort the scheduler loop and are outside the accounting protocol",
    "sum_held lemma (used[k] == sum of held[j][k]) is a paper induction over the protocol proved here: consume only with held==None, release only with held==Some(what was consumed)",
    "assumed (not verified here): " + ", ".join(ASSUMED),
]
