"""C16 Value hashes depend only on the value -- non-interference contracts on ProxyValue.get_hash, Set.get_hash, Value.get_hash,
TypeRegistry.get_hash and pickle_dumps (redun/value.py, redun/utils.py).

The hidden input is sigma, the iteration order Python happens to give hash-ordered containers (sets, frozensets) in this process:
it depends on the hash-randomisation seed and on the insertion / resize history.  A-PICKLE: pickle.dumps(x) is a function of x and
sigma, and does not depend on sigma when x contains no hash-ordered container (sigma_free).  A-SORT: sorted(s) of a set is a function
of the mathematical set.  Each hash function is run symbolically twice (two values of sigma) and the results must be equal."""
from pvc.smt import *
from pvc.core import Module
from pvc.result import Result
from pvc import extract

PROPERTY = "C16"
V = "redun/value.py"
U = "redun/utils.py"
PROTO = extract.module_constants(U).get("PICKLE_PROTOCOL")


def lib_pickle(e, n, st, old):
    return e.ctx.app("pickle", [OBJ, OBJ], STR, [e.to_obj(e.ev(n.args[0], st, old)), st.ghost["sigma"]])


def lib_sorted(e, n, st, old):
    """sorted(self.instance) for a set: the sorted list of its elements, a function of the mathematical set (A-SORT)"""
    return e.ctx.app("sorted_elems", [OBJ], OBJ, [e.ctx.app("elems", [OBJ], OBJ, [e.to_obj(e.ev(n.args[0], st, old))])])


def lib_htb(e, n, st, old):
    d = e.ev(n.args[1], st, old)
    d = unopt(d) if isinstance(d, T) and d.sort == Opt(STR) else d
    return e.ctx.app("htb", [STR, STR], STR, [e.ev(n.args[0], st, old), d])


LIB = {"pickle_dumps(": lib_pickle, "sorted(": lib_sorted, "hash_tag_bytes(": lib_htb}
AX = [
 "(forall ((x Obj) (s1 Obj) (s2 Obj)) (! (=> (|sigma_free| x) (= (|pickle| x s1) (|pickle| x s2))) :pattern ((|pickle| x s1) (|pickle| x s2))))",        # A-PICKLE
 "(forall ((s Obj)) (! (=> (|elems_sigma_free| s) (|sigma_free| (|sorted_elems| s))) :pattern ((|sorted_elems| s))))",
]
G = {"sigma": OBJ}
SAME_INSTANCE = lambda a, b: f"(= (|sattr_instance| {a('self')}) (|sattr_instance| {b('self')}))"
NO_DATA = lambda a, b: f"(and (not ((_ is Some_String) {a('data')})) (not ((_ is Some_String) {b('data')})))"


def both(*fs):
    return lambda a, b: "(and " + " ".join(f(a, b) for f in fs) + ")"


contracts = {
 # ---- sets: same elements => same hash, whatever the insertion order, the seed, or the `data` argument
 "Set.get_hash": dict(where=f"{V}:Set.get_hash", params={"self": REF, "data": Opt(STR)}, returns=STR, ghost=G, lib=LIB, no_raise=True,
    requires=["elems_sigma_free(elems(self.instance))"],
    ensures=["result == htb('Value.set', pickle(sorted_elems(elems(self.instance)), sigma))"],
    relational_converse={"same elements give the same hash (any insertion order, any hash seed, any data argument)":
        lambda a, b: f"(= (|elems| (|sattr_instance| {a('self')})) (|elems| (|sattr_instance| {b('self')})))"}),
 "Set.get_hash[elements of any kind]": dict(where=f"{V}:Set.get_hash", params={"self": REF, "data": Opt(STR)}, returns=STR, ghost=G, lib=LIB, cover=False,
    relational_converse={"same elements give the same hash, also when the elements contain sets or frozensets":
        lambda a, b: f"(= (|elems| (|sattr_instance| {a('self')})) (|elems| (|sattr_instance| {b('self')})))"}),
 # ---- every other raw value goes through the pickle of the value itself
 "ProxyValue.get_hash": dict(where=f"{V}:ProxyValue.get_hash", params={"self": REF, "data": Opt(STR)}, returns=STR, ghost=G, lib=LIB, no_raise=True,
    requires=["sigma_free(self.instance)"],
    ensures=["result == htb('Value', val(data) if data != None else pickle(self.instance, sigma))"],
    relational_converse={"same value gives the same hash in every process (values without sets / frozensets inside)": both(SAME_INSTANCE, NO_DATA)}),
 "ProxyValue.get_hash[values of any kind]": dict(where=f"{V}:ProxyValue.get_hash", params={"self": REF, "data": Opt(STR)}, returns=STR, ghost=G, lib=LIB, cover=False,
    relational_converse={"same value gives the same hash in every process, also for values with sets or frozensets inside": both(SAME_INSTANCE, NO_DATA)}),
 "Value.get_hash": dict(where=f"{V}:Value.get_hash", params={"self": REF, "data": Opt(STR)}, returns=STR, ghost=G, lib=LIB, no_raise=True,
    requires=["sigma_free(box_self(self))"],
    lib_extra=None,
    ensures=["result == htb('Value', val(data) if data != None else pickle(box_self(self), sigma))"]),
 # ---- the registry hashes a value through its Value wrapper, without passing serialised data
 "TypeRegistry.get_hash": dict(where=f"{V}:TypeRegistry.get_hash", params={"self": REF, "value": OBJ, "data": Opt(STR)}, returns=STR, ghost=G,
    lib={"self.get_value(": lambda e, n, st, old: (e.ctx.app("as_value", [OBJ], REF, [e.to_obj(e.ev(n.args[0], st, old))]) if getattr(n.func, "attr", "") == "get_value" else NotImplemented)},
    ensures=["result == value_hash(as_value(value), sigma)"]),
 "*.get_hash": dict(where=f"{V}:Value.get_hash", params={"self": REF, "data": Opt(STR)}, defaults={"data": "None"}, returns=STR, ghost=G,
    ensures=["implies(data == None, result == value_hash(self, sigma))"]),
}
contracts["Value.get_hash"]["lib"] = dict(LIB, **{"pickle_dumps(": lambda e, n, st, old: e.ctx.app("pickle", [OBJ, OBJ], STR, [e.ctx.app("box_self", [REF], OBJ, [st.env["self"]]), st.ghost["sigma"]])})

MODULE = Module(
    stable={"instance": OBJ}, declare_stable=True, axioms=AX,
    ufuns={"pickle": ([OBJ, OBJ], STR), "htb": ([STR, STR], STR), "elems": ([OBJ], OBJ), "sorted_elems": ([OBJ], OBJ), "sigma_free": ([OBJ], BOOL),
           "elems_sigma_free": ([OBJ], BOOL), "as_value": ([OBJ], REF), "value_hash": ([REF, OBJ], STR), "box_self": ([REF], OBJ)},
    contracts=contracts)
VERIFY = ["Set.get_hash", "Set.get_hash[elements of any kind]", "ProxyValue.get_hash", "ProxyValue.get_hash[values of any kind]", "Value.get_hash", "TypeRegistry.get_hash"]
REPLAY_PER_OBLIGATION = True


def protocol_pinned(tier, seed):
    """pickle_dumps / pickle_dump use one fixed protocol constant (a protocol that follows the interpreter's default would change hashes between Python versions)"""
    import ast
    tree, _ = extract.parse_file(U)
    ok, seen = isinstance(PROTO, int), []
    for fn in ast.walk(tree):
        if isinstance(fn, ast.FunctionDef) and fn.name in ("pickle_dumps", "pickle_dump"):
            calls = [c for c in ast.walk(fn) if isinstance(c, ast.Call)]
            good = any(any(k.arg == "protocol" and isinstance(k.value, ast.Name) and k.value.id == "PICKLE_PROTOCOL" for k in c.keywords) for c in calls)
            seen.append((fn.name, good))
            ok = ok and good
    ok = ok and len(seen) == 2
    return [Result("pickle_dumps/protocol-is-the-module-constant", "finite", "proved" if ok else "refuted", "pickle_dumps", 0, solver="python", detail={"PICKLE_PROTOCOL": PROTO, "functions": seen, "stage": 0})]


def bounded_seeds(tier, seed):
    from pvc import bounded
    return [bounded.run(PROPERTY, "hash-seeds-and-insertion-orders", rule="values (scalars, strings, lists, dicts, tuples, top-level sets of ints / strings / tuples built in several insertion orders and after shrinking) hashed through the "
                        "real TypeRegistry and recorded through the real backend under 4 PYTHONHASHSEED values in fresh interpreters: one hash per value; nested sets / frozensets are the recorded known finding and are only reported as such")]


EXTRA_CHECKS = [protocol_pinned, bounded_seeds]
EXPECTED_MIN_OBLIGATIONS = 18
LEVEL = "proof"
TRUSTED = ["A-PICKLE (pickle.dumps is a function of the value and of the iteration order of the hash-ordered containers inside it)", "A-SORT (sorted of a set is a function of the mathematical set)",
           "hash_tag_bytes as a function", "TypeRegistry.get_value dispatch (a set gets the Set wrapper): exercised by the bounded check"]
ASSUMPTIONS = [
    "sigma_free(x): x contains no set / frozenset (nor any other container whose iteration order depends on the hash seed or insertion history); dicts iterate in insertion order, which is part of the value as redun sees it",
    "sets whose elements cannot be sorted (mixed types) raise TypeError in Set.get_hash: outside the contract",
    "user classes that override get_hash, and Task / File / Handle / Expression values (hash defined by their own fields) are covered by their own properties (C04, C17, C18, C25)",
]
