"""C32 The remote job protocol: contracts on the array index lookup (redun/job_array.py), the scratch-file naming and array index
files (redun/executors/scratch.py), batch job names (redun/executors/aws_batch.py, k8s.py) and the index uses of RedunClient.oneshot_command."""
import ast
from pvc.smt import *
from pvc.core import Module, RaiseEx
from pvc import extract

PROPERTY = "C32"
JA = "redun/job_array.py"
SC = "redun/executors/scratch.py"
AB = "redun/executors/aws_batch.py"
K8 = "redun/executors/k8s.py"
ENV = Map(STR, STR)
JC = extract.module_constants(JA)
SCC = extract.module_constants(SC)
ABC = extract.module_constants(AB)

# ------------------------------------------------------------------------------------------------ array index
A_DEC = ["(forall ((n Int)) (! (= (|undec| (|dec| n)) n) :pattern ((|dec| n))))", "(forall ((n Int)) (! (|is_dec| (|dec| n)) :pattern ((|dec| n))))"]
idx_contracts = {
 "get_job_array_index": dict(where=f"{JA}:get_job_array_index", params={"env": ENV, "env_var": Opt(STR)}, returns=Opt(INT),
    raises={"KeyError": "env_var != None and len(val(env_var)) > 0 and not (val(env_var) in env)",
            "ValueError": "not is_dec(env[val(env_var)] if (env_var != None and len(val(env_var)) > 0) else (env[AWS] if AWS in env else (env[K8S] if K8S in env else env.get(GCP, ''))))"},
    # the explicitly named variable wins, then AWS, Kubernetes, GCP; no variable => no index
    ensures=["implies(env_var != None and len(val(env_var)) > 0, result == Some(undec(env[val(env_var)])))",
             "implies(not (env_var != None and len(val(env_var)) > 0) and AWS in env, result == Some(undec(env[AWS])))",
             "implies(not (env_var != None and len(val(env_var)) > 0) and not (AWS in env) and K8S in env, result == Some(undec(env[K8S])))",
             "implies(not (env_var != None and len(val(env_var)) > 0) and not (AWS in env) and not (K8S in env) and GCP in env, result == Some(undec(env[GCP])))",
             "implies(not (env_var != None and len(val(env_var)) > 0) and not (AWS in env) and not (K8S in env) and not (GCP in env), result == None)"]),
}
IDX_MODULE = Module(ufuns={"undec": ([STR], INT), "is_dec": ([STR], BOOL), "dec": ([INT], STR)}, axioms=A_DEC,
                    consts={"AWS_ARRAY_VAR": (STR, smt_str(JC["AWS_ARRAY_VAR"])), "K8S_ARRAY_VAR": (STR, smt_str(JC["K8S_ARRAY_VAR"])), "GCP_ARRAY_VAR": (STR, smt_str(JC["GCP_ARRAY_VAR"])),
                            "AWS": (STR, smt_str(JC["AWS_ARRAY_VAR"])), "K8S": (STR, smt_str(JC["K8S_ARRAY_VAR"])), "GCP": (STR, smt_str(JC["GCP_ARRAY_VAR"]))},
                    contracts=idx_contracts)

# ------------------------------------------------------------------------------------------------ scratch files
def lib_join(e, n, st, old):
    parts = [e.ev(a, st, old) for a in n.args]
    parts = [unopt(p) if isinstance(p, T) and p.sort == Opt(STR) else p for p in parts]
    cur = parts[0]
    for p in parts[1:]:
        cur = e.ctx.app("path_join", [STR, STR], STR, [cur, p])
    return cur


def lib_file_open(e, n, st, old):
    """File(path).open(mode): a stream that remembers the path it writes to"""
    if isinstance(n.func, ast.Name):
        # File(path): the file object
        r = e.ctx.fresh(REF, "file")
        p_ = e.ev(n.args[0], st, old)
        p_ = unopt(p_) if isinstance(p_, T) and p_.sort == Opt(STR) else p_
        st.pc.append(f"(= (|sattr_path| {r.s}) {p_.s})")
        return r
    inner = n.func.value
    if not (isinstance(inner, ast.Call) and isinstance(inner.func, ast.Name) and inner.func.id == "File"):
        return NotImplemented
    r = e.ctx.fresh(REF, "stream")
    st.pc.append(f"(= (|sattr_path| {r.s}) {e.ev(inner.args[0], st, old).s})")
    return r


SLIB = {"os.path.join(": lib_join}


def lib_join_lines(e, n, st, old):
    """'\\n'.join(lines): the text whose i-th line is lines[i]; the list is remembered for the site condition at the write"""
    xs = e.ev(n.args[0], st, old)
    r = e.ctx.fresh(STR, "joined")
    st.env["joined_lines"], st.env["joined_text"] = xs, r
    return r
CONSTS = {k: (STR, smt_str(v)) for k, v in SCC.items() if isinstance(v, str)}
ALIGNED = "forall(i, Int, implies(0 <= i and i < len(jobs), {xs}[i] == {e}))"
scratch_contracts = {
 "get_job_scratch_file": dict(where=f"{SC}:get_job_scratch_file", params={"scratch_prefix": STR, "job": REF, "filename": STR}, returns=STR, lib=SLIB,
    requires=["job.eval_hash != None and len(val(job.eval_hash)) > 0", "not ('/' in val(job.eval_hash))", "len(filename) > 0 and not ('/' in filename)"],   # hex digests; fixed file names
    ensures=["result == path_join(path_join(path_join(scratch_prefix, 'jobs'), val(job.eval_hash)), filename)"],
    relational={"same evaluation hash (jobs with different evaluation hashes never share a scratch file)": lambda a, b: (
        f"(=> (and (= {a('scratch_prefix')} {b('scratch_prefix')}) (= {a('filename')} {b('filename')})) (= (select {a('H_eval_hash')} {a('job')}) (select {b('H_eval_hash')} {b('job')})))")}),
 "get_job_scratch_file#": dict(where=f"{SC}:get_job_scratch_file", params={"scratch_prefix": STR, "job": REF, "filename": STR}, returns=STR, pure="job_scratch"),
 "get_array_scratch_file": dict(where=f"{SC}:get_array_scratch_file", params={"scratch_prefix": STR, "job_array_id": STR, "filename": STR}, returns=STR, lib=SLIB,
    ensures=["result == path_join(path_join(path_join(scratch_prefix, 'array_jobs'), job_array_id), filename)"]),
 "get_array_scratch_file#": dict(where=f"{SC}:get_array_scratch_file", params={"scratch_prefix": STR, "job_array_id": STR, "filename": STR}, returns=STR, pure="array_scratch"),
 "write_array_job_scratch_files": dict(where=f"{SC}:write_array_job_scratch_files",
    params={"jobs": Seq(REF), "scratch_prefix": STR, "array_id": STR, "include_eval_hash": BOOL}, returns=OBJ,
    locals={"all_args": Seq(OBJ), "all_kwargs": Seq(OBJ)}, classes={"job": "Job"},
    requires=["forall(i, Int, implies(0 <= i and i < len(jobs), jobs[i].eval_hash != None))"],
    lib={"File(": lib_file_open, "cast(": lambda e, n, st, old: e.ev(n.args[1], st, old), "'\\n'.join(": lambda e, n, st, old: lib_join_lines(e, n, st, old)},
    loops={0: ["len(all_args) == index(0) and len(all_kwargs) == index(0)",
               "forall(i, Int, implies(0 <= i and i < index(0), all_args[i] == jobs[i].args[0] and all_kwargs[i] == jobs[i].args[1]))"]},
    # line / element i of every index file belongs to jobs[i]
    at_call={"pickle_dump": ["arg1.path == array_scratch(scratch_prefix, array_id, SCRATCH_INPUT)",
                             "len(arg0[0]) == len(jobs) and len(arg0[1]) == len(jobs)",
                             "forall(i, Int, implies(0 <= i and i < len(jobs), arg0[0][i] == jobs[i].args[0] and arg0[1][i] == jobs[i].args[1]))"],
             "dump#0": ["arg1.path == array_scratch(scratch_prefix, array_id, SCRATCH_OUTPUT)", "len(arg0) == len(jobs)",
                        "forall(i, Int, implies(0 <= i and i < len(jobs), arg0[i] == job_scratch(scratch_prefix, jobs[i], SCRATCH_OUTPUT)))"],
             "dump#1": ["arg1.path == array_scratch(scratch_prefix, array_id, SCRATCH_ERROR)", "len(arg0) == len(jobs)",
                        "forall(i, Int, implies(0 <= i and i < len(jobs), arg0[i] == job_scratch(scratch_prefix, jobs[i], SCRATCH_ERROR)))"],
             "write": ["recv.path == array_scratch(scratch_prefix, array_id, SCRATCH_HASHES)",
                       "arg0 == joined_text and len(joined_lines) == len(jobs) and forall(i, Int, implies(0 <= i and i < len(jobs), joined_lines[i] == jobs[i].eval_hash))"]},
    must_call=["pickle_dump", "dump", "write"]),
}
scratch_contracts["write_array_job_scratch_files"]["classes"] = {}
SCRATCH_MODULE = Module(
    fields={"eval_hash": Opt(STR)}, stable={"args": Tup(OBJ, OBJ), "path": STR}, declare_stable=True,
    ufuns={"path_join": ([STR, STR], STR), "job_scratch": ([STR, REF, STR], STR), "array_scratch": ([STR, STR, STR], STR), "str_join": ([STR, Seq(STR)], STR)},
    axioms=["(forall ((r String) (a String) (b String)) (! (=> (= (|path_join| r a) (|path_join| r b)) (or (= a b) (str.prefixof \"/\" a) (str.prefixof \"/\" b))) :pattern ((|path_join| r a) (|path_join| r b))))",
            "(forall ((r String) (s String) (a String)) (! (=> (and (= (|path_join| r a) (|path_join| s a)) (not (str.contains a \"/\")) (not (str.suffixof \"/\" r)) (not (str.suffixof \"/\" s))) (= r s)) :pattern ((|path_join| r a) (|path_join| s a))))",
            "(forall ((r String) (a String)) (! (=> (and (> (str.len a) 0) (not (str.suffixof \"/\" a))) (not (str.suffixof \"/\" (|path_join| r a)))) :pattern ((|path_join| r a))))"],
    consts=CONSTS, contracts=scratch_contracts)
# inside write_array_job_scratch_files the two path helpers are used through their (verified above) specification functions
SCRATCH_MODULE_W = Module(
    fields={"eval_hash": Opt(STR)}, stable={"args": Tup(OBJ, OBJ), "path": STR}, declare_stable=True,
    ufuns={"job_scratch": ([STR, REF, STR], STR), "array_scratch": ([STR, STR, STR], STR), "str_join": ([STR, Seq(STR)], STR)},
    consts=CONSTS,
    contracts={"get_job_scratch_file": scratch_contracts["get_job_scratch_file#"], "get_array_scratch_file": scratch_contracts["get_array_scratch_file#"],
               "write_array_job_scratch_files": scratch_contracts["write_array_job_scratch_files"]})

# ------------------------------------------------------------------------------------------------ job names
def lib_re_match(e, n, st, old):
    """re.match(".*-(?P<hash>[^-]+)", s): greedy, so the group is the dash-free text after the LAST dash (A-RE)"""
    pat = n.args[0].value if isinstance(n.args[0], ast.Constant) else None
    if pat != ".*-(?P<hash>[^-]+)":
        return NotImplemented
    s = e.ev(n.args[1], st, old)
    r = e.ctx.fresh(Opt(REF), "match")
    st.pc.append(f"(= {is_some(r).s} (|has_dash_suffix| {s.s}))")
    st.pc.append(f"(=> {is_some(r).s} (= (|group_hash| {unopt(r).s}) (|last_dash_suffix| {s.s})))")
    return r


def name_subscript(e, n, a, k, st):
    if isinstance(a, T) and a.sort in (REF, Opt(REF)) and isinstance(n.slice, ast.Constant) and n.slice.value == "hash":
        return e.ctx.app("group_hash", [REF], STR, [unopt(a) if a.sort == Opt(REF) else a])
    return None


A_RE = [
 # s = a ++ "-" ++ h with h non-empty and dash-free: the match exists and its group is h
 "(forall ((a String) (h String)) (! (=> (and (> (str.len h) 0) (not (str.contains h \"-\"))) (and (|has_dash_suffix| (str.++ a \"-\" h)) (= (|last_dash_suffix| (str.++ a \"-\" h)) h))) :pattern ((str.++ a \"-\" h))))",
]


def name_contracts(rel, suffix, mk="get_batch_job_name"):
    return {
     mk: dict(where=f"{rel}:{mk}", params={"prefix": STR, "job_hash": STR, "array": BOOL}, returns=STR,
        ensures=[f"result == prefix + '-' + job_hash + ('-{suffix}' if array else '')"]),
     "get_hash_from_job_name": dict(where=f"{rel}:get_hash_from_job_name", params={"job_name": STR}, returns=Opt(STR), lib={"re.match(": lib_re_match},
        ensures=[f"implies(not job_name.endswith('-{suffix}'), result == (Some(last_dash_suffix(job_name)) if has_dash_suffix(job_name) else None))",
                 f"implies(job_name.endswith('-{suffix}'), result == (Some(last_dash_suffix(job_name[:len(job_name) - {len(suffix) + 1}])) if has_dash_suffix(job_name[:len(job_name) - {len(suffix) + 1}]) else None))"]),
     "lemma.name_roundtrip": dict(lemma_src=f"def lemma(prefix, job_hash, array):\n    return get_hash_from_job_name({mk}(prefix, job_hash, array))\n",
        params={"prefix": STR, "job_hash": STR, "array": BOOL}, returns=Opt(STR),
        requires=["len(job_hash) > 0 and not ('-' in job_hash)", f"job_hash != '{suffix}'"],    # hashes are hex digests
        ensures=["result == Some(job_hash)"]),
    }


def name_module(rel, suffix, mk="get_batch_job_name"):
    return Module(ufuns={"has_dash_suffix": ([STR], BOOL), "last_dash_suffix": ([STR], STR), "group_hash": ([REF], STR)}, axioms=A_RE,
                  consts={"ARRAY_JOB_SUFFIX": (STR, smt_str(suffix))}, hooks={"subscript": name_subscript}, contracts=name_contracts(rel, suffix, mk))


AWS_NAMES = name_module(AB, ABC["ARRAY_JOB_SUFFIX"])
K8S_NAMES = name_module(K8, extract.module_constants(K8)["ARRAY_JOB_SUFFIX"], "get_k8s_job_name")

# ------------------------------------------------------------------------------------------------ oneshot: one index for error file, output file, args and kwargs
def oneshot_subscript(e, n, a, k, st):
    """efiles[i] / ofiles[i] / task_args[i] / task_kwargs[i]: the index must be the array index read from the environment"""
    base = n.value.id if isinstance(n.value, ast.Name) else None
    if base in ("efiles", "ofiles", "task_args", "task_kwargs") and "$array_index" in st.env:
        want = st.env["$array_index"]
        kk = e.coerce(k, INT) if isinstance(k, T) else k
        e.oblige(f"{e.cur}/index[{base}]", "at", st, T(BOOL, f"(= {kk.s} {unopt(want).s})"), n.lineno)
        e.sites_seen.add("index:" + base)
        return e.ctx.app("item_" + base, [OBJ, INT], OBJ, [e.to_obj(a), kk])
    return None


def lib_get_index(e, n, st, old):
    r = e.ctx.fresh(Opt(INT), "array_index")
    st.env["$array_index"] = r
    return r


oneshot_contracts = {
 "RedunClient.oneshot_command": dict(where="redun/cli.py:RedunClient.oneshot_command", params={"self": REF, "args": REF, "extra_args": OBJ, "argv": OBJ}, returns=OBJ,
    lib={"get_job_array_index(": lib_get_index}, at_call={"index:efiles": [], "index:ofiles": [], "index:task_args": [], "index:task_kwargs": []}, cover=False, opaque_raises=False),
}
ONESHOT_MODULE = Module(hooks={"subscript": oneshot_subscript}, contracts=oneshot_contracts, skip_calls=["self.log", "logger.", "log.", "warnings.warn", "print", "self.display"])

# ------------------------------------------------------------------------------------------------ the oneshot command line
CMD = "redun/executors/command.py"
TAIL = 7
cmd_contracts = {
 "get_job_scratch_file": scratch_contracts["get_job_scratch_file#"], "get_array_scratch_file": scratch_contracts["get_array_scratch_file#"],
 "get_oneshot_command": dict(where=f"{CMD}:get_oneshot_command",
    params={"scratch_prefix": STR, "job": REF, "a_task": REF, "args": OBJ, "kwargs": OBJ, "job_options": Map(STR, OBJ), "code_file": Opt(REF), "array_uuid": Opt(STR),
            "input_path": Opt(STR), "output_path": Opt(STR), "error_path": Opt(STR)}, returns=Seq(STR),
    locals={"import_args": Seq(STR), "input_path": Opt(STR), "output_path": Opt(STR), "error_path": Opt(STR)},
    lib={"CacheScope(": lambda e, n, st, old: e.ctx.app("as_CacheScope", [OBJ], OBJ, [e.to_obj(e.ev(n.args[0], st, old))]), "File(": lib_file_open,
         "get_import_paths()": lambda e, n, st, old: e.opaque("paths"), "os.getcwd()": lambda e, n, st, old: e.opaque("cwd", STR),
         "os.path.relpath(": lambda e, n, st, old: e.opaque("rel", STR),
         "input_file.open(": lambda e, n, st, old: e.ev(n.func.value, st, old)},
    loops={0: dict(inv=[], modifies=[])}, concat_facts=True,
    lib_extra=None,
    requires=["implies(array_uuid != None, len(val(array_uuid)) > 0)", "implies(input_path != None, len(val(input_path)) > 0)",
              "implies(output_path != None, len(val(output_path)) > 0)", "implies(error_path != None, len(val(error_path)) > 0)"],
    # a task that may not be served from a previous output (cache scope other than BACKEND) is run with --no-cache; BACKEND scope may reuse it
    ensures=["(len(cache_arg) == 0) == (as_CacheScope(mapget(job_options, 'cache_scope', CacheScope.BACKEND)) == CacheScope.BACKEND)",
             "implies(len(cache_arg) > 0, len(cache_arg) == 1 and cache_arg[0] == '--no-cache')",
             "(len(array_arg) > 0) == (array_uuid != None)", "implies(len(array_arg) > 0, len(array_arg) == 1 and array_arg[0] == '--array-job')",
             # input / output / error default to the array's index files resp. the job's own scratch files
             "implies(array_uuid != None and input_path == None, final(input_path) == Some(array_scratch(scratch_prefix, val(array_uuid), SCRATCH_INPUT)))",
             "implies(array_uuid != None and output_path == None, final(output_path) == Some(array_scratch(scratch_prefix, val(array_uuid), SCRATCH_OUTPUT)))",
             "implies(array_uuid != None and error_path == None, final(error_path) == Some(array_scratch(scratch_prefix, val(array_uuid), SCRATCH_ERROR)))",
             "implies(array_uuid == None and input_path == None, final(input_path) == Some(job_scratch(scratch_prefix, job, SCRATCH_INPUT)))",
             "implies(array_uuid == None and output_path == None, final(output_path) == Some(job_scratch(scratch_prefix, job, SCRATCH_OUTPUT)))",
             "implies(array_uuid == None and error_path == None, final(error_path) == Some(job_scratch(scratch_prefix, job, SCRATCH_ERROR)))",
             "implies(input_path != None, final(input_path) == input_path) and implies(output_path != None, final(output_path) == output_path) and implies(error_path != None, final(error_path) == error_path)",
             # the command ends with the cache flag (if any) and --input I --output O --error E <task>
             f"len(result) >= {TAIL} + len(cache_arg) + len(array_arg)",
             f"result[len(result) - 7] == '--input' and Some(result[len(result) - 6]) == final(input_path) and result[len(result) - 5] == '--output' and Some(result[len(result) - 4]) == final(output_path) "
             f"and result[len(result) - 3] == '--error' and Some(result[len(result) - 2]) == final(error_path) and result[len(result) - 1] == a_task.fullname",
             f"forall(i, Int, implies(0 <= i and i < len(cache_arg), result[len(result) - {TAIL} - len(cache_arg) + i] == cache_arg[i]))",
             f"forall(i, Int, implies(0 <= i and i < len(array_arg), result[len(result) - {TAIL} - len(cache_arg) - len(array_arg) + i] == array_arg[i]))"],
    at_call={"pickle_dump": ["array_uuid == None", "arg0[0] == args and arg0[1] == kwargs", "Some(arg1.path) == input_path"]}),
}


def cmd_coerce(e, t, sort):
    if sort == STR and isinstance(t, T) and t.sort == Opt(STR):
        return unopt(t)
    return None


def cmd_list(e, items):
    """a list of strings in which some entries are Optional[str] variables that are set by then"""
    if items and all(isinstance(i, T) and i.sort in (STR, Opt(STR)) for i in items):
        return e.seq_of([unopt(i) if i.sort == Opt(STR) else i for i in items], STR)
    return None


CMD_MODULE = Module(stable={"path": STR, "fullname": STR, "load_module": STR}, declare_stable=True,
                    ufuns={"job_scratch": ([STR, REF, STR], STR), "array_scratch": ([STR, STR, STR], STR), "as_CacheScope": ([OBJ], OBJ)},
                    enums={"CacheScope": ["NONE", "CSE", "BACKEND"]}, consts=dict(CONSTS, REDUN_PROG=(STR, '"redun"'), REDUN_REQUIRED_VERSION=(STR, '"reqver"')),
                    hooks={"coerce": cmd_coerce, "list_literal": cmd_list}, contracts=cmd_contracts)

# ------------------------------------------------------------------------------------------------ job reuniting: what gets paired with what
def lib_splitlines(e, n, st, old):
    return e.opaque("eval_hashes", Seq(STR))


gather_contracts = {
 "get_hash_from_job_name": dict(where=f"{AB}:get_hash_from_job_name", params={"job_name": STR}, returns=Opt(STR), pure="hash_of_name"),
 "AWSBatchExecutor.gather_inflight_jobs": dict(where=f"{AB}:AWSBatchExecutor.gather_inflight_jobs", params={"self": REF},
    # a single job is paired under the hash in its own name; an array child under line <its own array index> of the array's eval-hash file
    at_store={"preexisting_batch_jobs#0": ["Some(skey) == hash_of_name(name)", "sval == job['jobId']"],
              "preexisting_batch_jobs#1": ["skey == eval_hashes[job_index]", "sval == job_id"]},
    lib={"get_array_scratch_file(": lambda e, n, st, old: e.opaque("path", STR), "File(": lambda e, n, st, old: e.opaque("file"),
         "is_array_job_name(": lambda e, n, st, old: e.opaque("is_array", BOOL)}),
}
GATHER_MODULE = Module(fields={"preexisting_batch_jobs": Map(STR, OBJ)}, ufuns={"hash_of_name": ([STR], Opt(STR))}, contracts=gather_contracts, classes={"self": "AWSBatchExecutor"})

MODULES = [(IDX_MODULE, ["get_job_array_index"]), (SCRATCH_MODULE, ["get_job_scratch_file", "get_array_scratch_file"]), (SCRATCH_MODULE_W, ["write_array_job_scratch_files"]),
           (AWS_NAMES, ["get_batch_job_name", "get_hash_from_job_name", "lemma.name_roundtrip"]), (K8S_NAMES, ["get_k8s_job_name", "get_hash_from_job_name", "lemma.name_roundtrip"]),
           (ONESHOT_MODULE, ["RedunClient.oneshot_command"]), (CMD_MODULE, ["get_oneshot_command"]), (GATHER_MODULE, ["AWSBatchExecutor.gather_inflight_jobs"])]


def bounded_protocol(tier, seed):
    from pvc import bounded
    return [bounded.run(PROPERTY, "oneshot-protocol", rule="tasks (returning values, raising, with keyword arguments) x single jobs and arrays of size 1..4 run through the real scratch-file protocol "
                        "(write_array_job_scratch_files, RedunClient oneshot with each array index variable, parse_job_result / parse_job_error) on a local scratch directory: "
                        "result or exception equals the local call; element i reads args i and writes output / error file i")]


EXTRA_CHECKS = [bounded_protocol]
EXPECTED_MIN_OBLIGATIONS = 45
TRUSTED = ["A-DEC (int(str) as undec with the round-trip axiom)", "A-RE (the greedy pattern '.*-(?P<hash>[^-]+)' yields the dash-free text after the last dash)", "os.path.join as an uninterpreted, argument-wise injective function",
           "pickle / json round trips (the files carry the lists they were given)"]
ASSUMPTIONS = [
    "'yields the same result or exception as calling the task locally' spans two processes and pickle: exercised by the bounded check only",
    "gather_inflight_jobs (pairing in-flight remote jobs by evaluation hash) talks to the batch service and is not under contract; its two helpers (job name <-> hash, line i of the eval-hash file = jobs[i]) are",
    "oneshot_command: only the index uses are specified (error file, output file, args, kwargs all at the index returned by get_job_array_index); everything else in it is opaque",
    "job.args is the (args, kwargs) pair set by the executor before submission",
]
