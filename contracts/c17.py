"""C17 Task hashes track code identity -- relational contracts on Task._calc_hash / PartialTask._calc_hash, loop contract on get_func_source."""
import ast
from pvc.smt import *
from pvc.core import Module
from pvc.result import Result

PROPERTY = "C17"
TK = "redun/task.py"
U = "redun/utils.py"
HS = "HS"
PRELUDE = "(declare-datatypes ((HS 0)) (((HStr (hstr String)) (HList (hitems (Seq HS))))))\n(declare-sort Opts 0)\n(declare-sort Incs 0)\n(declare-sort Args 0)"
AX = [
 "(forall ((a HS) (b HS)) (! (=> (= (|hs| a) (|hs| b)) (= a b)) :pattern ((|hs| a) (|hs| b))))",
 # value hash of the override dict / sorted value hashes of the includes: injective in the abstract dict / multiset (A-HASH, A-SORT)
 "(forall ((a Opts) (b Opts)) (! (=> (= (|vh_opts| a) (|vh_opts| b)) (= a b)) :pattern ((|vh_opts| a) (|vh_opts| b))))",
 "(forall ((a Incs) (b Incs)) (! (=> (= (|sorted_inc_hashes| a) (|sorted_inc_hashes| b)) (= a b)) :pattern ((|sorted_inc_hashes| a) (|sorted_inc_hashes| b))))",
 "(forall ((a Incs)) (! (= (|truthy_Incs| a) (> (seq.len (|sorted_inc_hashes| a)) 0)) :pattern ((|sorted_inc_hashes| a))))",
 "(forall ((a Opts) (b Opts)) (! (=> (and (not (|truthy_Opts| a)) (not (|truthy_Opts| b))) (= a b)) :pattern ((|truthy_Opts| a) (|truthy_Opts| b))))",
 "(forall ((a Incs) (b Incs)) (! (=> (and (not (|truthy_Incs| a)) (not (|truthy_Incs| b))) (= a b)) :pattern ((|truthy_Incs| a) (|truthy_Incs| b))))",
 "(forall ((a Args) (b Args)) (! (=> (= (|hargs| a) (|hargs| b)) (= a b)) :pattern ((|hargs| a) (|hargs| b))))",
]


def coerce(eng, t, sort):
    if sort == HS and isinstance(t, T) and t.sort == Seq(HS):
        return T(HS, f"(HList {t.s})")
    return None


def list_literal(eng, items):
    """pre-image pieces are sequences of HS atoms"""
    if items and all(isinstance(i, T) and i.sort in (STR, Opt(STR)) for i in items):
        # an Optional[str] element is only reached on the branch where it is not None
        return eng.seq_of([T(HS, f"(HStr {(i if i.sort == STR else unopt(i)).s})") for i in items], HS)
    return None


LIB = {
    "get_type_registry().get_hash(self._task_options_override)": lambda e, n, st, old: e.ctx.app("vh_opts", ["Opts"], STR, [e.ev(n.args[0], st, old)]),
    "sorted(map(get_type_registry().get_hash, self._hash_includes))": lambda e, n, st, old: e.ctx.app("sorted_inc_hashes", ["Incs"], Seq(HS), [e.ev(n.args[0].args[1], st, old)]),
    "get_func_source(": lambda e, n, st, old: e.ctx.app("src_of", [OBJ], STR, [e.to_obj(e.ev(n.args[0], st, old))]),
    "hash_arguments(": lambda e, n, st, old: e.ctx.app("hargs", ["Args"], STR, [e.ctx.app("args_view", [REF], "Args", [st.env["self"]])]),
    "get_type_registry()": lambda e, n, st, old: e.opaque("registry"),
    "self.task._calc_hash()": lambda e, n, st, old: e.ctx.app("inner_hash", [REF], STR, [e.ev(n.func.value, st, old)]),
}


def F(name):
    return lambda a, b: f"(= (|sattr_{name}| {a('self')}) (|sattr_{name}| {b('self')}))"


def eff_source(x):
    return f"(ite (> (str.len (|sattr_source| {x})) 0) (|sattr_source| {x}) (|src_of| (|sattr_func| {x})))"


contracts = {
 "hash_struct": dict(where="redun/hashing.py:hash_struct", params={"struct": HS}, returns=STR, pure="hs"),
 "Task._calc_hash": dict(where=f"{TK}:Task._calc_hash", params={"self": REF}, returns=STR, lib=LIB,
    requires=["not truthy(self.compat)"],
    relational={
        "same full name": F("fullname"),
        "same versioned/unversioned kind": lambda a, b: f"(= ((_ is Some_String) (|sattr_version| {a('self')})) ((_ is Some_String) (|sattr_version| {b('self')})))",
        "same version when versioned": lambda a, b: f"(=> ((_ is Some_String) (|sattr_version| {a('self')})) (= (|sattr_version| {a('self')}) (|sattr_version| {b('self')})))",
        "same source when unversioned": lambda a, b: f"(=> (not ((_ is Some_String) (|sattr_version| {a('self')}))) (= {eff_source(a('self'))} {eff_source(b('self'))}))",
        "same includes-then-override tail": lambda a, b: (f"(= (seq.++ (ite (|truthy_Incs| (|sattr__hash_includes| {a('self')})) (|sorted_inc_hashes| (|sattr__hash_includes| {a('self')})) (as seq.empty (Seq HS))) (ite (|truthy_Opts| (|sattr__task_options_override| {a('self')})) (seq.unit (HStr (|vh_opts| (|sattr__task_options_override| {a('self')})))) (as seq.empty (Seq HS))))"
                                                           f" (seq.++ (ite (|truthy_Incs| (|sattr__hash_includes| {b('self')})) (|sorted_inc_hashes| (|sattr__hash_includes| {b('self')})) (as seq.empty (Seq HS))) (ite (|truthy_Opts| (|sattr__task_options_override| {b('self')})) (seq.unit (HStr (|vh_opts| (|sattr__task_options_override| {b('self')})))) (as seq.empty (Seq HS)))))"),
        "same hash_includes data": F("_hash_includes"),
        "same call-time option overrides": F("_task_options_override")},
    relational_converse={
        "full name, source/version, includes and overrides determine the hash (definition-time options, decorators, include order do not matter)":
            lambda a, b: "(and " + " ".join(F(n)(a, b) for n in ("fullname", "version", "source", "_hash_includes", "_task_options_override")) + f" (= (|src_of| (|sattr_func| {a('self')})) (|src_of| (|sattr_func| {b('self')}))))"}),
 "PartialTask._calc_hash": dict(where=f"{TK}:PartialTask._calc_hash", params={"self": REF}, returns=STR, lib=LIB,
    relational={"same inner task hash": lambda a, b: f"(= (|inner_hash| (|sattr_task| {a('self')})) (|inner_hash| (|sattr_task| {b('self')})))",
                "same bound arguments": lambda a, b: f"(= (|args_view| {a('self')}) (|args_view| {b('self')}))"}),
 "get_func_source": dict(where=f"{U}:get_func_source", params={"func": OBJ}, returns=STR,
    lib={"inspect.getsource(": lambda e, n, st, old: e.ctx.app("getsource", [OBJ], STR, [st.env["func"]]),
         "re.match(": lambda e, n, st, old: e.ctx.app("is_def_line", [STR], BOOL, [e.ev(n.args[1], st, old)])},
    ensures=["(exists(k, Int, 0 <= k and k < len(str_split1(getsource(func), '\\n')) and is_def_line(str_split1(getsource(func), '\\n')[k]) "
             " and forall(j, Int, implies(0 <= j and j < k, not is_def_line(str_split1(getsource(func), '\\n')[j]))) "
             " and result == str_join('\\n', str_split1(getsource(func), '\\n')[k:]))) "
             "or (forall(j, Int, implies(0 <= j and j < len(str_split1(getsource(func), '\\n')), not is_def_line(str_split1(getsource(func), '\\n')[j]))) and result == getsource(func))"],
    loops={0: ["forall(j, Int, implies(0 <= j and j < index(0), not is_def_line(lines[j])))"]}),
}

MODULE = Module(
    prelude=PRELUDE, axioms=AX, declare_stable=True,
    stable={"fullname": STR, "version": Opt(STR), "source": STR, "func": OBJ, "compat": OBJ, "_task_options_override": "Opts", "_hash_includes": "Incs", "task": REF},
    ufuns={"hs": ([HS], STR), "vh_opts": (["Opts"], STR), "sorted_inc_hashes": (["Incs"], Seq(HS)), "src_of": ([OBJ], STR),
           "truthy_Opts": (["Opts"], BOOL), "truthy_Incs": (["Incs"], BOOL), "truthy": ([OBJ], BOOL), "hargs": (["Args"], STR), "args_view": ([REF], "Args"),
           "inner_hash": ([REF], STR), "getsource": ([OBJ], STR), "is_def_line": ([STR], BOOL), "str_split1": ([STR, STR], Seq(STR)), "str_join": ([STR, Seq(STR)], STR)},
    hooks={"coerce": coerce, "list_literal": list_literal}, sortnames={"HS": HS}, contracts=contracts,
)
VERIFY = ["Task._calc_hash", "PartialTask._calc_hash", "get_func_source"]

REPLAY_PER_OBLIGATION = True


def bounded_defs(tier, seed):
    from pvc import bounded
    return [bounded.run("C17", "generated-task-definitions", rule="single-component mutations of generated task definitions on the real Task class: every identity component changes the hash; definition-time options, include order, decorator lines do not; partial tasks reflect inner task and bound arguments")]


EXTRA_CHECKS = [bounded_defs]
EXPECTED_MIN_OBLIGATIONS = 15
TRUSTED = ["A-HASH + C14 (hash_struct injective)", "value hash of the override dict and sorted value hashes of the includes are injective in the abstract dict / multiset (A-HASH, A-SORT, C16)", "inspect.getsource, str.split, str.join, the regex '^ *def ' as uninterpreted functions (A-RE)"]
ASSUMPTIONS = ["the compat shortcut (tasks with a compat hash return it) is outside the contract (requires not compat)",
               "wraps_task passing the hidden inner task in hash_includes is covered by the bounded check of C37/C17 only",
               "get_func_source: returns the text from the first line matching '^ *def ' (loop invariant), relative to getsource/split/join as uninterpreted functions"]
