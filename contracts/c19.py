"""C19 Nested values are traversed and rebuilt faithfully -- contracts on iter_nested_value_children, iter_nested_value and map_nested_value
(redun/utils.py) over an inductive datatype of nested Python values:

  NV = NList(items) | NTuple(items) | NNamed(items, class) | NSet(items) | NDict(keys, values) | NData(field values, init flags, class) | NLeaf(obj)

(sets and dicts as sequences in the iteration order of the object, which both functions see alike).  Type tests of the code (type(value) is
list, isinstance(value, tuple) and hasattr(value, "_fields"), dataclasses.is_dataclass, ...) are read as constructor tests through axioms;
generators are verified through the ghost sequence of yielded values; map_nested_value recurses through its own contract (spec function mapv)."""
import ast
from pvc.smt import *
from pvc.core import Module, RaiseEx

PROPERTY = "C19"
U = "redun/utils.py"
NV = "NV"
PAIR = Tup(BOOL, NV)
KINDS = ["NList", "NTuple", "NNamed", "NSet", "NDict", "NData", "NLeaf"]
# NV as an uninterpreted sort with a kind tag and selector functions (the solvers are much faster on this than on a recursive datatype over Seq);
# constructors are functions axiomatised by what the selectors return on them
PRELUDE = """(declare-sort NV 0)
(declare-fun nvkind (NV) Int)
(declare-fun nl (NV) (Seq NV)) (declare-fun nt (NV) (Seq NV)) (declare-fun nn (NV) (Seq NV)) (declare-fun ns (NV) (Seq NV))
(declare-fun ndk (NV) (Seq NV)) (declare-fun ndv (NV) (Seq NV)) (declare-fun ndf (NV) (Seq NV)) (declare-fun ndinit (NV) (Seq Bool))
(declare-fun nncls (NV) Obj) (declare-fun ndcls (NV) Obj) (declare-fun nleaf (NV) Obj)
(declare-fun NList ((Seq NV)) NV) (declare-fun NTuple ((Seq NV)) NV) (declare-fun NNamed ((Seq NV) Obj) NV) (declare-fun NSet ((Seq NV)) NV)
(declare-fun NDict ((Seq NV) (Seq NV)) NV) (declare-fun NData ((Seq NV) (Seq Bool) Obj) NV)
"""


def isk(c, v):
    return f"(= (nvkind {v}) {KINDS.index(c)})"


DEFS = """
(define-fun type_of ((v NV)) Obj (ite %s |ty_list| (ite %s |ty_tuple| (ite %s |ty_set| (ite %s |ty_dict| (ite %s (nncls v) (ite %s (ndcls v) (|leaf_type| (nleaf v)))))))))
(define-fun items_of ((v NV)) (Seq NV) (ite %s (nl v) (ite %s (nt v) (ite %s (nn v) (ite %s (ns v) (as seq.empty (Seq NV)))))))
""" % tuple(isk(c, "v") for c in ["NList", "NTuple", "NSet", "NDict", "NNamed", "NData", "NList", "NTuple", "NNamed", "NSet"])
AX = [
 # range of the kind tag; what the selectors return on each constructor
 "(forall ((v NV)) (! (and (<= 0 (nvkind v)) (<= (nvkind v) 6)) :pattern ((nvkind v))))",
 "(forall ((s (Seq NV))) (! (and (= (nvkind (NList s)) 0) (= (nl (NList s)) s)) :pattern ((NList s))))",
 "(forall ((s (Seq NV))) (! (and (= (nvkind (NTuple s)) 1) (= (nt (NTuple s)) s)) :pattern ((NTuple s))))",
 "(forall ((s (Seq NV)) (c Obj)) (! (and (= (nvkind (NNamed s c)) 2) (= (nn (NNamed s c)) s) (= (nncls (NNamed s c)) c)) :pattern ((NNamed s c))))",
 "(forall ((s (Seq NV))) (! (and (= (nvkind (NSet s)) 3) (= (ns (NSet s)) s)) :pattern ((NSet s))))",
 "(forall ((k (Seq NV)) (w (Seq NV))) (! (and (= (nvkind (NDict k w)) 4) (= (ndk (NDict k w)) k) (= (ndv (NDict k w)) w)) :pattern ((NDict k w))))",
 "(forall ((f (Seq NV)) (i (Seq Bool)) (c Obj)) (! (and (= (nvkind (NData f i c)) 5) (= (ndf (NData f i c)) f) (= (ndinit (NData f i c)) i) (= (ndcls (NData f i c)) c)) :pattern ((NData f i c))))",
 # user classes and the types of leaves are none of the four builtin container types; dataclass-ness is a property of the class
 "(forall ((c Obj)) (! (=> (|named_cls| c) (and (not (|is_dataclass_type| c)) (distinct c |ty_list| |ty_tuple| |ty_set| |ty_dict|))) :pattern ((|named_cls| c))))",
 "(forall ((c Obj)) (! (=> (|data_cls| c) (and (|is_dataclass_type| c) (distinct c |ty_list| |ty_tuple| |ty_set| |ty_dict|))) :pattern ((|data_cls| c))))",
 "(forall ((o Obj)) (! (and (not (|is_dataclass_type| (|leaf_type| o))) (distinct (|leaf_type| o) |ty_list| |ty_tuple| |ty_set| |ty_dict|)) :pattern ((|leaf_type| o))))",
 "(and (not (|is_dataclass_type| |ty_list|)) (not (|is_dataclass_type| |ty_tuple|)) (not (|is_dataclass_type| |ty_set|)) (not (|is_dataclass_type| |ty_dict|)))",
 "(distinct |ty_list| |ty_tuple| |ty_set| |ty_dict|)",
 # the field list of a dataclass instance: one entry per field, in order (fields are represented by their index)
 "(forall ((n Int)) (! (= (seq.len (|idseq| n)) (ite (>= n 0) n 0)) :pattern ((|idseq| n))))",
 "(forall ((n Int) (i Int)) (! (=> (and (>= i 0) (< i n)) (= (seq.nth (|idseq| n) i) i)) :pattern ((seq.nth (|idseq| n) i))))",
]
WF = ["implies(is_NDict(value), len(ndk_of(value)) == len(ndv_of(value)))", "implies(is_NData(value), len(ndf_of(value)) == len(ndinit_of(value)) and data_cls(ndcls_of(value)))",
      "implies(is_NNamed(value), named_cls(nncls_of(value)))"]


def nvtest(c):
    return lambda e, n, st, old: T(BOOL, isk(c, e.ev(n.args[0], st, old).s))


def nvsel(sel, sort):
    return lambda e, n, st, old: T(sort, f"({sel} {e.ev(n.args[0], st, old).s})")


SPEC_LIB = {"is_NList(": nvtest("NList"), "is_NTuple(": nvtest("NTuple"), "is_NNamed(": nvtest("NNamed"), "is_NSet(": nvtest("NSet"), "is_NDict(": nvtest("NDict"),
            "is_NData(": nvtest("NData"), "is_NLeaf(": nvtest("NLeaf"), "nl_of(": nvsel("nl", Seq(NV)), "nt_of(": nvsel("nt", Seq(NV)), "nn_of(": nvsel("nn", Seq(NV)),
            "ns_of(": nvsel("ns", Seq(NV)), "ndk_of(": nvsel("ndk", Seq(NV)), "ndv_of(": nvsel("ndv", Seq(NV)), "ndf_of(": nvsel("ndf", Seq(NV)),
            "ndinit_of(": nvsel("ndinit", Seq(BOOL)), "nncls_of(": nvsel("nncls", OBJ), "ndcls_of(": nvsel("ndcls", OBJ), "items_of(": nvsel("items_of", Seq(NV))}


def lib_type(e, n, st, old):
    v = e.ev(n.args[0], st, old)
    if isinstance(v, T) and v.sort == NV:
        return T(OBJ, f"(type_of {v.s})")
    return NotImplemented


def lib_hasattr(e, n, st, old):
    v = e.ev(n.args[0], st, old)
    if isinstance(v, T) and v.sort == NV and isinstance(n.args[1], ast.Constant) and n.args[1].value == "_fields":
        return T(BOOL, isk('NNamed', v.s))
    return NotImplemented


def lib_fields(e, n, st, old):
    v = e.ev(n.args[0], st, old)
    return e.ctx.app("idseq", [INT], Seq(INT), [T(INT, f"(seq.len (ndf {v.s}))")])


def lib_getattr(e, n, st, old):
    v, i = e.ev(n.args[0], st, old), e.ev(n.args[1], st, old)
    if isinstance(v, T) and v.sort == NV and isinstance(i, T) and i.sort == INT:
        return T(NV, f"(seq.nth (ndf {v.s}) {i.s})")
    return NotImplemented


def lib_setattr(e, n, st, old, checked=True):
    """setattr(mapped_value, field.name, x): the field's slot of the dataclass instance under construction.  Plain setattr goes through the
    class's __setattr__, which raises FrozenInstanceError for a frozen dataclass; object.__setattr__ does not."""
    tgt = n.args[0]
    v, i, x = e.ev(tgt, st, old), e.ev(n.args[1], st, old), e.ev(n.args[2], st, old)
    if not (isinstance(tgt, ast.Name) and isinstance(v, T) and v.sort == NV and isinstance(i, T) and i.sort == INT):
        return NotImplemented
    if checked and e.branch(e.ctx.app("frozen_cls", [OBJ], BOOL, [T(OBJ, f"(ndcls {v.s})")]), st):
        raise RaiseEx("FrozenInstanceError", None, n.lineno)
    x = e.coerce(x, NV, "setattr")
    fs = e.ctx.fresh(Seq(NV), "fields")
    st.pc.append(f"(= (seq.len {fs.s}) (seq.len (ndf {v.s})))")
    st.pc.append(f"(= (seq.nth {fs.s} {i.s}) {x.s})")
    st.pc.append(f"(forall ((|q_su| Int)) (! (=> (and (>= |q_su| 0) (< |q_su| (seq.len {fs.s})) (not (= |q_su| {i.s}))) (= (seq.nth {fs.s} |q_su|) (seq.nth (ndf {v.s}) |q_su|))) :pattern ((seq.nth {fs.s} |q_su|))))")
    st.env[tgt.id] = T(NV, f"(NData {fs.s} (ndinit {v.s}) (ndcls {v.s}))")
    return T(NONE, "none")


def lib_is_dataclass(e, n, st, old):
    return e.ctx.app("is_dataclass_type", [OBJ], BOOL, [e.to_obj(e.ev(n.args[0], st, old))])


def lib_tuple(e, n, st, old):
    v = e.ev(n.args[0], st, old)
    if isinstance(v, T) and v.sort == Seq(NV):
        return T(NV, f"(NTuple {v.s})")
    return NotImplemented


def attr_hook(e, o, attr, st, old):
    # a dataclass field object is represented by its index
    if isinstance(o, T) and o.sort == INT and attr == "name":
        return o
    if isinstance(o, T) and o.sort == INT and attr == "init" and "value" in st.env:
        return T(BOOL, f"(seq.nth (ndinit {st.env['value'].s}) {o.s})")
    return NotImplemented


def iter_hook(e, v, st):
    if isinstance(v, T) and v.sort == NV:
        return T(Seq(NV), f"(items_of {v.s})")
    return None


def method_hook(e, recv, at, n, st, old):
    if isinstance(recv, T) and recv.sort == NV:
        if at == "keys":
            return T(Seq(NV), f"(ndk {recv.s})")
        if at == "values":
            return T(Seq(NV), f"(ndv {recv.s})")
        if at == "items":
            return ("zip", T(Seq(NV), f"(ndk {recv.s})"), T(Seq(NV), f"(ndv {recv.s})"))
    return None


def isinst(e, v, nm, st):
    if isinstance(v, T) and v.sort == NV and nm == "tuple":
        return f"(or {isk('NTuple', v.s)} {isk('NNamed', v.s)})"
    return None


def coerce(e, t, sort):
    if sort == NV and isinstance(t, T) and t.sort == Seq(NV):
        return T(NV, f"(NList {t.s})")     # a list display / list comprehension returned as a value
    return None


def pointwise(e, st, src, tag, build):
    """fresh sequence r with |r| = |src| and r[j] = build(j-th element term)"""
    r = e.ctx.fresh(Seq(NV), tag)
    st.pc.append(f"(= (seq.len {r.s}) (seq.len {src.s}))")
    j = f"|q_pw{e.ctx.n}|"
    st.pc.append(f"(forall (({j} Int)) (! (=> (and (>= {j} 0) (< {j} (seq.len {src.s}))) (= (seq.nth {r.s} {j}) {build(T(NV, f'(seq.nth {src.s} {j})'), j)})) :pattern ((seq.nth {r.s} {j}))))")
    return r


def eval_with(e, node, st, old, env):
    st2 = st.clone()
    st2.env.update(env)
    e.nofork += 1
    saved = e.spec_mode
    e.spec_mode = True
    e.in_code_comp = getattr(e, "in_code_comp", 0) + 1      # code of the repository evaluated in spec mode
    try:
        return e.ev(node, st2, old)
    finally:
        e.nofork -= 1
        e.spec_mode = saved
        e.in_code_comp -= 1


def comp_hook(e, n, st, old):
    if len(n.generators) != 1:
        return NotImplemented
    g = n.generators[0]
    src_txt = ast.unparse(g.iter)
    if isinstance(n, ast.SetComp) and isinstance(g.target, ast.Name):
        v = e.ev(g.iter, st, old)
        if isinstance(v, T) and v.sort == NV:
            r = pointwise(e, st, T(Seq(NV), f"(ns {v.s})"), "setc", lambda el, j: e.coerce(eval_with(e, n.elt, st, old, {g.target.id: el}), NV).s)
            return T(NV, f"(NSet {r.s})")
    if isinstance(n, ast.DictComp) and src_txt.endswith(".items()") and isinstance(g.target, ast.Tuple):
        v = e.ev(g.iter.func.value, st, old)
        if isinstance(v, T) and v.sort == NV:
            kn, vn = g.target.elts[0].id, g.target.elts[1].id
            ks = pointwise(e, st, T(Seq(NV), f"(ndk {v.s})"), "dkeys", lambda el, j: e.coerce(eval_with(e, n.key, st, old, {kn: el, vn: T(NV, f"(seq.nth (ndv {v.s}) {j})")}), NV).s)
            vs = pointwise(e, st, T(Seq(NV), f"(ndv {v.s})"), "dvals", lambda el, j: e.coerce(eval_with(e, n.value, st, old, {vn: el, kn: T(NV, f"(seq.nth (ndk {v.s}) {j})")}), NV).s)
            return T(NV, f"(NDict {ks.s} {vs.s})")
    dom = e.ev(g.iter, st, old) if isinstance(n, ast.DictComp) and isinstance(g.target, ast.Name) else None
    if isinstance(dom, T) and dom.sort == Seq(INT) and "idseq" in dom.s and "value" in st.env:
        # {field.name: <expr> for field in dataclasses.fields(value) if field.init}: constructor keywords for the init fields
        v = st.env["value"]
        fs = e.ctx.fresh(Seq(NV), "initfields")
        st.pc.append(f"(= (seq.len {fs.s}) (seq.len (ndf {v.s})))")
        j = f"|q_if{e.ctx.n}|"
        el = e.coerce(eval_with(e, n.value, st, old, {g.target.id: T(INT, j)}), NV)
        cond = conj([e.truth(eval_with(e, c_, st, old, {g.target.id: T(INT, j)})).s for c_ in g.ifs])
        key = eval_with(e, n.key, st, old, {g.target.id: T(INT, j)})
        if not (isinstance(key, T) and key.s == j):
            return NotImplemented
        st.pc.append(f"(forall (({j} Int)) (! (=> (and (>= {j} 0) (< {j} (seq.len {fs.s})) {cond}) (= (seq.nth {fs.s} {j}) {el.s})) :pattern ((seq.nth {fs.s} {j}))))")
        return ("initmap", fs, v)
    return NotImplemented


def call_hook(e, n, st, old):
    f = n.func
    callee = st.env.get(f.id) if isinstance(f, ast.Name) else None
    if isinstance(callee, T) and callee.s.startswith("(type_of ") and "value" in st.env:       # a call of the local that holds type(value), whatever it is called
        v = st.env["value"]
        if len(n.args) == 1 and isinstance(n.args[0], ast.Starred):      # value_type(*[...]): a namedtuple of the same class
            xs = e.ev(n.args[0].value, st, old)
            if isinstance(xs, T) and xs.sort == Seq(NV):
                return T(NV, f"(NNamed {xs.s} (type_of {v.s}))")
        if not n.args and len(n.keywords) == 1 and n.keywords[0].arg is None:     # value_type(**{...}): a dataclass instance built from its init fields
            m = e.ev(n.keywords[0].value, st, old)
            if isinstance(m, tuple) and m and m[0] == "initmap":
                return T(NV, f"(NData {m[1].s} (ndinit {m[2].s}) (type_of {v.s}))")
    if isinstance(f, ast.Name) and f.id == "func" and len(n.args) == 1:
        x = e.ev(n.args[0], st, old)
        if isinstance(x, T) and x.sort == NV:
            return e.ctx.app("fres", [OBJ, NV], NV, [st.env["func"], x])
    return NotImplemented


LIB = dict(SPEC_LIB, **{"type(": lib_type, "hasattr(": lib_hasattr, "dataclasses.fields(": lib_fields, "getattr(": lib_getattr, "setattr(": lib_setattr, "object.__setattr__(": lambda e, n, st, old: lib_setattr(e, n, st, old, checked=False),
                        "dataclasses.is_dataclass(": lib_is_dataclass, "tuple(": lib_tuple})
SAMEPOS = "len({r}) == len({s}) and forall(j, Int, implies(0 <= j and j < len({s}), {r}[j] == mapv(func, {s}[j])))"
contracts = {
 "iter_nested_value_children": dict(where=f"{U}:iter_nested_value_children", params={"value": NV}, yields=Seq(PAIR), requires=WF, no_raise=True,
    loops={"=value|": dict(inv=["len(yielded) == index()", "forall(j, Int, implies(0 <= j and j < index(), yielded[j] == (False, items_of(value)[j])))"]),
           "value.keys()|": dict(inv=["len(yielded) == index()", "forall(j, Int, implies(0 <= j and j < index(), yielded[j] == (False, ndk_of(value)[j])))"]),
           "value.values()|": dict(inv=["len(yielded) == len(ndk_of(value)) + index()", "forall(j, Int, implies(0 <= j and j < len(ndk_of(value)), yielded[j] == (False, ndk_of(value)[j])))",
                                        "forall(j, Int, implies(0 <= j and j < index(), yielded[len(ndk_of(value)) + j] == (False, ndv_of(value)[j])))"]),
           "|getattr": dict(inv=["len(yielded) == index()", "forall(j, Int, implies(0 <= j and j < index(), yielded[j] == (False, ndf_of(value)[j])))"])},
    # the children of a container, in order (dict: keys then values; dataclass: every field, init or not); a leaf yields itself, flagged
    ensures=["implies(is_NList(value) or is_NTuple(value) or is_NNamed(value) or is_NSet(value), len(yielded) == len(items_of(value)) and "
             " forall(j, Int, implies(0 <= j and j < len(items_of(value)), yielded[j] == (False, items_of(value)[j]))))",
             "implies(is_NDict(value), len(yielded) == len(ndk_of(value)) + len(ndv_of(value)) and forall(j, Int, implies(0 <= j and j < len(ndk_of(value)), yielded[j] == (False, ndk_of(value)[j]))) "
             " and forall(j, Int, implies(0 <= j and j < len(ndv_of(value)), yielded[len(ndk_of(value)) + j] == (False, ndv_of(value)[j]))))",
             "implies(is_NData(value), len(yielded) == len(ndf_of(value)) and forall(j, Int, implies(0 <= j and j < len(ndf_of(value)), yielded[j] == (False, ndf_of(value)[j]))))",
             "implies(is_NLeaf(value), len(yielded) == 1 and yielded[0] == (True, value))"]),
 "map_nested_value": dict(where=f"{U}:map_nested_value", params={"func": OBJ, "value": NV}, returns=NV, pure="mapv"),
 "map_nested_value[body]": dict(where=f"{U}:map_nested_value", params={"func": OBJ, "value": NV}, returns=NV, requires=WF, no_raise=True,
    locals={"mapped_value": NV},
    loops={"fields|": dict(inv=["is_NData(mapped_value) and len(ndf_of(mapped_value)) == len(ndf_of(value)) and ndinit_of(mapped_value) == ndinit_of(value) and ndcls_of(mapped_value) == ndcls_of(value)",
                                                     "forall(j, Int, implies(0 <= j and j < len(ndf_of(value)) and (ndinit_of(value)[j] or j < index()), ndf_of(mapped_value)[j] == mapv(func, ndf_of(value)[j])))"]),
           "set(value.__dict__.keys())|": dict(inv=[], modifies=[])},
    # same constructor, same length / key positions / field flags / class, every position mapped recursively; a leaf becomes func(leaf)
    ensures=["implies(is_NList(value), is_NList(result) and " + SAMEPOS.format(r="nl_of(result)", s="nl_of(value)") + ")",
             "implies(is_NTuple(value), is_NTuple(result) and " + SAMEPOS.format(r="nt_of(result)", s="nt_of(value)") + ")",
             "implies(is_NNamed(value), is_NNamed(result) and nncls_of(result) == nncls_of(value) and " + SAMEPOS.format(r="nn_of(result)", s="nn_of(value)") + ")",
             "implies(is_NSet(value), is_NSet(result) and " + SAMEPOS.format(r="ns_of(result)", s="ns_of(value)") + ")",
             "implies(is_NDict(value), is_NDict(result) and " + SAMEPOS.format(r="ndk_of(result)", s="ndk_of(value)") + " and " + SAMEPOS.format(r="ndv_of(result)", s="ndv_of(value)") + ")",
             "implies(is_NData(value), is_NData(result) and ndcls_of(result) == ndcls_of(value) and ndinit_of(result) == ndinit_of(value) and " + SAMEPOS.format(r="ndf_of(result)", s="ndf_of(value)") + ")",
             "implies(is_NLeaf(value), result == fres(func, value))"]),
 # the leaf iterator yields exactly the leaves: x is yielded iff leafof(value, x), where leafof is defined through the children function
 # (a flagged child is that leaf; an unflagged child contributes its own leaves): leafof(v, x) <=> cov(children(v), x)
 "iter_nested_value": dict(where=f"{U}:iter_nested_value", params={"value": NV}, yields=Seq(NV), locals={"stack": Seq(PAIR)}, no_raise=True,
    on_yield=lambda e, st, cur, new, v: st.pc.append(f"(forall ((x NV)) (! (= (|in_el| {new.s} x) (or (|in_el| {cur.s} x) (= x {v.s}))) :pattern ((|in_el| {new.s} x))))"),
    on_pop=lambda e, st, cur, new, last: st.pc.append(f"(forall ((x NV)) (! (= (|cov| {cur.s} x) (or (|cov| {new.s} x) (|cov1| {last.s} x))) :pattern ((|cov| {cur.s} x)) :pattern ((|cov| {new.s} x))))"),
    on_extend=lambda e, st, cur, new, ext: st.pc.append(f"(forall ((x NV)) (! (= (|cov| {new.s} x) (or (|cov| {cur.s} x) (|cov| {ext.s} x))) :pattern ((|cov| {new.s} x))))"),
    loops={0: dict(inv=["forall(x, NV, leafof(old(value), x) == (in_el(yielded, x) or cov(stack, x)))"])},
    ensures=["forall(x, NV, in_el(yielded, x) == leafof(old(value), x))"]),
 # the children function by name (its content is the contract of iter_nested_value_children verified in the first module)
 "iter_nested_value_children#": dict(where=f"{U}:iter_nested_value_children", params={"value": NV}, returns=Seq(PAIR), pure="chseq"),
}
MODULE = Module(prelude=PRELUDE, defs_text=DEFS, defs={"items_of": ([NV], Seq(NV)), "type_of": ([NV], OBJ)}, axioms=AX, sortnames={"NV": NV},
                ufuns={"frozen_cls": ([OBJ], BOOL), "named_cls": ([OBJ], BOOL), "data_cls": ([OBJ], BOOL), "leaf_type": ([OBJ], OBJ), "is_dataclass_type": ([OBJ], BOOL), "idseq": ([INT], Seq(INT)), "mapv": ([OBJ, NV], NV), "fres": ([OBJ, NV], NV),
                       "ty_list": ([], OBJ), "ty_tuple": ([], OBJ), "ty_set": ([], OBJ), "ty_dict": ([], OBJ)},
                consts={"list": (OBJ, "|ty_list|"), "tuple": (OBJ, "|ty_tuple|"), "set": (OBJ, "|ty_set|"), "dict": (OBJ, "|ty_dict|")},
                lib=LIB, hooks={"attr": attr_hook, "iter": iter_hook, "method": method_hook, "isinstance": isinst, "coerce": coerce, "comp": comp_hook, "call": call_hook},
                contracts={"iter_nested_value_children": contracts["iter_nested_value_children"], "map_nested_value": contracts["map_nested_value"], "map_nested_value[body]": contracts["map_nested_value[body]"]})
IAX = [
 "(forall ((v NV) (x NV)) (! (= (|leafof| v x) (|cov| (|chseq| v) x)) :pattern ((|leafof| v x)) :pattern ((|cov| (|chseq| v) x))))",
 "(forall ((e %s) (x NV)) (! (= (|cov1| e x) (ite (f0_%s e) (= (f1_%s e) x) (|leafof| (f1_%s e) x))) :pattern ((|cov1| e x))))",
 "(forall ((e %s) (x NV)) (! (= (|cov| (seq.unit e) x) (|cov1| e x)) :pattern ((|cov| (seq.unit e) x))))",
 "(forall ((x NV)) (! (not (|cov| (as seq.empty (Seq %s)) x)) :pattern ((|cov| (as seq.empty (Seq %s)) x))))",
 "(forall ((s (Seq %s)) (x NV)) (! (=> (= (seq.len s) 0) (not (|cov| s x))) :pattern ((|cov| s x))))",
 "(forall ((x NV)) (! (not (|in_el| (as seq.empty (Seq NV)) x)) :pattern ((|in_el| (as seq.empty (Seq NV)) x))))",
]
IAX = [IAX[0],
       IAX[1] % (sort_smt(PAIR), mangle(PAIR), mangle(PAIR), mangle(PAIR)),
       IAX[2] % (sort_smt(PAIR),),
       IAX[3] % (sort_smt(PAIR), sort_smt(PAIR)),
       IAX[4] % (sort_smt(PAIR),),
       IAX[5]]
ITER_MODULE = Module(prelude="(declare-sort NV 0)", sortnames={"NV": NV}, axioms=IAX,
                     ufuns={"leafof": ([NV, NV], BOOL), "cov": ([Seq(PAIR), NV], BOOL), "cov1": ([PAIR, NV], BOOL), "in_el": ([Seq(NV), NV], BOOL), "chseq": ([NV], Seq(PAIR))},
                     contracts={"iter_nested_value": contracts["iter_nested_value"], "iter_nested_value_children": contracts["iter_nested_value_children#"]})
MODULES = [(MODULE, ["iter_nested_value_children", "map_nested_value[body]"]), (ITER_MODULE, ["iter_nested_value"])]


def bounded_values(tier, seed):
    from pvc import bounded
    return [bounded.run(PROPERTY, "generated-nested-values", env={"C19_DEPTH": "3" if tier == "quick" else "4"}, timeout=3000, rule="all values of depth <= 3 (quick) / 4 (thorough), width <= 2 over list, tuple, namedtuple, set, dict (container keys included), dataclass (init and non-init fields, frozen) and scalars: "
                        "map_nested_value rebuilds the same types and shape with func applied at exactly the leaves iter_nested_value yields (as multisets, in the same order for ordered containers); "
                        "workflows returning expressions inside such containers evaluate them")]


EXTRA_CHECKS = [bounded_values]
EXPECTED_MIN_OBLIGATIONS = 40
TRUSTED = ["the datatype NV as the image of Python values (type tests as constructor tests; sets / dicts in the object's iteration order; a dataclass as its field values, init flags and class)",
           "dataclasses.fields / getattr / setattr / the class constructor on dataclass instances as field-slot operations", "func as an uninterpreted function of the leaf"]
ASSUMPTIONS = [
    "iter_nested_value: proved as a statement about SETS -- x is yielded iff leafof(value, x), where leafof(v, x) <=> some child entry of v covers x (a flagged child is x itself, an unflagged child has x among its leaves); that each leaf OCCURRENCE is yielded exactly once (multiplicities) and that map_nested_value calls func once per occurrence are compared by the bounded check only",
    "leafof is specified by the fixpoint equation above; the loop invariant proof holds for every predicate satisfying it (for finite values it is unique)",
    "mapping a non-injective function over a set may merge elements: NSet is the sequence of mapped elements before de-duplication",
    "the copy of extra __dict__ entries of a dataclass instance (generic aliases) is outside the datatype",
    "'expressions nested anywhere in such containers are evaluated' (Scheduler.evaluate) is exercised by the bounded check",
]
