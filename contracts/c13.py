"""C13 Promises settle once and notify every callback exactly once -- contracts on the real redun/promise.py.
Callbacks are arbitrary re-entrant code: at every callout the object invariants are asserted and all promise state
is havocked subject to the two-state relation 'settled stays settled with the same outcome' plus the invariants."""
import ast
from pvc.smt import *
from pvc.core import Module, RaiseEx

PROPERTY = "C13"
P = "redun/promise.py"
FIELDS = {"is_pending": BOOL, "is_fulfilled": Opt(BOOL), "is_rejected": Opt(BOOL), "_value": OBJ, "_error": OBJ,
          "_resolvers": Seq(OBJ), "_rejectors": Seq(OBJ)}

# flags are consistent: pending, or fulfilled xor rejected
FL = ("forall(p, Ref, (p.is_pending and p.is_fulfilled != Some(True) and p.is_rejected != Some(True)) or "
      "(not p.is_pending and p.is_fulfilled == Some(True) and p.is_rejected == Some(False)) or "
      "(not p.is_pending and p.is_fulfilled == Some(False) and p.is_rejected == Some(True)))")
# at a boundary (no method of p active) a settled promise has no waiting callbacks
QUIET = "forall(p, Ref, implies(not p.is_pending, len(p._resolvers) == 0 and len(p._rejectors) == 0))"
QUIET_OTHERS = "forall(p, Ref, implies(not p.is_pending and p != self, len(p._resolvers) == 0 and len(p._rejectors) == 0))"
# two-state: a settled promise keeps its outcome
STABLE = ("forall(p, Ref, implies(not old(p.is_pending), not p.is_pending and p.is_fulfilled == old(p.is_fulfilled) and "
          "p.is_rejected == old(p.is_rejected) and p._value == old(p._value) and p._error == old(p._error)))")


def callout(eng, n, st, old, own_log=True, may_raise=False):
    """call of a user callback: invariants asserted, state havocked under STABLE + FL + QUIET(others and, when settled, self)"""
    args = [eng.ev(a, st, old) for a in n.args]
    callee = eng.ev(n.func, st, old)
    line = n.lineno
    key = eng.callee_key(n.func)
    cnt = eng.call_ord.get(id(n), 0)
    eng.oblige(f"{eng.cur}/callout-inv[{key}#{cnt}].flags", "callout-inv", st, eng.spec(FL, st, eng.entry), line)
    eng.oblige(f"{eng.cur}/callout-inv[{key}#{cnt}].quiet", "callout-inv", st, eng.spec(QUIET, st, eng.entry), line)
    site = eng.cur_contract.get("callout_site", {}).get(key)
    if site:
        stb = st.clone()
        for i, a in enumerate(args):
            stb.env[f"arg{i}"] = a
        for i, e in enumerate(site):
            eng.oblige(f"{eng.cur}/at[{key}#{cnt}].{i}", "at", st, eng.spec(e, stb, eng.entry), line)
    if own_log and "mine" in st.ghost:
        m = st.ghost["mine"]
        st.ghost["mine"] = T(m.sort, f"(seq.++ {m.s} (seq.unit {eng.to_obj(callee).s}))")
    before = st.clone()
    for f in FIELDS:
        st.heap[f] = eng.ctx.fresh(("Array", REF, FIELDS[f]), "H_" + f)
    st.ver += 1
    for e in (STABLE, FL, QUIET):
        st.pc.append(eng.spec(e, st, before).s)
    if may_raise and eng.choice(2) == 1:
        raise RaiseEx("Exception?", None, line)
    return eng.opaque("cb_result")


def new_promise(eng, n, st, old):
    """Promise(): a fresh pending promise without callbacks, distinct from every promise in scope (A-NEW)"""
    r = eng.opaque("new_promise", REF, "Promise")
    for v in st.env.values():
        if isinstance(v, T) and v.sort == REF:
            st.pc.append(f"(not (= {r.s} {v.s}))")
    init = {"is_pending": "true", "is_fulfilled": "None_Bool", "is_rejected": "None_Bool", "_resolvers": "(as seq.empty (Seq Obj))", "_rejectors": "(as seq.empty (Seq Obj))"}
    # freshness: the object was not reachable before, so it is pending with empty lists in the current heap
    for f, v in init.items():
        st.pc.append(f"(= (select {eng.field(st, f).s} {r.s}) {v})")
    return r


contracts = {
 "Promise.do_resolve": dict(where=f"{P}:Promise.do_resolve", params={"self": REF, "result": OBJ}, returns=OBJ,
    requires=[FL, QUIET], ensures=[FL, QUIET, STABLE, "result == result",
        "implies(old(self.is_pending), not self.is_pending and self.is_fulfilled == Some(True) and self._value == result)"],
    modifies=list(FIELDS)),
 "Promise.do_reject": dict(where=f"{P}:Promise.do_reject", params={"self": REF, "error": OBJ}, returns=OBJ,
    requires=[FL, QUIET], ensures=[FL, QUIET, STABLE,
        "implies(old(self.is_pending), not self.is_pending and self.is_rejected == Some(True) and self._error == error)"],
    modifies=list(FIELDS)),
 "Promise._notify": dict(where=f"{P}:Promise._notify", params={"self": REF},
    requires=[FL, QUIET_OTHERS], ghost_local={"mine": Seq(OBJ)}, ghost_init=["len(mine) == 0"],
    ensures=[FL, QUIET, STABLE,
        # exactly the callbacks waiting on the matching side are invoked by this call, once each, in list (= registration) order
        "implies(old(not self.is_pending and self.is_fulfilled == Some(True)), mine == old(self._resolvers))",
        "implies(old(not self.is_pending and self.is_rejected == Some(True)), mine == old(self._rejectors))",
        "implies(old(self.is_pending), len(mine) == 0 and self._resolvers == old(self._resolvers) and self._rejectors == old(self._rejectors) and self.is_pending)"],
    modifies=list(FIELDS),
    lib={"resolver(": callout, "rejector(": callout},
    callout_site={"resolver": ["arg0 == self._value", "not self.is_pending",
                               # re-entrant registrations must not overtake callbacks registered earlier
                               "index(0) == len(resolvers) - 1"],
                  "rejector": ["arg0 == self._error", "not self.is_pending", "index(1) == len(rejectors) - 1"]},
    loops={0: ["mine == resolvers[:index(0)]", FL, QUIET, "not self.is_pending and self.is_fulfilled == Some(True)",
               "self._value == old(self._value)", STABLE],
           1: ["mine == rejectors[:index(1)]", FL, QUIET, "not self.is_pending and self.is_rejected == Some(True)",
               "self._error == old(self._error)", STABLE]}),
 "Promise.then": dict(where=f"{P}:Promise.then", params={"self": REF, "resolver": Opt(OBJ), "rejector": Opt(OBJ)}, returns=REF,
    requires=[FL, QUIET], ensures=[FL, QUIET, STABLE,
        "implies(old(self.is_pending) and self.is_pending, len(self._resolvers) == len(old(self._resolvers)) + 1 and len(self._rejectors) == len(old(self._rejectors)) + 1)",
        "implies(old(self.is_pending) and self.is_pending, forall(i, Int, implies(0 <= i and i < len(old(self._resolvers)), self._resolvers[i] == old(self._resolvers)[i])))",
        "implies(old(self.is_pending) and self.is_pending, forall(i, Int, implies(0 <= i and i < len(old(self._rejectors)), self._rejectors[i] == old(self._rejectors)[i])))"],
    modifies=list(FIELDS),
    lib={"Promise()": new_promise}),
 "wrapper": dict(where=f"{P}:Promise.then.wrap_callback.wrapper", params={"result_or_error": OBJ, "func": OBJ, "promise": REF},
    classes={"promise": "Promise", "result2": "Promise"},
    requires=[FL, QUIET], ensures=[FL, QUIET, STABLE, "outcome != 0"], no_raise=True,
    ghost={"outcome": INT}, ghost_init=["outcome == 0"],
    lib={"func(": lambda e, n, st, old: callout(e, n, st, old, own_log=False, may_raise=True)},
    before_call={("Promise.do_resolve", 0): ["not isinst_Promise(arg0)", "outcome == 0"], ("Promise.do_reject", 0): ["outcome == 0"],
                 ("Promise.then", 0): ["outcome == 0"]},
    after_call={("Promise.do_resolve", 0): "outcome = 1", ("Promise.do_reject", 0): "outcome = 3", ("Promise.then", 0): "outcome = 2"},
    opaque_raises=True),
 "all.then": dict(where=f"{P}:Promise.all.then", params={"i": INT, "result": OBJ, "results": Seq(OBJ), "num_done": INT, "promise": REF},
    classes={"promise": "Promise"},
    requires=[FL, QUIET, "0 <= i and i < len(results)", "0 <= num_done and num_done < len(results)"],
    ensures=[FL, QUIET, STABLE, "final(num_done) == num_done + 1", "len(final(results)) == len(results)", "final(results)[i] == result",
             "forall(j, Int, implies(0 <= j and j < len(results) and j != i, final(results)[j] == results[j]))",
             "implies(num_done + 1 == len(results) and old(promise.is_pending), promise.is_fulfilled == Some(True))",
             "implies(num_done + 1 != len(results), promise.is_pending == old(promise.is_pending))"]),
 "all.fail": dict(where=f"{P}:Promise.all.fail", params={"error": OBJ, "promise": REF}, classes={"promise": "Promise"},
    requires=[FL, QUIET], ensures=[FL, QUIET, STABLE, "implies(old(promise.is_pending), promise.is_rejected == Some(True) and promise._error == error)"]),
 "wait.done": dict(where=f"{P}:wait_promises.done", params={"result_or_error": OBJ, "num_done": INT, "subpromises": Seq(OBJ), "promise": REF},
    classes={"promise": "Promise"},
    requires=[FL, QUIET, "0 <= num_done and num_done < len(subpromises)"],
    ensures=[FL, QUIET, STABLE, "final(num_done) == num_done + 1",
             "implies(num_done + 1 == len(subpromises) and old(promise.is_pending), promise.is_fulfilled == Some(True))",
             "implies(num_done + 1 != len(subpromises), promise.is_pending == old(promise.is_pending))"]),
}
# ghost declared through ghost+ghost_init for the wrapper (visible to its site specs)
contracts["wrapper"]["ghost_local"] = contracts["wrapper"].pop("ghost")

MODULE = Module(fields=FIELDS, classes={"self": "Promise"}, ufuns={"isinst_Promise": ([OBJ], BOOL)}, contracts=contracts)
VERIFY = ["Promise.do_resolve", "Promise.do_reject", "Promise._notify", "Promise.then", "wrapper", "all.then", "all.fail", "wait.done"]

REPLAY_PER_OBLIGATION = True


def bounded_histories(tier, seed):
    from pvc import bounded
    return [bounded.run("C13", "operation-histories", rule="all histories of <= 4 operations on one promise (settle-once, exactly-once notification), chaining, Promise.all / wait_promises over all settlement orders of 3 inputs; the ordering clause under re-entrant registration is the recorded known finding and is decided by the SMT obligation, not here")]


EXTRA_CHECKS = [bounded_histories]
EXPECTED_MIN_OBLIGATIONS = 100
TRUSTED = ["A-NEW (Promise() yields a fresh object)", "callbacks are arbitrary re-entrant code constrained only by the class's own two-state invariant"]
ASSUMPTIONS = [
    "re-entrant callbacks can change any promise, but only through the class's methods: settled promises keep their outcome, flags stay consistent, settled promises have no waiting callbacks at method boundaries",
    "Promise() returns an object distinct from every promise in scope",
    "Promise.all's registration loop and wait_promises' loop are not under contract (their closures then/fail/done are); that each closure runs at most once per input follows from _notify's exactly-once contract on the input promises, stated over contracts",
    "single-threaded use (the scheduler thread)",
]
