"""C34 Tag values survive display and re-parsing -- contracts on redun/tags.py over a JSON value datatype with
library axioms for json / int / float / the regex."""
import ast
from pvc.smt import *
from pvc.core import Module, RaiseEx

PROPERTY = "C34"
TG = "redun/tags.py"
JV = "JV"
PRELUDE = "(declare-sort JComp 0)\n(declare-sort Flt 0)\n(declare-datatypes ((JV 0)) (((JStr (jstr String)) (JInt (jint Int)) (JFloat (jflt Flt)) (JBool (jbool Bool)) (JNull) (JList (jl JComp)) (JDict (jd JComp)))))"

SPECIAL = '(or (= (str.at {s} 0) "[") (= (str.at {s} 0) "{{") (= (str.at {s} 0) "\\u{{22}}"))'
DEFS = """
(define-fun special ((s String)) Bool (or (= (str.at s 0) "[") (= (str.at s 0) "{") (= (str.at s 0) "\\u{22}")))
(define-fun is_lit ((s String)) Bool (or (= s "true") (= s "false") (= s "null")))
(define-fun lit_val ((s String)) JV (ite (= s "true") (JBool true) (ite (= s "false") (JBool false) JNull)))
(define-fun parse_raises ((s String)) Bool (and (> (str.len s) 0) (special s) (not (|json_ok| s))))
(define-fun parse_spec ((s String)) JV
  (ite (= (str.len s) 0) JNull
  (ite (special s) (|json_val| s)
  (ite (|is_dec| s) (JInt (|undec| s))
  (ite (|is_float| s) (JFloat (|fval| s))
  (ite (is_lit s) (lit_val s) (JStr s)))))))
"""
AX = [
 # --- A-JSON: json.dumps / json.loads on JSON-compatible values
 "(forall ((v JV)) (! (and (|json_ok| (|dumps| v)) (= (|json_val| (|dumps| v)) v)) :pattern ((|dumps| v))))",
 "(forall ((v JV)) (! (=> ((_ is JStr) v) (and (> (str.len (|dumps| v)) 1) (= (str.at (|dumps| v) 0) \"\\u{22}\"))) :pattern ((|dumps| v))))",
 "(forall ((v JV)) (! (=> ((_ is JList) v) (= (str.at (|dumps| v) 0) \"[\")) :pattern ((|dumps| v))))",
 "(forall ((v JV)) (! (=> ((_ is JDict) v) (= (str.at (|dumps| v) 0) \"{\")) :pattern ((|dumps| v))))",
 "(forall ((v JV)) (! (=> ((_ is JInt) v) (= (|dumps| v) (|dec| (jint v)))) :pattern ((|dumps| v))))",
 "(forall ((v JV)) (! (=> ((_ is JFloat) v) (= (|dumps| v) (|fstr| (jflt v)))) :pattern ((|dumps| v))))",
 "(= (|dumps| (JBool true)) \"true\")", "(= (|dumps| (JBool false)) \"false\")", "(= (|dumps| JNull) \"null\")",
 # json.loads of a text starting with a quote is a string; with [ / { a list / dict (so never the same kind of value as an int, float, literal)
 # --- A-DEC: decimal integers
 "(forall ((n Int)) (! (and (|is_dec| (|dec| n)) (= (|undec| (|dec| n)) n) (> (str.len (|dec| n)) 0) (not (special (|dec| n)))) :pattern ((|dec| n))))",
 # --- floats (finite, JSON-compatible): repr round trip; a float repr is not an integer literal and does not start like JSON
 "(forall ((f Flt)) (! (and (|is_float| (|fstr| f)) (= (|fval| (|fstr| f)) f) (not (|is_dec| (|fstr| f))) (> (str.len (|fstr| f)) 0) (not (special (|fstr| f)))) :pattern ((|fstr| f))))",
 # --- string-theory helper lemmas (valid in the theory of strings; stated so that E-matching finds them)
 "(forall ((s String)) (! (= (str.prefixof \"[\" s) (= (str.at s 0) \"[\")) :pattern ((str.at s 0))))",
 "(forall ((s String)) (! (= (str.prefixof \"{\" s) (= (str.at s 0) \"{\")) :pattern ((str.at s 0))))",
 "(forall ((s String)) (! (= (str.prefixof \"\\u{22}\" s) (= (str.at s 0) \"\\u{22}\")) :pattern ((str.at s 0))))",
 # --- the three literals are neither ints nor floats
 "(not (|is_dec| \"true\"))", "(not (|is_dec| \"false\"))", "(not (|is_dec| \"null\"))",
 "(not (|is_float| \"true\"))", "(not (|is_float| \"false\"))", "(not (|is_float| \"null\"))",
]


def isinst(eng, v, nm, st):
    if v.sort == JV and nm == "str":
        return f"((_ is JStr) {v.s})"
    return None


def coerce(eng, t, sort):
    if not isinstance(t, T):
        return None
    if sort == STR and t.sort == JV:
        return T(STR, f"(jstr {t.s})")
    if sort == JV and t.sort == STR:
        return T(JV, f"(JStr {t.s})")
    if sort == JV and t.sort == INT:
        return T(JV, f"(JInt {t.s})")
    if sort == JV and t.sort == "Flt":
        return T(JV, f"(JFloat {t.s})")
    if sort == JV and t.sort == NONE:
        return T(JV, "JNull")
    if sort == JV and t.sort == BOOL:
        return T(JV, f"(JBool {t.s})")
    return None


def json_loads(eng, n, st, old):
    s = eng.coerce(eng.ev(n.args[0], st, old), STR)
    ok = eng.ctx.app("json_ok", [STR], BOOL, [s])
    if eng.branch(ok, st):
        return eng.ctx.app("json_val", [STR], JV, [s])
    raise RaiseEx("JSONDecodeError", None, n.lineno)


def json_dumps(eng, n, st, old):
    v = eng.coerce(eng.ev(n.args[0], st, old), JV)
    return eng.ctx.app("dumps", [JV], STR, [v])


def to_float(eng, n, st, old):
    s = eng.coerce(eng.ev(n.args[0], st, old), STR)
    ok = eng.ctx.app("is_float", [STR], BOOL, [s])
    if eng.branch(ok, st):
        return eng.ctx.app("fval", [STR], "Flt", [s])
    raise RaiseEx("ValueError", None, n.lineno)


def re_match(eng, n, st, old):
    """A-RE: re.match('.*[ ,].*', s) succeeds iff the first line of s contains a space or a comma"""
    pat = n.args[0].value if isinstance(n.args[0], ast.Constant) else None
    s = eng.coerce(eng.ev(n.args[1], st, old), STR)
    if pat != ".*[ ,].*":
        return NotImplemented
    return eng.ctx.app("has_space_or_comma", [STR], BOOL, [s])


contracts = {
 "str2literal": dict(where=f"{TG}:str2literal", params={"value_str": STR}, returns=JV,
    ensures=["is_lit(value_str)", "result == lit_val(value_str)"], raises={"ValueError": "not is_lit(value_str)"},
    lib={"lookup[value_str]": None}),
 "parse_tag_value": dict(where=f"{TG}:parse_tag_value", params={"value_str": STR}, returns=JV,
    ensures=["result == parse_spec(value_str)", "not parse_raises(value_str)"],
    raises={"ValueError": "parse_raises(value_str)"}),
 "format_tag_value": dict(where=f"{TG}:format_tag_value", params={"value": JV}, returns=STR,
    no_raise=True,
    ensures=["not parse_raises(result)", "parse_spec(result) == value"]),
}
del contracts["str2literal"]["lib"]


def dict_hook(eng, n, ks, vs, st):
    """the literal lookup table of str2literal"""
    if all(isinstance(k, T) and k.sort == STR for k in ks):
        st.env["$lookup_keys"] = ks
        st.env["$lookup_vals"] = [eng.coerce(v, JV) for v in vs]
        return T("Lookup", "lookup_tbl")
    return None


def contains_hook(eng, op, a, b, st, n):
    if isinstance(b, T) and b.sort == "Lookup" and isinstance(op, (ast.In, ast.NotIn)):
        ks = st.env["$lookup_keys"]
        r = "(or " + " ".join(f"(= {a.s} {k.s})" for k in ks) + ")"
        return T(BOOL, r if isinstance(op, ast.In) else f"(not {r})")
    return None


def subscript_hook(eng, n, a, k, st):
    if a.sort == "Lookup":
        ks, vs = st.env["$lookup_keys"], st.env["$lookup_vals"]
        e = vs[-1].s
        for kk, vv in list(zip(ks, vs))[-2::-1]:
            e = f"(ite (= {k.s} {kk.s}) {vv.s} {e})"
        return T(JV, e)
    return None


MODULE = Module(
    prelude=PRELUDE + "\n(declare-sort Lookup 0)\n(declare-const lookup_tbl Lookup)", defs_text=DEFS, axioms=AX,
    defs={"special": ([STR], BOOL), "is_lit": ([STR], BOOL), "lit_val": ([STR], JV), "parse_raises": ([STR], BOOL), "parse_spec": ([STR], JV)},
    ufuns={"json_ok": ([STR], BOOL), "json_val": ([STR], JV), "dumps": ([JV], STR), "dec": ([INT], STR), "undec": ([STR], INT), "is_dec": ([STR], BOOL),
           "is_float": ([STR], BOOL), "fval": ([STR], "Flt"), "fstr": (["Flt"], STR), "has_space_or_comma": ([STR], BOOL)},
    hooks={"isinstance": isinst, "coerce": coerce, "recv": lambda e, r, at: T(STR, f"(jstr {r.s})") if r.sort == JV and at in ("startswith", "endswith") else None, "dict": dict_hook, "cmp": contains_hook, "subscript": subscript_hook},
    lib={"json.loads(": json_loads, "json.dumps(": json_dumps, "float(": to_float, "re.match(": re_match},
    sortnames={"JV": JV},
    contracts=contracts,
)
VERIFY = ["str2literal", "parse_tag_value", "format_tag_value"]


def bounded_strings(tier, seed):
    from pvc import bounded
    return [bounded.run("C34", "short-strings-and-json-values", env={"C34_LEN": "3" if tier == "quick" else "4"},
                        rule="format then parse on the real functions for every string up to the bound over a 16-character alphabet, look-alike strings and nested JSON values")]


EXTRA_CHECKS = [bounded_strings]
EXPECTED_MIN_OBLIGATIONS = 20
TRUSTED = ["A-JSON", "A-DEC", "A-RE", "finite-float repr round trip", "string-theory helper lemmas (prefixof vs. first character)"]
ASSUMPTIONS = ["json.dumps/json.loads, int(), float(), str of ints and floats and re.match are library functions specified by axioms (listed in the contract file)",
               "JSON-compatible values exclude NaN and infinities", "format_tag_key_value / parse_tag_key_value (trimming, key=value splitting) are not part of the round-trip claim"]
