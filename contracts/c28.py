"""C28 Dry runs execute nothing -- first sentence of the property, as contracts on the real scheduler handlers."""
from pvc.smt import *
from pvc.core import Module
from pvc import frame_scan
from pvc.result import Result

PROPERTY = "C28"
S = "redun/scheduler.py"
contracts = {
 "Scheduler._consume_resources": dict(where=f"{S}:Scheduler._consume_resources", params={"self": REF, "job_limits": OBJ}, requires=["not self._dryrun"]),
 "Scheduler._perform_rollbacks": dict(where=f"{S}:Scheduler._perform_rollbacks", params={"self": REF, "args": OBJ, "kwargs": OBJ}, requires=["not self._dryrun"]),
 "Scheduler.done_job": dict(where=f"{S}:Scheduler.done_job", params={"self": REF, "job": REF, "result": OBJ, "job_tags": OBJ},
    requires=["implies(self._dryrun, job.was_cached)"]),
 "Scheduler._exec_job_main_thread": dict(where=f"{S}:Scheduler._exec_job_main_thread",
    params={"self": REF, "job": REF, "eval_args": OBJ},
    ensures=["implies(old(self._dryrun), self._pending_jobs == old(self._pending_jobs))", "self._dryrun == old(self._dryrun)"],
    at_call={"submit": ["not self._dryrun"], "submit_script": ["not self._dryrun"]},
    ghost_local={"acted": BOOL, "cp": OBJ}, ghost_init=["not acted"],
    on_call={"reject_job": "acted = True"}, after_call={("Scheduler.done_job", 0): "acted = True"},
    lib={"self._check_pending_job(": lambda e, n, st, old: check_pending(e, n, st, old)},
    post_hooks={"dry-run-stops-only-where-a-real-run-would-submit": lambda eng, st, entry: dry_stop(eng, st, entry)}),
 "Scheduler._done_job_main_thread": dict(where=f"{S}:Scheduler._done_job_main_thread",
    params={"self": REF, "job": REF, "result": OBJ, "job_tags": OBJ},
    requires=["implies(self._dryrun, job.was_cached)"], asserts_checked=["self._dryrun"],
    lib={"self._postprocess_result(": lambda e, n, st, old: postprocess_site(e, n, st, old)}),
}


def check_pending(eng, n, st, old):
    r = eng.opaque("pending_twin")
    st.ghost["cp"] = r
    st.ver += 1
    return r


def dry_stop(eng, st, entry):
    """a dry run that neither rejected the job, nor found it cached, nor collapsed it onto a running twin has reached the
    point where a real run would hand the job to an executor: the executor exists and supports the job"""
    self_, job = entry.env["self"], entry.env["job"]
    dry = f"(select {eng.field(entry, '_dryrun').s} {self_.s})"
    cached = f"(select {eng.field(st, 'was_cached').s} {job.s})"
    none_cp = eng.ctx.app("is_none", [OBJ], BOOL, [st.ghost["cp"]]).s
    ante = f"(and {dry} (not {st.ghost['acted'].s}) {none_cp} (not {cached}))"
    ex = st.env.get("executor")
    if not isinstance(ex, T):
        return T(BOOL, f"(not {ante})")
    return T(BOOL, f"(=> {ante} {eng.truth(ex).s})")


def postprocess_site(eng, n, st, old):
    """_postprocess_result advances handles (a backend write): must not happen in a dry run"""
    g = eng.spec("not self._dryrun", st, eng.entry)
    eng.oblige(f"{eng.cur}/at[_postprocess_result#0].0", "at", st, g, n.lineno)
    return eng.opaque("postprocessed")


MODULE = Module(fields={"_dryrun": BOOL, "was_cached": BOOL, "_pending_jobs": Map(OBJ, REF)},
                classes={"self": "Scheduler", "job": "Job"}, contracts=contracts)
VERIFY = ["Scheduler.done_job", "Scheduler._exec_job_main_thread", "Scheduler._done_job_main_thread"]


def scans(tier, seed):
    return [
        frame_scan.check_call_sites("C28", "executor-submit", {"submit", "submit_script"},
                                    {f"{S}:Scheduler._exec_job_main_thread"}, Result, files=[S]),
        frame_scan.check_call_sites("C28", "task-function-call", {"func"},
                                    {f"{S}:Scheduler._evaluate_apply"}, Result, files=[S]),
        frame_scan.check("C28", "_dryrun", {f"{S}:Scheduler.__init__", f"{S}:Scheduler._run"}, Result),
    ]


EXTRA_CHECKS = [scans]
EXPECTED_MIN_OBLIGATIONS = 12
TRUSTED = ["A-LOG", "A-QUEUE", "A-ALIAS"]
ASSUMPTIONS = [
    "executors call done_job only for jobs that were submitted to them (so never during a dry run); A-QUEUE for deferred calls",
    "the only call of a task function inside scheduler.py is task.func(...) of scheduler tasks (cond/seq/catch...) in _evaluate_apply: these are scheduler-internal and do run during a dry run; user task functions are called only by executors (call-site scan)",
    "second sentence of the property (a dry run predicts the real run) compares two executions and is not claimed",
]

import importlib.util, os
_spec = importlib.util.spec_from_file_location("contracts_c12_for_c28", os.path.join(os.path.dirname(__file__), "c12.py"))
_c12 = importlib.util.module_from_spec(_spec)
_spec.loader.exec_module(_c12)
# a completed dry run returns what a real run would only if cache lookups behave identically in both modes (kernel: _get_cache)
MODULES = [(MODULE, VERIFY), (_c12.MODULE, ["Scheduler._get_cache"])]
