"""C28 Dry runs execute nothing -- first sentence of the property, as contracts on the real scheduler handlers."""
from pvc.smt import *
from pvc.core import Module
from pvc import frame_scan
from pvc.result import Result

PROPERTY = "C28"
S = "redun/scheduler.py"
contracts = {
 "Scheduler._consume_resources": dict(where=f"{S}:Scheduler._consume_resources", params={"self": REF, "job_limits": OBJ}, requires=["not self._dryrun"]),
 "Scheduler._perform_rollbacks": dict(where=f"{S}:Scheduler._perform_rollbacks", params={"self": REF, "args": OBJ, "kwargs": OBJ}, requires=["not self._dryrun"]),
 "Scheduler.done_job": dict(where=f"{S}:Scheduler.done_job", params={"self": REF, "job": REF, "result": OBJ, "job_tags": OBJ},
    requires=["implies(self._dryrun, job.was_cached)"]),
 "Scheduler._exec_job_main_thread": dict(where=f"{S}:Scheduler._exec_job_main_thread",
    params={"self": REF, "job": REF, "eval_args": OBJ},
    ensures=["implies(old(self._dryrun), self._pending_jobs == old(self._pending_jobs))", "self._dryrun == old(self._dryrun)"],
    at_call={"submit": ["not self._dryrun"], "submit_script": ["not self._dryrun"]}),
 "Scheduler._done_job_main_thread": dict(where=f"{S}:Scheduler._done_job_main_thread",
    params={"self": REF, "job": REF, "result": OBJ, "job_tags": OBJ},
    requires=["implies(self._dryrun, job.was_cached)"], asserts_checked=["self._dryrun"],
    lib={"self._postprocess_result(": lambda e, n, st, old: postprocess_site(e, n, st, old)}),
}


def postprocess_site(eng, n, st, old):
    """_postprocess_result advances handles (a backend write): must not happen in a dry run"""
    g = eng.spec("not self._dryrun", st, eng.entry)
    eng.oblige(f"{eng.cur}/at[_postprocess_result#0].0", "at", st, g, n.lineno)
    return eng.opaque("postprocessed")


MODULE = Module(fields={"_dryrun": BOOL, "was_cached": BOOL, "_pending_jobs": Map(OBJ, REF)},
                classes={"self": "Scheduler", "job": "Job"}, contracts=contracts)
VERIFY = ["Scheduler.done_job", "Scheduler._exec_job_main_thread", "Scheduler._done_job_main_thread"]


def scans(tier, seed):
    return [
        frame_scan.check_call_sites("C28", "executor-submit", {"submit", "submit_script"},
                                    {f"{S}:Scheduler._exec_job_main_thread"}, Result, files=[S]),
        frame_scan.check_call_sites("C28", "task-function-call", {"func"},
                                    {f"{S}:Scheduler._evaluate_apply"}, Result, files=[S]),
        frame_scan.check("C28", "_dryrun", {f"{S}:Scheduler.__init__", f"{S}:Scheduler._run"}, Result),
    ]


EXTRA_CHECKS = [scans]
EXPECTED_MIN_OBLIGATIONS = 12
TRUSTED = ["A-LOG", "A-QUEUE", "A-ALIAS"]
ASSUMPTIONS = [
    "executors call done_job only for jobs that were submitted to them (so never during a dry run); A-QUEUE for deferred calls",
    "the only call of a task function inside scheduler.py is task.func(...) of scheduler tasks (cond/seq/catch...) in _evaluate_apply: these are scheduler-internal and do run during a dry run; user task functions are called only by executors (call-site scan)",
    "second sentence of the property (a dry run predicts the real run) compares two executions and is not claimed",
]
