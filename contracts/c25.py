"""C25 Handle lineage and rollback -- contracts on HandleInfo.get_hash / fork / apply_call (redun/handle.py), get_or_create (redun/db_utils.py),
advance_handle / rollback_handle / is_valid_handle (redun/backends/db/__init__.py).

Ghost model of the handle tables: rows : Set[hash] (recorded states), valid : Array[hash -> Bool], fname(hash) (full name of a recorded
state, fixed when recorded), edge : Set[(parent hash, child hash)].  rollback_handle's graph search is verified with a loop invariant
that makes the set it invalidates (a) contain the children of the state rolled back to, (b) closed under the edges of valid same-name
states, (c) contain only descendants -- i.e. exactly the set of derived states."""
import ast
from pvc.smt import *
from pvc.core import Module, RaiseEx

PROPERTY = "C25"
H = "redun/handle.py"
DB = "redun/backends/db/__init__.py"
HS = "HS"
PRELUDE_HS = "(declare-datatypes ((HS 0)) (((HStr (hstr String)) (HList (hitems (Seq HS))))))"


def list_literal(e, items):
    if items and all(isinstance(i, T) and i.sort == STR for i in items):
        return e.seq_of([T(HS, f"(HStr {i.s})") for i in items], HS)
    return None


def coerce_hs(e, t, sort):
    if sort == HS and isinstance(t, T) and t.sort == Seq(HS):
        return T(HS, f"(HList {t.s})")
    return None


# ------------------------------------------------------------------------------------------------ the state hash and its derivations
info_contracts = {
 "hash_struct": dict(where="redun/hashing.py:hash_struct", params={"struct": HS}, returns=STR, pure="hs"),
 "HandleInfo.get_hash": dict(where=f"{H}:Handle.HandleInfo.get_hash", params={"self": REF}, returns=STR,
    lib={"hash_positional_args(": lambda e, n, st, old: e.ctx.app("args_hash", [OBJ], STR, [e.to_obj(e.ev(n.args[1], st, old))]),
         "hash_kwargs(": lambda e, n, st, old: e.ctx.app("kwargs_hash", [OBJ], STR, [e.to_obj(e.ev(n.args[1], st, old))]),
         "get_type_registry()": lambda e, n, st, old: e.opaque("registry")},
    ensures=["result == state_hash(self.fullname, self.key, self.call_hash, self.args, self.kwargs)"],
    relational={"same handle name": lambda a, b: f"(= (|sattr_fullname| {a('self')}) (|sattr_fullname| {b('self')}))",
                "same key": lambda a, b: f"(= (select {a('H_key')} {a('self')}) (select {b('H_key')} {b('self')}))",
                "same kind (initial state / state derived by a call or fork)": lambda a, b: f"(= (> (str.len (select {a('H_call_hash')} {a('self')})) 0) (> (str.len (select {b('H_call_hash')} {b('self')})) 0))",
                "same call or parent-state hash": lambda a, b: f"(= (select {a('H_call_hash')} {a('self')}) (select {b('H_call_hash')} {b('self')}))",
                "same constructor argument hashes for initial states": lambda a, b: (
                    f"(=> (= (str.len (select {a('H_call_hash')} {a('self')})) 0) (and (= (|args_hash| (|sattr_args| {a('self')})) (|args_hash| (|sattr_args| {b('self')}))) "
                    f"(= (|kwargs_hash| (|sattr_kwargs| {a('self')})) (|kwargs_hash| (|sattr_kwargs| {b('self')})))))")}),
 "HandleInfo.update_hash": dict(where=f"{H}:Handle.HandleInfo.update_hash", params={"self": REF}, modifies=["hash"], classes={"self": "HandleInfo#"},
    ensures=["self.hash == state_hash(self.fullname, self.key, self.call_hash, self.args, self.kwargs)", "forall(o, Ref, implies(o != self, o.hash == old(o.hash)))"]),
 "HandleInfo#.get_hash": dict(where=f"{H}:Handle.HandleInfo.get_hash", params={"self": REF}, returns=STR, pure_expr=True,
    ensures=["result == state_hash(self.fullname, self.key, self.call_hash, self.args, self.kwargs)"]),
 "*.update_hash": dict(where=f"{H}:Handle.HandleInfo.update_hash", params={"self": REF}, modifies=["hash"],
    ensures=["self.hash == state_hash(self.fullname, self.key, self.call_hash, self.args, self.kwargs)", "forall(o, Ref, implies(o != self, o.hash == old(o.hash)))"]),
 "HandleInfo.fork": dict(where=f"{H}:Handle.HandleInfo.fork", params={"self": REF, "handle": REF, "key": STR}, returns=REF,
    lib={"self.clone(": lambda e, n, st, old: lib_clone(e, n, st, old)},
    requires=["handle.__handle__ == self"],
    # the forked state is derived from the parent's hash and the fork key; the parent is remembered for recording
    ensures=["result != handle and result.__handle__ != self",
             "result.__handle__.call_hash == old(self.hash) and result.__handle__.key == key",
             "result.__handle__.hash == state_hash(self.fullname, key, old(self.hash), self.args, self.kwargs)",
             "result.__handle__.fork_parent == Some(handle)",
             "self.hash == old(self.hash) and self.call_hash == old(self.call_hash) and self.key == old(self.key)"]),
 "HandleInfo.apply_call": dict(where=f"{H}:Handle.HandleInfo.apply_call", params={"self": REF, "handle": REF, "call_hash": STR}, returns=REF,
    lib={"self.clone(": lambda e, n, st, old: lib_clone(e, n, st, old)},
    requires=["handle.__handle__ == self"],
    ensures=["result != handle and result.__handle__ != self",
             "result.__handle__.call_hash == call_hash and result.__handle__.key == ''",
             "result.__handle__.hash == state_hash(self.fullname, '', call_hash, self.args, self.kwargs)",
             "self.hash == old(self.hash) and self.call_hash == old(self.call_hash) and self.key == old(self.key)"]),
 "Handle.preprocess": dict(where=f"{H}:Handle.preprocess", params={"self": REF, "preprocess_args": Map(STR, INT)}, returns=REF,
    lib={"self.fork(": lambda e, n, st, old: e.ctx.app("forked", [REF, STR], REF, [st.env["self"], e.ev(n.args[0], st, old)])},
    requires=["'call_order' in preprocess_args"],
    ensures=["result == forked(self, self.__handle__.key if len(self.__handle__.key) > 0 else dec(preprocess_args['call_order']))"]),
 "Handle.postprocess": dict(where=f"{H}:Handle.postprocess", params={"self": REF, "postprocess_args": Map(STR, STR)}, returns=REF,
    lib={"self.apply_call(": lambda e, n, st, old: e.ctx.app("called", [REF, STR], REF, [st.env["self"], e.ev(n.args[0], st, old)])},
    requires=["'pre_call_hash' in postprocess_args"], ensures=["result == called(self, postprocess_args['pre_call_hash'])"]),
}


def lib_clone(e, n, st, old):
    """self.clone(handle): a new handle object with its own, freshly constructed HandleInfo carrying the same name, arguments and class"""
    h2, i2 = e.ctx.fresh(REF, "handle2"), e.ctx.fresh(REF, "info2")
    me = st.env["self"]
    st.pc.append(f"(= (|sattr___handle__| {h2.s}) {i2.s})")
    st.pc.append(f"(and (not (= {i2.s} {me.s})) (not (= {h2.s} {st.env['handle'].s})))")
    for a in ("fullname", "args", "kwargs"):
        st.pc.append(f"(= (|sattr_{a}| {i2.s}) (|sattr_{a}| {me.s}))")
    return h2


INFO_MODULE = Module(
    prelude=PRELUDE_HS,
    fields={"call_hash": STR, "key": STR, "hash": STR, "fork_parent": Opt(REF), "is_recorded": BOOL},
    stable={"fullname": STR, "args": OBJ, "kwargs": OBJ, "__handle__": REF}, declare_stable=True,
    ufuns={"hs": ([HS], STR), "args_hash": ([OBJ], STR), "kwargs_hash": ([OBJ], STR), "forked": ([REF, STR], REF), "called": ([REF, STR], REF), "dec": ([INT], STR)},
    defs={"state_hash": ([STR, STR, STR, OBJ, OBJ], STR)},
    defs_text="(define-fun state_hash ((fn String) (k String) (ch String) (a Obj) (kw Obj)) String (ite (> (str.len ch) 0) "
              "(|hs| (HList (seq.++ (seq.unit (HStr \"Handle\")) (seq.unit (HStr fn)) (seq.unit (HStr \"call_hash\")) (seq.unit (HStr k)) (seq.unit (HStr ch))))) "
              "(|hs| (HList (seq.++ (seq.unit (HStr \"Handle\")) (seq.unit (HStr fn)) (seq.unit (HStr \"init\")) (seq.unit (HStr k)) (seq.unit (HStr (|args_hash| a))) (seq.unit (HStr (|kwargs_hash| kw))))))))",
    axioms=["(forall ((a HS) (b HS)) (! (=> (= (|hs| a) (|hs| b)) (= a b)) :pattern ((|hs| a) (|hs| b))))"],
    hooks={"list_literal": list_literal, "coerce": coerce_hs}, sortnames={"HS": HS},
    classes={"self": "HandleInfo", "handle2.__handle__": "HandleInfo#"}, contracts=info_contracts)

# ------------------------------------------------------------------------------------------------ get_or_create
ATTRS = Map(STR, OBJ)


def lib_first_by(e, n, st, old):
    """session.query(Model).filter_by(**filter).first(): a row whose columns agree with the filter, or None if there is none"""
    flt = st.env["filter"]
    r = e.ctx.fresh(Opt(REF), "found")
    rows = st.ghost["rows"]
    match = lambda row: f"(and (select {rows.s} {row}) (forall ((|q_c| String)) (=> ((_ is Some_Obj) (select {flt.s} |q_c|)) (= (select (select {e.field(st, 'cols').s} {row}) |q_c|) (select {flt.s} |q_c|)))))"
    st.pc.append(f"(=> {is_some(r).s} {match(unopt(r).s)})")
    st.pc.append(f"(=> (not {is_some(r).s}) (forall ((|q_r| Ref)) (not {match('|q_r|')})))")
    return r


def lib_model_new(e, n, st, old):
    """Model(**insert): a new row object whose columns are the insert dict"""
    ins = e.ev(n.keywords[0].value, st, old)
    r = e.ctx.fresh(REF, "new_row")
    st.pc.append(f"(not (select {st.ghost['rows'].s} {r.s}))")
    h = e.field(st, "cols")
    st.heap["cols"] = T(h.sort, f"(store {h.s} {r.s} {ins.s})")
    return r


def lib_setattr(e, n, st, old):
    row, k, v = e.ev(n.args[0], st, old), e.ev(n.args[1], st, old), e.to_obj(e.ev(n.args[2], st, old))
    if isinstance(row, T) and row.sort == Opt(REF):
        row = unopt(row)
    h = e.field(st, "cols")
    cur = f"(select {h.s} {row.s})"
    st.heap["cols"] = T(h.sort, f"(store {h.s} {row.s} (store {cur} {k.s} {some(e.ctx, v).s}))")
    return T(NONE, "none")


def lib_session_add(e, n, st, old):
    row = e.ev(n.args[0], st, old)
    if isinstance(row, T) and row.sort == Opt(REF):
        row = unopt(row)
    g = st.ghost["rows"]
    st.ghost["rows"] = T(g.sort, f"(store {g.s} {row.s} true)")
    return T(NONE, "none")


goc_contracts = {
 "get_or_create": dict(where="redun/db_utils.py:get_or_create", params={"session": OBJ, "Model": OBJ, "filter": ATTRS, "update": Opt(ATTRS)}, returns=[REF, BOOL],
    ghost={"rows": Set(REF)}, locals={"insert": ATTRS},
    lib={"session.query(Model).filter_by(": lib_first_by, "Model(": lib_model_new, "setattr(": lib_setattr, "session.add(": lib_session_add, "dict(filter)": lambda e, n, st, old: st.env["filter"]},
    loops={0: ["rows == old(rows)", "row != None and old(rows)[val(row)]",
               "forall(c, Str, implies(visited(0)[c], val(row).cols.get(c) == val(update).get(c)))",
               "forall(r, Ref, forall(c, Str, implies(r == val(row) and not visited(0)[c], r.cols.get(c) == old(r.cols).get(c))))",
               "forall(r, Ref, implies(r != val(row), r.cols == old(r.cols)))"]},
    # the row returned is in the table, agrees with the filter, and carries every column of `update` -- whether it existed before or not
    ensures=["rows[result0]",
             "forall(c, Str, implies(c in filter and not (update != None and c in val(update)), result0.cols.get(c) == filter.get(c)))",
             "forall(c, Str, implies(update != None and c in val(update), result0.cols.get(c) == val(update).get(c)))",
             "forall(r, Ref, implies(old(rows)[r] and r != result0, r.cols == old(r.cols)))",
             "result1 == (not exists(r, Ref, old(rows)[r] and forall(c, Str, implies(c in filter, old(r.cols).get(c) == filter.get(c)))))",
             "forall(r, Ref, implies(old(rows)[r], rows[r]))",
             "forall(r, Ref, implies(rows[r] and not old(rows)[r], r == result0))"]),
}
GOC_MODULE = Module(fields={"cols": ATTRS}, contracts=goc_contracts)

# ------------------------------------------------------------------------------------------------ the backend: lineage tables
# hashes are only ever compared for equality here: an uninterpreted sort (z3 answered a wrong unsat on quantified formulas over sequences of strings)
HT = "HashT"
EDGE = Tup(HT, HT)
G = {"rows": Set(HT), "valid": Arr(HT, BOOL), "edge": Set(EDGE)}


def lib_same_name_edges(e, n, st, old):
    """session.query(Handle.hash, HandleEdge.child_id).join(HandleEdge, parent_id == hash).filter(fullname == X, is_valid IS TRUE).all():
    the (state, child) pairs of recorded, currently valid states with that full name"""
    src = ast.unparse(n)
    if not (src.startswith("self.session.query(Handle.hash, HandleEdge.child_id)") and src.endswith(".all()")):
        return NotImplemented
    name = None
    for x in ast.walk(n):
        if isinstance(x, ast.Compare) and ast.unparse(x.left) == "Handle.fullname":
            name = e.ev(x.comparators[0], st, old)
    if name is None or "Handle.is_valid.is_(True)" not in src or "HandleEdge.parent_id == Handle.hash" not in src:
        return NotImplemented
    E = e.ctx.fresh(Set(EDGE), "same_name_edges")
    st.pc.append(f"(forall ((|q_p| {sort_smt(EDGE)})) (= (select {E.s} |q_p|) (|E_of| {st.ghost['rows'].s} {st.ghost['valid'].s} {st.ghost['edge'].s} {name.s} |q_p|)))")
    st.env["$E"] = E
    return E


def lib_invalidate(e, n, st, old):
    """for query in query_filter_in(session.query(Handle), Handle.hash, xs): query.update({Handle.is_valid: False}): rows whose hash is in xs become invalid"""
    return NotImplemented


def lib_qfi(e, n, st, old):
    xs = e.ev(n.args[2], st, old)
    if not (isinstance(xs, T) and xs.sort == Set(HT)):
        return NotImplemented
    st.env["$inval"] = xs
    # assumed contract of query_filter_in (a generator over chunks of `values`): the yielded queries together select exactly the rows whose column
    # value is in `values`; modelled as one query over the whole set (an empty set makes the update a no-op, as zero chunks would)
    return TupV([e.opaque("chunk_query")])


def method_hook(e, recv, at, n, st, old):
    return None


def iter_hook(e, v, st):
    return None


def lib_query_update(e, n, st, old):
    """query.update({Handle.is_valid: False}, synchronize_session=False) inside the loop over the chunked IN-queries"""
    src = ast.unparse(n.args[0]) if n.args else ""
    if src != "{Handle.is_valid: False}" or "$inval" not in st.env:
        return NotImplemented
    xs = st.env["$inval"]
    v = st.ghost["valid"]
    nv = e.ctx.fresh(v.sort, "valid")
    st.pc.append(f"(forall ((|q_h| HashT)) (= (select {nv.s} |q_h|) (and (select {v.s} |q_h|) (not (select {xs.s} |q_h|)))))")
    st.ghost["valid"] = nv
    st.env["$updated"] = T(BOOL, "true")
    return T(NONE, "none")


def lib_valid_flag(e, n, st, old):
    """session.query(Handle.is_valid).filter_by(hash=X).one_or_none(): a 1-tuple with the flag of the recorded state, or None"""
    src = ast.unparse(n)
    if not src.startswith("self.session.query(Handle.is_valid).filter_by(hash="):
        return NotImplemented
    h = None
    for x in ast.walk(n):
        if isinstance(x, ast.Call) and isinstance(x.func, ast.Attribute) and x.func.attr == "filter_by":
            h = e.ev(x.keywords[0].value, st, old)
    r = e.ctx.fresh(Opt(Tup(BOOL)), "flag_row")
    e.ctx.need(Opt(Tup(BOOL)))
    st.pc.append(f"(= {is_some(r).s} (select {st.ghost['rows'].s} {h.s}))")
    st.pc.append(f"(=> {is_some(r).s} (= {tup_get(unopt(r), 0).s} (select {st.ghost['valid'].s} {h.s})))")
    return r


def lib_goc_handle(e, n, st, old):
    """get_or_create(session, Handle, {hash, fullname, key, value_hash}, {"is_valid": True}) / get_or_create(session, HandleEdge, {parent_id, child_id})
    through get_or_create's contract (verified above): the row exists afterwards, with the update columns applied"""
    model = ast.unparse(n.args[1])
    d = n.args[2]
    if not isinstance(d, ast.Dict):
        return NotImplemented
    cols = {k.value: e.ev(v, st, old) for k, v in zip(d.keys, d.values)}
    if model == "Handle":
        upd = ast.unparse(n.args[3]) if len(n.args) > 3 else ""
        h = cols["hash"]
        rows, valid = st.ghost["rows"], st.ghost["valid"]
        st.ghost["rows"] = T(rows.sort, f"(store {rows.s} {h.s} true)")
        if upd == "{'is_valid': True}":
            st.ghost["valid"] = T(valid.sort, f"(store {valid.s} {h.s} true)")
        else:
            # without the update a newly created row takes the column default (valid), an existing row keeps its flag
            st.ghost["valid"] = T(valid.sort, f"(ite (select {rows.s} {h.s}) {valid.s} (store {valid.s} {h.s} true))")
        st.pc.append(f"(=> (not (select {rows.s} {h.s})) (= (|fname| {h.s}) {cols['fullname'].s}))")
        return TupV([e.opaque("row"), e.opaque("created", BOOL)])
    if model == "HandleEdge":
        ed = st.ghost["edge"]
        p = mk_tup(e.ctx, [cols["parent_id"], cols["child_id"]])
        st.ghost["edge"] = T(ed.sort, f"(store {ed.s} {p.s} true)")
        return TupV([e.opaque("row"), e.opaque("created", BOOL)])
    return NotImplemented


def rollback_parts(e, st, entry):
    inv = st.env.get("invalid_hashes")
    if not isinstance(inv, T) or "$updated" not in st.env:
        return None
    h0 = f"(select {e.field(entry, 'hash').s} (|sattr___handle__| {entry.env['handle'].s}))"
    nm = f"(|sattr_fullname| (|sattr___handle__| {entry.env['handle'].s}))"
    R, V, Ed = entry.ghost["rows"].s, entry.ghost["valid"].s, entry.ghost["edge"].s
    adj = lambda x, c: f"(|E_of| {R} {V} {Ed} {nm} (mk_Tup_HashT_HashT {x} {c}))"
    return {
        "children": f"(forall ((c HashT)) (=> {adj(h0, 'c')} (select {inv.s} c)))",
        "closed": f"(forall ((x HashT) (c HashT)) (=> (and (select {inv.s} x) {adj('x', 'c')}) (select {inv.s} c)))",
        "only-descendants": f"(forall ((x HashT)) (=> (select {inv.s} x) (|desc| x)))",
        "flags": f"(forall ((h HashT)) (= (select {st.ghost['valid'].s} h) (and (select {V} h) (not (select {inv.s} h)))))",
    }


def rollback_post(part):
    def hook(e, st, entry):
        ps = rollback_parts(e, st, entry)
        return T(BOOL, ps[part] if ps else "false")
    return hook


db_contracts = {
 "RedunBackendDb.is_valid_handle": dict(where=f"{DB}:RedunBackendDb.is_valid_handle", params={"self": REF, "handle": REF}, ghost=G,
    lib={"self.session.query(Handle.is_valid)": lib_valid_flag},
    # valid exactly when the state is recorded and its flag is set; an unrecorded state is not valid
    post_hooks={"truthy-iff-recorded-and-flagged-valid": lambda e, st, entry: T(BOOL,
        f"(= {e.truth(st.env['$result']).s} (and (select {st.ghost['rows'].s} (select {e.field(st, 'hash').s} (|sattr___handle__| {entry.env['handle'].s}))) "
        f"(select {st.ghost['valid'].s} (select {e.field(st, 'hash').s} (|sattr___handle__| {entry.env['handle'].s})))))")}),
 "RedunBackendDb.rollback_handle": dict(where=f"{DB}:RedunBackendDb.rollback_handle", params={"self": REF, "handle": REF}, ghost=G,
    # desc: any set that contains the children of the target state and is closed under the lineage edges (so: a superset of the derived states)
    requires=["forall(c, HashT, implies(E_of(old(rows), old(valid), old(edge), handle.__handle__.fullname, (handle.__handle__.hash, c)), desc(c)))".replace("old(rows)", "rows").replace("old(valid)", "valid").replace("old(edge)", "edge"),
              "forall(x, HashT, forall(c, HashT, implies(desc(x) and E_of(old(rows), old(valid), old(edge), handle.__handle__.fullname, (x, c)), desc(c))))".replace("old(rows)", "rows").replace("old(valid)", "valid").replace("old(edge)", "edge")],
    locals={"lookups": Map(HT, Seq(HT)), "invalid_hashes": Set(HT), "queue": Seq(HT), "invalid_children": Seq(HT)},
    defaultdicts={"lookups": "(as seq.empty (Seq HashT))"},
    lib={"self.session.query(Handle.hash, HandleEdge.child_id)": lib_same_name_edges, "query_filter_in(": lib_qfi, "query.update(": lib_query_update,
         "self.session.expire_all()": lambda e, n, st, old: T(NONE, "none"), "set()": lambda e, n, st, old: e.empty_of(Set(HT))},
    loops={
        # building the adjacency lists: lookups[h] lists exactly the children c with (h, c) among the pairs seen so far
        0: dict(inv=["forall(h, HashT, forall(c, HashT, (h in lookups and member(c, lookups[h])) == visited(0)[(h, c)]))"]),
        # the search: everything reached so far is a descendant; what is reached is closed under the edges except for what is still queued
        1: dict(inv=["forall(x, HashT, implies(invalid_hashes[x], desc(x)))",
                     "forall(c, HashT, implies(member(c, queue), desc(c)))",
                     "forall(c, HashT, implies(E_of(old(rows), old(valid), old(edge), handle.__handle__.fullname, (old(handle.__handle__.hash), c)), invalid_hashes[c] or member(c, queue)))",
                     "forall(x, HashT, forall(c, HashT, implies(invalid_hashes[x] and E_of(old(rows), old(valid), old(edge), handle.__handle__.fullname, (x, c)), invalid_hashes[c] or member(c, queue))))",
                     "forall(h, HashT, forall(c, HashT, (h in lookups and member(c, lookups[h])) == E_of(old(rows), old(valid), old(edge), handle.__handle__.fullname, (h, c))))",
                     "rows == old(rows) and valid == old(valid) and edge == old(edge)"]),
        },
    post_hooks={"the invalidated set contains the children of the state rolled back to": rollback_post("children"),
                "the invalidated set is closed under the lineage edges": rollback_post("closed"),
                "only states derived from the target are invalidated": rollback_post("only-descendants"),
                "exactly the invalidated set loses validity": rollback_post("flags")}),
 "RedunBackendDb.advance_handle": dict(where=f"{DB}:RedunBackendDb.advance_handle", params={"self": REF, "parent_handles": Seq(REF), "child_handle": REF}, ghost=G,
    lib={"get_or_create(": lib_goc_handle, "self.record_value(": lambda e, n, st, old: e.opaque("value_hash", STR), "self.session.commit()": lambda e, n, st, old: T(NONE, "none")},
    loops={0: dict(inv=["forall(h, HashT, implies(old(rows)[h], rows[h]))", "forall(p, Tup(HashT, HashT), implies(old(edge)[p], edge[p]))"], modifies=["rows", "valid", "is_recorded"]),
           1: dict(inv=["rows[child_handle.__handle__.hash] and valid[child_handle.__handle__.hash]",
                        "forall(i, Int, implies(0 <= i and i < index(1), rows[parent_handles[i].__handle__.hash] and valid[parent_handles[i].__handle__.hash] "
                        " and edge[(parent_handles[i].__handle__.hash, child_handle.__handle__.hash)]))",
                        "forall(h, HashT, implies(old(rows)[h], rows[h]))", "forall(p, Tup(HashT, HashT), implies(old(edge)[p], edge[p]))"], modifies=["rows", "valid", "edge", "is_recorded"])},
    # deriving a state (again) makes it valid (again); every parent is linked to it
    ensures=["rows[child_handle.__handle__.hash] and valid[child_handle.__handle__.hash]",
             "forall(i, Int, implies(0 <= i and i < len(parent_handles), rows[parent_handles[i].__handle__.hash] and valid[parent_handles[i].__handle__.hash] "
             " and edge[(parent_handles[i].__handle__.hash, child_handle.__handle__.hash)]))",
             "forall(h, HashT, implies(old(rows)[h], rows[h]))", "forall(p, Tup(HashT, HashT), implies(old(edge)[p], edge[p]))"]),
}


def db_axioms():
    return [
        # desc: the least set containing the children of h0 and closed under adj -- only its closure rules are needed (soundness of the search)
    ]


DB_MODULE = Module(
    prelude="(declare-sort HashT 0)", sortnames={"HashT": HT},
    fields={"hash": HT, "is_recorded": BOOL, "fork_parent": Opt(REF), "key": STR},
    stable={"fullname": STR, "__handle__": REF}, declare_stable=True,
    ufuns={"fname": ([HT], STR), "desc": ([HT], BOOL)},
    defs={"E_of": ([Set(HT), Arr(HT, BOOL), Set(EDGE), STR, EDGE], BOOL)},
    defs_text="(define-fun E_of ((r (Array HashT Bool)) (v (Array HashT Bool)) (e (Array Tup_Tup_HashT_HashT Bool)) (nm String) (p Tup_Tup_HashT_HashT)) Bool "
              "(and (select r (f0_Tup_HashT_HashT p)) (select v (f0_Tup_HashT_HashT p)) (= (|fname| (f0_Tup_HashT_HashT p)) nm) (select e p)))",
    predeclared_opts=[], contracts=db_contracts, classes={"self": "RedunBackendDb"})

# ------------------------------------------------------------------------------------------------ scheduler: which handles are rolled back / advanced
def lib_leaves(e, n, st, old):
    return e.ctx.app("leaves", [OBJ], Seq(OBJ), [e.coerce(e.ev(n.args[0], st, old), OBJ)])


sched_contracts = {
 "Scheduler._perform_rollbacks": dict(where="redun/scheduler.py:Scheduler._perform_rollbacks", params={"self": REF, "args": OBJ, "kwargs": OBJ}, ghost={"rolled": Set(OBJ)},
    lib={"iter_nested_value(": lib_leaves}, on_call={"rollback_handle": "rolled[arg0] = True"},
    requires=["forall(v, Obj, not rolled[v])"],
    loops={0: dict(inv=["forall(j, Int, implies(0 <= j and j < index(0) and isinst_Handle(leaves(pair_of(args, kwargs))[j]), rolled[leaves(pair_of(args, kwargs))[j]]))",
                        "forall(v, Obj, implies(rolled[v], isinst_Handle(v) and exists(j, Int, 0 <= j and j < index(0) and leaves(pair_of(args, kwargs))[j] == v)))"], modifies=["rolled"])},
    # every handle anywhere inside the arguments (nested containers included) is rolled back, and nothing else
    ensures=["forall(j, Int, implies(0 <= j and j < len(leaves(pair_of(args, kwargs))) and isinst_Handle(leaves(pair_of(args, kwargs))[j]), rolled[leaves(pair_of(args, kwargs))[j]]))",
             "forall(v, Obj, implies(rolled[v], isinst_Handle(v)))"]),
 "Scheduler._preprocess_args": dict(where="redun/scheduler.py:Scheduler._preprocess_args", params={"self": REF, "job": REF, "args": OBJ, "kwargs": OBJ}, returns=OBJ,
    at_call={"map_nested_value": ["arg1 == (args, kwargs)"]}, must_call=["map_nested_value"]),
 "Scheduler._preprocess_args.preprocess_value": dict(where="redun/scheduler.py:Scheduler._preprocess_args.preprocess_value", params={"value": OBJ, "self": REF, "job": REF}, returns=OBJ,
    at_call={"advance_handle": ["arg1 == value2", "isinst_Handle(value)"]}),
 "Scheduler._postprocess_result.postprocess_value": dict(where="redun/scheduler.py:Scheduler._postprocess_result.postprocess_value",
    params={"value": OBJ, "self": REF, "postprocess_args": OBJ}, returns=OBJ, fields_={},
    at_call={"advance_handle": ["arg1 == value2", "isinst_Handle(value)", "not self._dryrun"]}),
}


def tuple_pair(e, items):
    return None


SCHED_MODULE = Module(fields={"_dryrun": BOOL}, ufuns={"leaves": ([OBJ], Seq(OBJ)), "isinst_Handle": ([OBJ], BOOL), "pair_of": ([OBJ, OBJ], OBJ)},
                      hooks={"coerce": lambda e, t, sort: (e.ctx.app("pair_of", [OBJ, OBJ], OBJ, [e.to_obj(t.items[0]), e.to_obj(t.items[1])]) if sort == OBJ and isinstance(t, TupV) and len(t.items) == 2 else None)},
                      contracts=sched_contracts, classes={"self": "Scheduler"})

MODULES = [(INFO_MODULE, ["HandleInfo.get_hash", "HandleInfo.update_hash", "HandleInfo.fork", "HandleInfo.apply_call", "Handle.preprocess", "Handle.postprocess"]),
           (GOC_MODULE, ["get_or_create"]),
           (DB_MODULE, ["RedunBackendDb.is_valid_handle", "RedunBackendDb.rollback_handle", "RedunBackendDb.advance_handle"]),
           (SCHED_MODULE, ["Scheduler._perform_rollbacks", "Scheduler._preprocess_args", "Scheduler._preprocess_args.preprocess_value", "Scheduler._postprocess_result.postprocess_value"])]


def bounded_histories(tier, seed):
    from pvc import bounded
    env = {"C25_LEN": "2", "C25_RANDOM": "60"} if tier == "quick" else {"C25_LEN": "3", "C25_RANDOM": "400"}
    return [bounded.run(PROPERTY, "advance-rollback-histories", env=env, timeout=3000, rule="all histories of <= 2 (quick) / 3 (thorough) operations (apply a call, fork with a key, roll back to an earlier state, derive a state again) on two handle names against a reference "
                        "lineage model on a real sqlite backend: is_valid_handle agrees with the model after every step; workflows with handles: a cached result holding a rolled-back state is not replayed")]


EXTRA_CHECKS = [bounded_histories]
EXPECTED_MIN_OBLIGATIONS = 60
TRUSTED = ["A-HASH + C14 (hash_struct injective)", "A-ORM (get_or_create's query / add; Query.update as a set-wise column update; the column default is_valid=True)",
           "the handle tables as sets of hashes with a validity flag and an edge relation; full names are fixed when a state is first recorded"]
ASSUMPTIONS = [
    "'for any sequence of advances and rollbacks validity agrees with the lineage model' is a statement about histories: the contracts give the per-operation transitions "
    "(advance: the derived state and its parents become / stay valid and linked; rollback: exactly the states derived from the target lose validity; is_valid: flag of a recorded state), "
    "whole histories are compared with a reference model by the bounded check",
    "rollback_handle's invalidated set is characterised as: contains the target's children, closed under edges of valid same-name states, contains only descendants (so it is exactly the set of derived states)",
    "Handle.clone (re-instantiation through __new__) and the scheduler's use of preprocess / postprocess are not under contract here (C07 covers the fork key)",
    "'a cached result containing an invalidated handle state is never replayed' rests on Scheduler._get_cache / is_valid_nested (C04) and Handle.is_valid (C04)",
]
