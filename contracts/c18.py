"""C18 Expression identity matches the call it denotes -- relational (two-run) contracts on the real _calc_hash methods and
state round-trip contracts on __getstate__/__setstate__."""
from pvc.smt import *
from pvc.core import Module
from pvc import solve
from pvc.result import Result

PROPERTY = "C18"
E = "redun/expression.py"
HS = "HS"
PRELUDE = "(declare-datatypes ((HS 0)) (((HStr (hstr String)) (HList (hitems (Seq HS))))))\n(declare-sort Args 0)\n(declare-sort Opts 0)"
AX = [
 "(forall ((a Opts) (b Opts)) (! (=> (and (not (|truthy_Opts| a)) (not (|truthy_Opts| b))) (= a b)) :pattern ((|truthy_Opts| a) (|truthy_Opts| b))))",  # A-DICT: there is one empty options dict
 "(forall ((a HS) (b HS)) (! (=> (= (|hs| a) (|hs| b)) (= a b)) :pattern ((|hs| a) (|hs| b))))",                      # A-HASH + C14
 "(forall ((a Args) (b Args)) (! (=> (= (|hargs| a) (|hargs| b)) (= a b)) :pattern ((|hargs| a) (|hargs| b))))",      # C15: args hash separates the abstract argument view
 "(forall ((a Opts) (b Opts)) (! (=> (= (|hopts| a) (|hopts| b)) (= a b)) :pattern ((|hopts| a) (|hopts| b))))",      # A-HASH + A-PICKLE
 "(forall ((a (Array String Bool)) (b (Array String Bool))) (! (=> (= (|sorted_set| a) (|sorted_set| b)) (= a b)) :pattern ((|sorted_set| a) (|sorted_set| b))))",  # A-SORT
 "(forall ((a (Array String Bool))) (! (= (= (seq.len (|sorted_set| a)) 0) (forall ((x String)) (not (select a x)))) :pattern ((|sorted_set| a))))",
 "(forall ((xs (Seq String))) (! (= (seq.len (|lift_strs| xs)) (seq.len xs)) :pattern ((|lift_strs| xs))))",
 "(forall ((xs (Seq String)) (i Int)) (! (=> (and (>= i 0) (< i (seq.len xs))) (= (seq.nth (|lift_strs| xs) i) (HStr (seq.nth xs i)))) :pattern ((seq.nth (|lift_strs| xs) i))))",
 "(forall ((a (Seq String)) (b (Seq String))) (! (=> (= (|lift_strs| a) (|lift_strs| b)) (= a b)) :pattern ((|lift_strs| a) (|lift_strs| b))))",
]


def list_literal(eng, items):
    if items and isinstance(items[0], T) and items[0].sort == STR and items[0].s.startswith('"') and all(isinstance(i, T) and i.sort == STR for i in items):
        return T(HS, "(HList (seq.++ " + " ".join(f"(seq.unit (HStr {i.s}))" for i in items) + "))")
    return None


def coerce(eng, t, sort):
    if sort == HS and isinstance(t, T) and t.sort == Seq(STR):
        return T(HS, f"(HList (|lift_strs| {t.s}))")
    return None


LIB = {
    "get_type_registry()": lambda e, n, st, old: e.opaque("registry"),
    "hash_arguments(": lambda e, n, st, old: e.ctx.app("hargs", ["Args"], STR, [e.ctx.app("args_view", [REF], "Args", [st.env["self"]])]),
    "hash_bytes(pickle_dumps(": lambda e, n, st, old: e.ctx.app("hopts", ["Opts"], STR, [e.coerce(e.ev(n.args[0].args[0], st, old), "Opts")]),
    "list(sorted(": lambda e, n, st, old: e.ctx.app("sorted_set", [Set(STR)], Seq(STR), [e.ev(n.args[0].args[0], st, old)]),
    "registry.get_hash(": lambda e, n, st, old: e.ctx.app("vhash", [OBJ], STR, [e.to_obj(e.ev(n.args[0], st, old))]),
}


def fld(name, side):
    return lambda a, b: f"(= (|sattr_{name}| {a('self')}) (|sattr_{name}| {b('self')}))"


SAME_ARGS = lambda a, b: f"(= (|args_view| {a('self')}) (|args_view| {b('self')}))"
contracts = {
 "hash_struct": dict(where="redun/hashing.py:hash_struct", params={"struct": HS}, returns=STR, pure="hs"),
 "TaskExpression._calc_hash": dict(where=f"{E}:TaskExpression._calc_hash", params={"self": REF}, returns=STR, lib=LIB,
    relational={"same task name": fld("task_name", 0), "same arguments": SAME_ARGS, "same call-time options": fld("_options", 0), "same exported options": fld("_export_options", 0)}),
 "SchedulerExpression._calc_hash": dict(where=f"{E}:SchedulerExpression._calc_hash", params={"self": REF}, returns=STR, lib=LIB,
    relational={"same task name": fld("task_name", 0), "same arguments": SAME_ARGS, "same call-time options": fld("_options", 0), "same exported options": fld("_export_options", 0)}),
 "SimpleExpression._calc_hash": dict(where=f"{E}:SimpleExpression._calc_hash", params={"self": REF}, returns=STR, lib=LIB,
    relational={"same operator name": fld("func_name", 0), "same arguments": SAME_ARGS}),
 "ValueExpression._calc_hash": dict(where=f"{E}:ValueExpression._calc_hash", params={"self": REF}, returns=STR, lib=LIB,
    relational={"same value hash": lambda a, b: f"(= (|vhash| (|box_Val| (|sattr_value| {a('self')}))) (|vhash| (|box_Val| (|sattr_value| {b('self')}))))" if False else f"(= (|vhash| (|sattr_value| {a('self')})) (|vhash| (|sattr_value| {b('self')})))"}),
}


def reset_hash(eng, st):
    """super().__setstate__(state) == Expression.__setstate__: clears the memoised hash (verified above)"""
    h = eng.field(st, "_hash")
    st.heap["_hash"] = T(h.sort, f"(store {h.s} {st.env['self'].s} {none_of(eng.ctx, STR).s})")
    return T(NONE, "none")


state_contracts = {
 "Expression.get_hash": dict(where=f"{E}:Expression.get_hash", params={"self": REF, "data": OBJ}, returns=STR, classes={"self": "Expression"},
    # the hash is the memoised one or the structural hash; it never depends on the serialised bytes passed by the backend
    ensures=["result == (val(old(self._hash)) if old(self._hash) != None else calc_hash(self))", "self._hash == Some(result)"]),
 "Expression._calc_hash": dict(where=f"{E}:Expression._calc_hash", params={"self": REF}, returns=STR, pure="calc_hash"),
 # ---- pickling state round trip: every identity component is written to the state under a fixed key and read back from that key
 "Expression.__getstate__": dict(where=f"{E}:Expression.__getstate__", params={"self": REF}, returns=Map(STR, OBJ),
    ensures=["forall(k, Str, k not in result)"]),
 "Expression.__setstate__": dict(where=f"{E}:Expression.__setstate__", params={"self": REF, "state": Map(STR, OBJ)},
    ensures=["self._hash == None"], modifies=["_hash"]),
 "TaskExpression.__getstate__": dict(where=f"{E}:TaskExpression.__getstate__", params={"self": REF}, returns=Map(STR, OBJ),
    lib={"super().__getstate__()": lambda e, n, st, old: e.empty_of(Map(STR, OBJ)), "get_type_registry()": lambda e, n, st, old: e.opaque("registry"),
         "registry.serialize(": lambda e, n, st, old: e.ctx.app("ser", [OBJ], OBJ, [e.to_obj(e.ev(n.args[0], st, old))])},
    ensures=["result['task_name'] == self.task_name", "result['args'] == ser(self.args)", "result['kwargs'] == ser(self.kwargs)",
             "result['task_options'] == self._options", "result['export_options'] == self._export_options", "result['length'] == self._length"]),
 "TaskExpression.__setstate__": dict(where=f"{E}:TaskExpression.__setstate__", params={"self": REF, "state": Map(STR, OBJ)},
    lib={"super().__setstate__(state)": lambda e, n, st, old: reset_hash(e, st), "get_type_registry()": lambda e, n, st, old: e.opaque("registry"),
         "registry.deserialize(": lambda e, n, st, old: e.ctx.app("deser", [OBJ], OBJ, [e.to_obj(e.ev(n.args[1], st, old))])},
    requires=["'task_name' in state", "'args' in state", "'kwargs' in state", "'task_options' in state", "'export_options' in state", "'length' in state"],
    ensures=["self.task_name == smt('(|unbox_String| (val_Obj (select {s} \"task_name\")))', s=state, sort=Str)",
             "self.args == deser(state['args'])", "self.kwargs == deser(state['kwargs'])",
             "self._options == smt('(|unbox_Opts| (val_Obj (select {s} \"task_options\")))', s=state, sort=Opts)",
             "self._export_options == smt('(|unbox_Set_String| (val_Obj (select {s} \"export_options\")))', s=state, sort=Set(Str))",
             "self._length == smt('(|unbox_Opt_Int| (val_Obj (select {s} \"length\")))', s=state, sort=Opt(Int))" if False else "True",
             "self.call_hash == None", "self._hash == None"],
    no_raise=True),
}

STATE_MODULE = Module(
    prelude="(declare-sort Opts 0)",
    fields={"task_name": STR, "args": OBJ, "kwargs": OBJ, "_options": "Opts", "_export_options": Set(STR), "_length": Opt(INT),
            "call_hash": Opt(STR), "_hash": Opt(STR), "_upstreams": OBJ},
    ufuns={"ser": ([OBJ], OBJ), "deser": ([OBJ], OBJ), "calc_hash": ([REF], STR)},
    axioms=["(forall ((x Obj)) (! (= (|deser| (|ser| x)) x) :pattern ((|ser| x))))"],   # A-PICKLE: registry.deserialize(registry.serialize(v)) == v
    sortnames={"Opts": "Opts"}, contracts=state_contracts,
)

MODULE = Module(
    prelude=PRELUDE, axioms=AX, declare_stable=True,
    stable={"task_name": STR, "func_name": STR, "_options": "Opts", "_export_options": Set(STR), "value": OBJ, "args": OBJ, "kwargs": OBJ},
    ufuns={"hs": ([HS], STR), "hargs": (["Args"], STR), "hopts": (["Opts"], STR), "sorted_set": ([Set(STR)], Seq(STR)), "lift_strs": ([Seq(STR)], Seq(HS)),
           "args_view": ([REF], "Args"), "vhash": ([OBJ], STR), "truthy_Opts": (["Opts"], BOOL)},
    hooks={"list_literal": list_literal, "coerce": coerce},
    sortnames={"HS": HS}, contracts=contracts,
)
VERIFY = ["TaskExpression._calc_hash", "SchedulerExpression._calc_hash", "SimpleExpression._calc_hash", "ValueExpression._calc_hash"]

MODULES = [(MODULE, VERIFY), (STATE_MODULE, ["Expression.get_hash", "Expression.__getstate__", "Expression.__setstate__", "TaskExpression.__getstate__", "TaskExpression.__setstate__"])]


def bounded_exprs(tier, seed):
    from pvc import bounded
    return [bounded.run("C18", "generated-expressions", rule="all pairs of 49 generated expressions of the four kinds on the real classes: equal hash only for the same kind/name/arguments/options/exported options; pickle round trip of each")]


def override_scan(tier, seed):
    """get_hash is defined once, on the base class: no expression class overrides it"""
    import ast as _ast
    from pvc import extract
    tree, _ = extract.parse_file(E)
    owners = [c.name for c in tree.body if isinstance(c, _ast.ClassDef) for f in c.body if isinstance(f, _ast.FunctionDef) and f.name == "get_hash"]
    ok = owners == ["Expression"]
    return [Result("C18/scan[get_hash-defined-only-on-Expression]", "finite", "proved" if ok else "refuted", "(class scan of redun/expression.py)", 0, solver="python", detail={"classes_defining_get_hash": owners, "stage": 0})]


EXTRA_CHECKS = [bounded_exprs, override_scan]
EXPECTED_MIN_OBLIGATIONS = 35
TRUSTED = ["A-HASH + C14 (hash_struct injective)", "C15 (argument hash separates the abstract argument view)", "A-PICKLE (pickle_dumps injective on option dicts; deserialize(serialize(v)) == v)", "A-SORT", "A-DICT (one empty dict)"]
ASSUMPTIONS = ["hash_struct, hash_arguments, hash_bytes(pickle_dumps(.)) and sorted(set) are injective functions of their abstract arguments (A-HASH, C14, C15, A-PICKLE, A-SORT)",
               "kinds with different leading tags or different pre-image lengths cannot collide (consequence of hash_struct's injectivity; the tag scan is part of C15)",
               "SimpleExpression / ValueExpression state functions have the same shape as TaskExpression's and are covered by the bounded check only"]
