"""C35 Configuration survives conversion to a dictionary and back -- contracts on the two closures of Config.get_config_dict (redun/config.py).

configparser is library code: A-INI models ExtendedInterpolation by an uninterpreted function interp (raw option text -> effective value) with
the one law the round trip needs: doubling every dollar sign escapes a text, interp(replace(v, '$', '$$')) == v.  The dictionary form is read
back with Config(config_dict=...) = read_dict, which stores the texts as raw option values; so every text put into the dictionary must
interpolate back to the effective value it was taken from."""
from pvc.smt import *
from pvc.core import Module

PROPERTY = "C35"
C = "redun/config.py"
SEC = Map(STR, STR)


def lib_items(e, n, st, old):
    """obj.items() on a SectionProxy: option name -> effective (interpolated) value"""
    return ("mapview", "items", e.ctx.app("effective", [REF], SEC, [st.env["obj"]]))


def isinst(e, v, nm, st):
    if nm == "SectionProxy" and isinstance(v, T) and v.sort == REF:
        return e.ctx.app("is_section", [REF], BOOL, [v]).s
    return None


AX = [
 # A-INI: escaping law of ExtendedInterpolation
 "(forall ((v String)) (! (= (|interp| (|str_replace2| v \"$\" \"$$\")) v) :pattern ((|str_replace2| v \"$\" \"$$\"))))",
 # str.replace leaves a text without the pattern unchanged
 "(forall ((s String) (a String) (b String)) (! (=> (not (str.contains s a)) (= (|str_replace2| s a b) s)) :pattern ((|str_replace2| s a b))))",
]
contracts = {
 "substitute_config_dir": dict(where=f"{C}:Config.get_config_dict.substitute_config_dir", params={"s": STR, "replace_config_dir": Opt(STR), "local_config_dir": STR}, returns=STR,
    ensures=["result == (str_replace2(s, local_config_dir, val(replace_config_dir)) if replace_config_dir != None else s)"]),
 "substitute_config_dir#": dict(where=f"{C}:Config.get_config_dict.substitute_config_dir", params={"s": STR}, returns=STR, pure="subst"),
 "convert_to_dict": dict(where=f"{C}:Config.get_config_dict.convert_to_dict", params={"path": STR, "obj": REF, "result": Map(STR, SEC)},
    requires=["is_section(obj)"], lib={"obj.items()": lib_items},
    # the section's entry in the dictionary has exactly the section's options, and each text interpolates back to the (substituted) effective value
    ensures=["path in final(result)",
             "forall(k, Str, (k in final(result)[path]) == (k in effective(obj)))",
             "forall(k, Str, implies(k in effective(obj), interp(final(result)[path][k]) == subst(effective(obj)[k])))",
             "forall(p, Str, implies(p != path, final(result).get(p) == result.get(p)))"]),
}
MODULE = Module(ufuns={"effective": ([REF], SEC), "interp": ([STR], STR), "subst": ([STR], STR), "str_replace2": ([STR, STR, STR], STR), "is_section": ([REF], BOOL)},
                axioms=AX, hooks={"isinstance": isinst}, contracts={"substitute_config_dir": contracts["substitute_config_dir#"], "convert_to_dict": contracts["convert_to_dict"]})
SUB_MODULE = Module(ufuns={"str_replace2": ([STR, STR, STR], STR)}, contracts={"substitute_config_dir": contracts["substitute_config_dir"]})
MODULES = [(SUB_MODULE, ["substitute_config_dir"]), (MODULE, ["convert_to_dict"])]


def bounded_configs(tier, seed):
    from pvc import bounded
    return [bounded.run(PROPERTY, "generated-configs", rule="all configurations with <= 2 sections from {a, a.b, b, a.b.c} x <= 2 options x values from an alphabet with literal dollars ($$), references (${x}), "
                        "the local config dir, spaces and percent signs, read from INI text: Config(config_dict=c.get_config_dict()) has the same sections, nesting and effective values; "
                        "get_config_dict(replace_config_dir=R) changes exactly the values that contain the local config dir")]


def local_dir_source(tier, seed):
    """the closures are verified for an arbitrary local_config_dir; here: the directory they are given is the one redun.cli.get_config_dir()
    returns (the machine-local config dir the documentation of replace_config_dir speaks of), bound once, before the closures run"""
    import ast
    from pvc import extract
    from pvc.result import Result
    fn = extract.find("redun/config.py:Config.get_config_dict")
    stores = [x for x in ast.walk(fn) if isinstance(x, (ast.Assign, ast.AnnAssign, ast.AugAssign))
              and any(isinstance(t, ast.Name) and t.id == "local_config_dir" for t in (x.targets if isinstance(x, ast.Assign) else [x.target]))]
    uses = [x for x in ast.walk(fn) if isinstance(x, ast.Name) and x.id == "local_config_dir" and isinstance(x.ctx, ast.Load)]
    if not stores or not uses:
        status, why = "undecided", "the closure variable local_config_dir no longer exists under that name"
    else:
        ok = len(stores) == 1 and isinstance(stores[0].value, ast.Call) and ast.unparse(stores[0].value.func).split(".")[-1] == "get_config_dir" and not stores[0].value.args
        status, why = ("proved", "local_config_dir = get_config_dir()") if ok else ("refuted", "local_config_dir is bound to " + ast.unparse(stores[0].value)[:80])
    return [Result("get_config_dict/local-config-dir-is-get_config_dir()", "finite", status, "Config.get_config_dict", fn.lineno, solver="python", detail={"observed": why, "stage": 0})]


EXTRA_CHECKS = [bounded_configs, local_dir_source]
EXPECTED_MIN_OBLIGATIONS = 8
TRUSTED = ["A-INI (configparser.ExtendedInterpolation as an uninterpreted function with the dollar-doubling escape law)", "str.replace as an uninterpreted function that is the identity on texts without the pattern",
           "ConfigParser.read_dict stores option texts verbatim; SectionProxy.items() yields effective values"]
ASSUMPTIONS = [
    "Config._parse_sections (nested dictionaries built through an aliased pointer) is outside the encoded subset: sections and nesting are compared by the bounded check only",
    "the recursion of convert_to_dict over nested sections is covered for the leaf case (a SectionProxy); the traversal of the nesting is exercised by the bounded check",
    "environment variables referenced by ${NAME} are resolved when the dictionary is produced (effective values), as the docstring intends",
]
