"""C15 Cache keys separate every distinct call and only those -- pre-image contracts on redun/hashing.py and task.hash_args_eval."""
import ast
from pvc.smt import *
from pvc.core import Module
from pvc import extract, solve
from pvc.result import Result

PROPERTY = "C15"
H = "redun/hashing.py"
TK = "redun/task.py"
S = "redun/scheduler.py"
HS = "HS"

PRELUDE = ("(declare-datatypes ((HS 0) (Opt_HS 0)) (((HStr (hstr String)) (HList (hitems (Seq HS))) (HMap (hmap (Array String Opt_HS)))) "
           "((None_HS) (Some_HS (val_HS HS)))))")
AX = [
 # lifting lists / dicts of hash strings into the structure datatype
 "(forall ((xs (Seq String))) (! (= (seq.len (|lift_strs| xs)) (seq.len xs)) :pattern ((|lift_strs| xs))))",
 "(forall ((xs (Seq String)) (i Int)) (! (=> (and (>= i 0) (< i (seq.len xs))) (= (seq.nth (|lift_strs| xs) i) (HStr (seq.nth xs i)))) :pattern ((seq.nth (|lift_strs| xs) i))))",
 "(forall ((m (Array String Opt_String)) (k String)) (! (= (select (|lift_map| m) k) (ite ((_ is Some_String) (select m k)) (Some_HS (HStr (val_String (select m k)))) None_HS)) :pattern ((select (|lift_map| m) k))))",
 # A-HASH + C14: hash_struct = sha512-prefix of the canonical encoding; both injective => hs injective
 "(forall ((a HS) (b HS)) (! (=> (= (|hs| a) (|hs| b)) (= a b)) :pattern ((|hs| a) (|hs| b))))",
]


def hetero(eng, items):
    """list literal of a hash pre-image: strings, lists of hash strings, dicts of hash strings"""
    out = []
    if not items:
        return None
    for i in items:
        if isinstance(i, T) and i.sort == STR:
            out.append(f"(seq.unit (HStr {i.s}))")
        elif isinstance(i, T) and i.sort == Seq(STR):
            out.append(f"(seq.unit (HList (|lift_strs| {i.s})))")
        elif isinstance(i, T) and i.sort == Map(STR, STR):
            out.append(f"(seq.unit (HMap (|lift_map| {i.s})))")
        elif isinstance(i, T) and i.sort == HS:
            out.append(f"(seq.unit {i.s})")
        else:
            return None
    return T(HS, "(HList (seq.++ " + " ".join(out) + "))") if len(out) > 1 else T(HS, f"(HList {out[0]})")


def list_literal(eng, items):
    """pre-image list literals: [tag, hash, ...] whose first element is a string literal (the type tag)"""
    if items and isinstance(items[0], T) and items[0].sort == STR and items[0].s.startswith('"'):
        return hetero(eng, items)
    return None


PRE_ARGS = "hs(smt('(HList (seq.++ (seq.unit (HStr \"TaskArguments\")) (seq.unit (HList (|lift_strs| {p}))) (seq.unit (HMap (|lift_map| {k})))))', p=pos_hashes(type_registry, args), k=kw_hashes(type_registry, kwargs), sort=HS))"

contracts = {
 "hash_struct": dict(where=f"{H}:hash_struct", params={"struct": HS}, returns=STR, pure="hs"),
 "hash_positional_args": dict(where=f"{H}:hash_positional_args", params={"type_registry": REF, "args": Seq(OBJ)}, returns=Seq(STR),
    ensures=["len(result) == len(args)", "forall(i, Int, implies(0 <= i and i < len(args), result[i] == vh(type_registry, args[i])))"],
    lib={"type_registry.get_hash(": lambda e, n, st, old: e.ctx.app("vh", [REF, OBJ], STR, [st.env["type_registry"], e.to_obj(e.ev(n.args[0], st, old))])}),
 "hash_kwargs": dict(where=f"{H}:hash_kwargs", params={"type_registry": REF, "kwargs": Map(STR, OBJ)}, returns=Map(STR, STR),
    ensures=["forall(k, Str, result.get(k) == (Some(vh(type_registry, kwargs[k])) if k in kwargs else None))"],
    lib={"type_registry.get_hash(": lambda e, n, st, old: e.ctx.app("vh", [REF, OBJ], STR, [st.env["type_registry"], e.to_obj(e.ev(n.args[0], st, old))])}),
 "hash_arguments": dict(where=f"{H}:hash_arguments", params={"type_registry": REF, "args": Seq(OBJ), "kwargs": Map(STR, OBJ)}, returns=STR,
    ghost_local={"ph": Seq(STR), "kh": Map(STR, STR)},
    after_call={("hash_positional_args", 0): "ph = result", ("hash_kwargs", 0): "kh = result"},
    ensures=["result == hs(smt('(HList (seq.++ (seq.unit (HStr \"TaskArguments\")) (seq.unit (HList (|lift_strs| {p}))) (seq.unit (HMap (|lift_map| {k})))))', p=ph, k=kh, sort=HS))",
             "len(ph) == len(args)", "forall(i, Int, implies(0 <= i and i < len(args), ph[i] == vh(type_registry, args[i])))",
             "forall(k, Str, kh.get(k) == (Some(vh(type_registry, kwargs[k])) if k in kwargs else None))"]),
 "hash_eval": dict(where=f"{H}:hash_eval", params={"type_registry": REF, "task_hash": STR, "args": Seq(OBJ), "kwargs": Map(STR, OBJ)}, returns=[STR, STR],
    ensures=["result0 == hs(smt('(HList (seq.++ (seq.unit (HStr \"Eval\")) (seq.unit (HStr {t})) (seq.unit (HStr {a}))))', t=task_hash, a=result1, sort=HS))"]),
 "hash_call_node": dict(where=f"{H}:hash_call_node", params={"task_hash": STR, "args_hash": STR, "result_hash": STR, "child_call_hashes": Seq(STR)}, returns=STR,
    ensures=["result == hs(smt('(HList (seq.++ (seq.unit (HStr \"CallNode\")) (seq.unit (HStr {t})) (seq.unit (HStr {a})) (seq.unit (HStr {r})) (seq.unit (HList (|lift_strs| (|sorted_strs| {c}))))))', t=task_hash, a=args_hash, r=result_hash, c=child_call_hashes, sort=HS))"],
    lib={"sorted(child_call_hashes)": lambda e, n, st, old: e.ctx.app("sorted_strs", [Seq(STR)], Seq(STR), [st.env["child_call_hashes"]])}),
 "get_arg_defaults": dict(where=f"{S}:get_arg_defaults", params={"task": REF, "args": Seq(OBJ), "kwargs": Map(STR, OBJ)}, returns=Map(STR, OBJ),
    locals={"default_kwargs": Map(STR, OBJ)},
    ensures=["forall(i, Int, implies(0 <= i and i < len(params_of(task)) and not (i < len(args) and is_positional(params_of(task)[i])) and not (pname(params_of(task)[i]) in kwargs) and has_default(params_of(task)[i]), "
             "result.get(pname(params_of(task)[i])) == Some(pdefault(params_of(task)[i]))))",
             "forall(k, Str, implies(k in result, exists(i, Int, 0 <= i and i < len(params_of(task)) and not (i < len(args) and is_positional(params_of(task)[i])) and pname(params_of(task)[i]) == k and not (k in kwargs) and has_default(params_of(task)[i]))))"],
    requires=["forall(i, Int, forall(j, Int, implies(0 <= i and i < j and j < len(params_of(task)), pname(params_of(task)[i]) != pname(params_of(task)[j]))))"],
    loops={0: ["forall(i, Int, implies(0 <= i and i < index(0) and not (i < len(args) and is_positional(params_of(task)[i])) and not (pname(params_of(task)[i]) in kwargs) and has_default(params_of(task)[i]), "
               "default_kwargs.get(pname(params_of(task)[i])) == Some(pdefault(params_of(task)[i]))))",
               "forall(k, Str, implies(k in default_kwargs, exists(i, Int, 0 <= i and i < index(0) and not (i < len(args) and is_positional(params_of(task)[i])) and pname(params_of(task)[i]) == k and not (k in kwargs) and has_default(params_of(task)[i]))))"]}),
 "hash_args_eval": dict(where=f"{TK}:hash_args_eval",
    params={"type_registry": REF, "task": REF, "args": Seq(OBJ), "kwargs": Map(STR, OBJ)}, returns=[STR, STR],
    locals={"var_param_name": Opt(STR), "positional_names": Seq(STR)},
    lib={"task.get_task_option('config_args', [])": lambda e, n, st, old: e.ctx.app("config_args", [REF], Seq(STR), [st.env["task"]])},
    loops={0: ["implies(var_param_name != None, exists(j, Int, 0 <= j and j < len(params_of(task)) and is_var_positional(params_of(task)[j]) and val(var_param_name) == pname(params_of(task)[j])))"]},
    before_call={("hash_eval", 0): [
        "arg1 == task.hash",
        # keyword arguments: exactly the kept ones, with their values
        "forall(k, Str, arg3.get(k) == (kwargs.get(k) if (k in kwargs and not (k in config_args(task)) and not isinst_JobInfo(kwargs[k])) else None))"]}),
}


def params_enum(eng, st):
    """enumerate(sig.parameters.values()) == [(i, params_of(task)[i])] (inspect.Signature: ordered, names unique)"""
    ps = eng.ctx.app("params_of", [REF], Seq("Param"), [st.env["task"]])
    return ("enum", ps)


def params_values(eng, st):
    return eng.ctx.app("params_of", [REF], Seq("Param"), [st.env["task"]])


def pattr(eng, o, st, old, which):
    if isinstance(o, T) and o.sort == "Param":
        if which == "name":
            return eng.ctx.app("pname", ["Param"], STR, [o])
        if which == "default":
            return eng.ctx.app("pdefault", ["Param"], OBJ, [o])
    return NotImplemented


def kind_prop(eng, o):
    if isinstance(o, T) and o.sort == "Param":
        return eng.ctx.app("kind_of", ["Param"], "Kind", [o])
    return NotImplemented


def cmp_hook(eng, op, a, b, st, n):
    """param.default is not param.empty ; param.kind == inspect.Parameter.VAR_POSITIONAL"""
    if isinstance(n, ast.Compare) and isinstance(n.left, ast.Attribute) and n.left.attr == "kind" and isinstance(n.comparators[0], ast.Tuple) and sorted(ast.unparse(e).split(".")[-1] for e in n.comparators[0].elts) == ["POSITIONAL_ONLY", "POSITIONAL_OR_KEYWORD"]:
        p = eng.ev(n.left.value, st)
        if isinstance(p, T) and p.sort == "Param":
            r = eng.ctx.app("is_positional", ["Param"], BOOL, [p])
            return r if isinstance(op, ast.In) else T(BOOL, f"(not {r.s})")
    if isinstance(n, ast.Compare) and isinstance(n.left, ast.Attribute) and n.left.attr == "kind" and ast.unparse(n.comparators[0]).endswith("VAR_POSITIONAL"):
        p = eng.ev(n.left.value, st)
        if isinstance(p, T) and p.sort == "Param":
            r = eng.ctx.app("is_var_positional", ["Param"], BOOL, [p])
            return r if isinstance(op, ast.Eq) else T(BOOL, f"(not {r.s})")
    if isinstance(n, ast.Compare) and isinstance(n.left, ast.Attribute) and n.left.attr == "default" and isinstance(n.comparators[0], ast.Attribute) and n.comparators[0].attr == "empty":
        p = eng.ev(n.left.value, st)
        if isinstance(p, T) and p.sort == "Param":
            hd = eng.ctx.app("has_default", ["Param"], BOOL, [p])
            return hd if isinstance(op, ast.IsNot) else T(BOOL, f"(not {hd.s})")
    return None


def sig_prop(eng, o, st, old):
    if isinstance(o, T) and o.sort == REF:
        return eng.ctx.app("sig_of", [REF], "Sig", [o])
    return NotImplemented


def parameters_prop(eng, o, st, old):
    if isinstance(o, T) and o.sort == "Sig":
        return T("Params", f"(|params_obj| {o.s})")
    return NotImplemented


def iter_hook(eng, v, st):
    """iterating sig.parameters yields the parameter names in signature order"""
    if v.sort == "Params":
        return eng.ctx.app("pnames", ["Params"], Seq(STR), [v])
    return None


def method_hook(eng, recv, at, n, st, old):
    if recv.sort == "Params" and at == "values":
        return eng.ctx.app("pvalues", ["Params"], Seq("Param"), [recv])
    return None


def len_hook(eng, v, st):
    if v.sort == "Params":
        return T(INT, f"(seq.len (|pvalues| {v.s}))")
    return None


SIG_AX = [
    "(forall ((t Ref)) (! (= (|pvalues| (|params_obj| (|sig_of| t))) (|params_of| t)) :pattern ((|params_of| t))))",
    "(forall ((t Ref)) (! (= (|pvalues| (|params_obj| (|sig_of| t))) (|params_of| t)) :pattern ((|pvalues| (|params_obj| (|sig_of| t))))))",
    "(forall ((p Params)) (! (= (seq.len (|pnames| p)) (seq.len (|pvalues| p))) :pattern ((|pnames| p))))",
    "(forall ((p Params) (i Int)) (! (=> (and (>= i 0) (< i (seq.len (|pvalues| p)))) (= (seq.nth (|pnames| p) i) (|pname| (seq.nth (|pvalues| p) i)))) :pattern ((seq.nth (|pnames| p) i))))",
]

MODULE = Module(
    prelude=PRELUDE + "\n(declare-sort Param 0)\n(declare-sort Sig 0)\n(declare-sort Params 0)\n(declare-sort Kind 0)", predeclared_opts=[Opt(HS)], axioms=AX + SIG_AX,
    stable={"hash": STR},
    ufuns={"hs": ([HS], STR), "lift_strs": ([Seq(STR)], Seq(HS)), "lift_map": ([Map(STR, STR)], Map(STR, HS)), "vh": ([REF, OBJ], STR),
           "sorted_strs": ([Seq(STR)], Seq(STR)), "params_of": ([REF], Seq("Param")), "pname": (["Param"], STR), "pdefault": (["Param"], OBJ),
           "has_default": (["Param"], BOOL), "is_var_positional": (["Param"], BOOL), "is_positional": (["Param"], BOOL), "config_args": ([REF], Seq(STR)), "isinst_JobInfo": ([OBJ], BOOL),
           "sig_of": ([REF], "Sig"), "params_obj": (["Sig"], "Params"), "pnames": (["Params"], Seq(STR)), "pvalues": (["Params"], Seq("Param")), "pos_hashes": ([REF, Seq(OBJ)], Seq(STR)), "kw_hashes": ([REF, Map(STR, OBJ)], Map(STR, STR))},
    hooks={"hetero_list": hetero, "list_literal": list_literal, "cmp": cmp_hook, "iter": iter_hook, "method": method_hook, "len": len_hook},
    props={"name": lambda e, o, st, old: pattr(e, o, st, old, "name"), "default": lambda e, o, st, old: pattr(e, o, st, old, "default"),
           "signature": sig_prop, "parameters": parameters_prop, "kind": lambda e, o, st, old: kind_prop(e, o)},
    sortnames={"HS": HS, "Param": "Param"},
    contracts=contracts,
)
VERIFY = ["hash_positional_args", "hash_kwargs", "hash_arguments", "hash_eval", "hash_call_node", "get_arg_defaults", "hash_args_eval"]


import importlib.util, os
_spec = importlib.util.spec_from_file_location("contracts_c14_for_c15", os.path.join(os.path.dirname(__file__), "c14.py"))
_c14 = importlib.util.module_from_spec(_spec)
_spec.loader.exec_module(_c14)
# keyword-order independence of every key rests on the canonical encoding emitting mapping items in sorted key order (C14's contract)
MODULES = [(MODULE, VERIFY), (_c14.MODULE, ["_encode_mapping"])]


def tag_scan(tier, seed):
    """every hash_struct([...]) pre-image in the package starts with a type tag; tags of different record kinds are pairwise distinct"""
    sites = {}
    bad = []
    for rel in extract.all_repo_files():
        tree, src = extract.parse_file(rel)
        if "hash_struct" not in src:
            continue
        for x in ast.walk(tree):
            if isinstance(x, ast.Call) and isinstance(x.func, ast.Name) and x.func.id == "hash_struct" and x.args:
                a = x.args[0]
                first = None
                if isinstance(a, ast.List) and a.elts:
                    first = a.elts[0]
                else:
                    b = a
                    while isinstance(b, ast.BinOp):
                        b = b.left
                    if isinstance(b, ast.List) and b.elts:
                        first = b.elts[0]
                if isinstance(first, ast.Constant) and isinstance(first.value, str):
                    sites.setdefault(first.value, []).append(f"{rel}:L{x.lineno}")
                elif first is not None and isinstance(first, ast.Attribute) and first.attr in ("type_name", "type_basename"):
                    sites.setdefault("<" + first.attr + ">", []).append(f"{rel}:L{x.lineno}")
                elif rel.endswith("expression.py") and isinstance(a, ast.Call):
                    sites.setdefault("<untagged list(sorted(export options))>", []).append(f"{rel}:L{x.lineno}")
                else:
                    bad.append(f"{rel}:L{x.lineno} {ast.unparse(a)[:60]}")
    # record kinds the property names must each own a tag used nowhere else (File variants share 'File' by design)
    kinds = ["Eval", "TaskArguments", "CallNode", "Tag", "Task", "TaskExpression", "SimpleExpression", "SchedulerExpression", "ValueExpression", "Argument"]
    missing = [k for k in kinds if k not in sites]
    status = "proved" if not bad and not missing else "refuted"
    return [Result("C15/tags[distinct-leading-type-tags]", "finite", status, "(package scan)", 0, solver="python",
                   detail={"tags": {k: v for k, v in sites.items()}, "untagged": bad, "missing": missing, "stage": 0})]


SEP = """(set-logic ALL)
(declare-datatypes ((HS 0)) (((HStr (hstr String)) (HList (hitems (Seq HS))) (HMap (hmap (Array String String))))))
(declare-fun hs (HS) String)
(assert (forall ((a HS) (b HS)) (! (=> (= (hs a) (hs b)) (= a b)) :pattern ((hs a) (hs b)))))
(declare-const t1 String) (declare-const t2 String) (declare-const p1 HS) (declare-const p2 HS) (declare-const k1 HS) (declare-const k2 HS)
(define-fun argsh ((p HS) (k HS)) String (hs (HList (seq.++ (seq.unit (HStr "TaskArguments")) (seq.unit p) (seq.unit k)))))
(define-fun evalh ((t String) (p HS) (k HS)) String (hs (HList (seq.++ (seq.unit (HStr "Eval")) (seq.unit (HStr t)) (seq.unit (HStr (argsh p k)))))))
(assert (= (evalh t1 p1 k1) (evalh t2 p2 k2)))
(assert (not (and (= t1 t2) (= p1 p2) (= k1 k2))))
(check-sat)"""


def lemmas(tier, seed):
    out = []
    for sv in ("z3", "cvc5"):
        r, ms, _ = solve.run1(sv, SEP, 30)
        if r == "unsat":
            return [Result("lemma/eval-key-separates-task-hash-positional-hashes-keyword-hashes", "lemma", "proved", "(spec level, over the proved pre-images)", 0, solver=sv, ms=ms, detail={"stage": 1})]
    return [Result("lemma/eval-key-separates-task-hash-positional-hashes-keyword-hashes", "lemma", "undecided", "(spec level)", 0, detail={"last": r})]


def bounded_sigs(tier, seed):
    from pvc import bounded
    return [bounded.run("C15", "generated-signatures", rule="8 signature shapes (positional-only, variadic, keyword-only, **kwargs) x config-arg choices x all pairs of 14 calls on the real hash_args_eval/get_arg_defaults: keys differ iff a kept argument differs")]


EXTRA_CHECKS = [tag_scan, lemmas, bounded_sigs]
EXPECTED_MIN_OBLIGATIONS = 30
TRUSTED = ["A-HASH (sha512 prefix collision-free) + C14 (canonical encoding injective): hs injective", "A-DICT", "inspect.Signature (ordered parameters with unique names)", "type_registry.get_hash as the value-hash function vh (C16)"]
ASSUMPTIONS = [
    "hs = hash_struct is injective (A-HASH composed with the injectivity of the canonical encoding, which C14 decides only boundedly)",
    "vh(registry, value) = TypeRegistry.get_hash(value) is a function of the value (C16)",
    "inspect.signature: parameters are ordered, names unique, kinds as documented; iteration over sig.parameters yields names in order",
    "hash_args_eval's positional filtering (which values are kept) is decided by the bounded check only: the sequence-level filter equalities need induction the solvers do not find; its keyword filtering and the task-hash argument are proved",
]
