"""C26 Context is inherited and overridden as documented -- contracts on the real context functions."""
import ast
from pvc.smt import *
from pvc.core import Module, RaiseEx

PROPERTY = "C26"
CTXF = "redun/context.py"
U = "redun/utils.py"
S = "redun/scheduler.py"
TK = "redun/task.py"
VAL = "Val"
DMAP = Map(STR, VAL)

# nested context values: leaves or string-keyed dicts (Opt_Val declared here because the datatypes are mutually recursive)
PRELUDE = """(declare-datatypes ((Val 0) (Opt_Val 0)) (((VLeaf (leaf Obj)) (VDict (dmap (Array String Opt_Val)))) ((None_Val) (Some_Val (val_Val Val)))))"""
DEFS = """
(define-fun-rec lookup ((v Val) (parts (Seq String)) (i Int)) Opt_Val
  (ite (or (< i 0) (>= i (seq.len parts))) (Some_Val v)
  (ite (not ((_ is VDict) v)) None_Val
  (ite (not ((_ is Some_Val) (select (dmap v) (seq.nth parts i)))) None_Val
       (lookup (val_Val (select (dmap v) (seq.nth parts i))) parts (+ i 1))))))
(define-fun-rec collect ((ds (Seq Val)) (i Int) (k String)) (Seq Val)
  (ite (<= i 0) (as seq.empty (Seq Val))
    (ite (and ((_ is VDict) (seq.nth ds (- i 1))) ((_ is Some_Val) (select (dmap (seq.nth ds (- i 1))) k)))
         (seq.++ (collect ds (- i 1) k) (seq.unit (val_Val (select (dmap (seq.nth ds (- i 1))) k))))
         (collect ds (- i 1) k))))
"""

# merge_spec: the documented n-ary deep merge (later values win, mappings merged key-wise, recursively)
MERGE_AXIOMS = [
    "(forall ((ds (Seq Val))) (! (=> (= (seq.len ds) 1) (= (|merge_spec| ds) (seq.nth ds 0))) :pattern ((|merge_spec| ds))))",
    "(forall ((ds (Seq Val))) (! (=> (and (not (= (seq.len ds) 1)) (exists ((i Int)) (and (>= i 0) (< i (seq.len ds)) (not ((_ is VDict) (seq.nth ds i))))))"
    " (= (|merge_spec| ds) (seq.nth ds (- (seq.len ds) 1)))) :pattern ((|merge_spec| ds))))",
    "(forall ((ds (Seq Val))) (! (=> (and (not (= (seq.len ds) 1)) (forall ((i Int)) (=> (and (>= i 0) (< i (seq.len ds))) ((_ is VDict) (seq.nth ds i)))))"
    " (and ((_ is VDict) (|merge_spec| ds))"
    "      (forall ((k String)) (= (select (dmap (|merge_spec| ds)) k)"
    "          (ite (> (seq.len (collect ds (seq.len ds) k)) 0) (Some_Val (|merge_spec| (collect ds (seq.len ds) k))) None_Val)))))"
    " :pattern ((|merge_spec| ds))))",
]


def val_as_map(eng, recv):
    if recv.sort == VAL:
        return T(DMAP, f"(dmap {recv.s})")
    return None


def val_coerce(eng, t, sort):
    if sort == VAL and isinstance(t, EmptyV):
        return T(VAL, "(VDict ((as const (Array String Opt_Val)) None_Val))")
    if sort == VAL and isinstance(t, T) and t.sort == DMAP:
        return T(VAL, f"(VDict {t.s})")
    if sort == VAL and isinstance(t, T) and t.sort == Opt(VAL):
        return unopt(t)
    return None


def val_hetero(eng, items):
    """list literal mixing dict-typed and Val-typed context pieces: everything is a Val"""
    if all(isinstance(i, (T, EmptyV)) and (isinstance(i, EmptyV) or i.sort in (VAL, DMAP, Opt(VAL))) for i in items):
        return eng.seq_of([eng.coerce(i, VAL) for i in items], VAL)
    return None


def val_isinstance(eng, v, nm, st):
    if v.sort == VAL and nm == "dict":
        return f"((_ is VDict) {v.s})"
    return None


def val_subscript(eng, n, a, k, st):
    if a.sort == VAL and isinstance(k, T) and k.sort == STR:
        e = T(Opt(VAL), f"(select (dmap {a.s}) {k.s})")
        if eng.spec_mode or eng.branch(is_some(e), st):
            return unopt(e)
        raise RaiseEx("KeyError", None, n.lineno)
    return None


contracts = {
 "get_context_value": dict(where=f"{CTXF}:get_context_value",
    params={"context": VAL, "var_path": STR, "default": VAL}, returns=VAL,
    requires=["smt('((_ is VDict) {c})', c=context)"],
    ensures=["result == (val(lookup(context, split_dot(var_path), 0)) if lookup(context, split_dot(var_path), 0) != None else default)"],
    no_raise=True,
    lib={"var_path.split('.')": lambda e, n, st, old: e.ctx.app("split_dot", [STR], Seq(STR), [st.env["var_path"]])},
    loops={0: ["lookup(value, parts, index(0)) == lookup(context, parts, 0)"]}),
 "merge_dicts": dict(where=f"{U}:merge_dicts",
    params={"dicts": Seq(VAL)}, returns=VAL, pure="merge_spec",
    ensures=["result == merge_spec(dicts)"],
    locals={"key2values": Map(STR, Seq(VAL))}, defaultdicts={"key2values": "(as seq.empty (Seq Val))"},
    loops={0: ["forall(k, Str, key2values.get(k) == (Some(collect(dicts, index(0), k)) if len(collect(dicts, index(0), k)) > 0 else None))"],
           1: ["forall(k, Str, key2values.get(k) == (Some(collect(dicts, index(0), k) + ([val(dmap(dct).get(k))] if visited(1)[k] else smt('(as seq.empty (Seq Val))', sort=Seq(Val)))) "
               " if len(collect(dicts, index(0), k)) > 0 or visited(1)[k] else None))"]}),
 # dynamic dispatch: parent_job may be a Job or a JobEnv; all that is known is its own get_context() contract
 "AnyJob.get_context": dict(where=f"{S}:Job.get_context", params={"self": REF}, returns=VAL,
    ensures=["result == ctx_of(self)"], modifies=["_context"]),
 "Job.get_option": dict(where=f"{S}:Job.get_option", params={"self": REF, "key": STR, "default": VAL, "as_type": OBJ}, returns=VAL,
    ensures=["implies(key == '_context_override', result == override_of(self))"]),
 "Job.get_context": dict(where=f"{S}:Job.get_context", params={"self": REF}, returns=VAL, classes={"self": "Job"},
    requires=["implies(self._context != None, val(self._context) == CTX_SPEC)"],
    ensures=["result == CTX_SPEC", "self._context == Some(result)"]),
 "JobEnv.get_context": dict(where=f"{S}:JobEnv.get_context", params={"self": REF}, returns=VAL,
    ensures=["result == self._env_context"]),
 "Task.update_context": dict(where=f"{TK}:Task.update_context", params={"self": REF, "context": VAL, "kwargs": DMAP}, classes={"self": "Task"},
    at_call={"options": ["kw__context_override == merge_spec([(val(self._task_options_override.get('_context_override')) if '_context_override' in self._task_options_override else smt('(VDict ((as const (Array String Opt_Val)) None_Val))', sort=Val)), context, smt('(VDict {k})', k=kwargs, sort=Val)])"]}),
 "Scheduler.run": dict(where=f"{S}:Scheduler.run",
    params={"self": REF, "expr": OBJ, "exec_argv": OBJ, "dryrun": OBJ, "cache": OBJ, "tags": OBJ, "context": VAL, "execution_id": OBJ},
    ensures=["self._context == old(self._context)"], exc_ensures=["self._context == old(self._context)"],
    at_call={"Execution": ["kw_context == merge_spec([val(self._context), context])"]}),
}
for _k in contracts.values():
    for _f in ("requires", "ensures"):
        if _f in _k:
            _k[_f] = [x.replace("CTX_SPEC", "merge_spec([(ctx_of(val(self.parent_job)) if self.parent_job != None else self.execution.context), override_of(self)])") for x in _k[_f]]

MODULE = Module(
    prelude=PRELUDE, defs_text=DEFS, predeclared_opts=[Opt(VAL)],
    defs={"lookup": ([VAL, Seq(STR), INT], Opt(VAL)), "collect": ([Seq(VAL), INT, STR], Seq(VAL)), "dmap": ([VAL], DMAP)},
    fields={"_context": Opt(VAL), "parent_job": Opt(REF)},
    stable={"execution": REF, "context": VAL, "_env_context": VAL, "_task_options_override": DMAP},
    classes={"self.parent_job": "AnyJob"},
    ufuns={"split_dot": ([STR], Seq(STR)), "merge_spec": ([Seq(VAL)], VAL), "ctx_of": ([REF], VAL), "override_of": ([REF], VAL)},
    axioms=MERGE_AXIOMS,
    hooks={"isinstance": val_isinstance, "subscript": val_subscript, "as_map": val_as_map, "coerce": val_coerce, "hetero_list": val_hetero},
    sortnames={"Val": VAL},
    contracts=contracts,
)
VERIFY = ["get_context_value", "merge_dicts", "Job.get_context", "JobEnv.get_context", "Task.update_context", "Scheduler.run"]
