"""C04 / C30 external file values against a ghost filesystem -- contracts on the real redun/file.py, redun/value.py,
redun/handle.py and the validity branch of Scheduler._get_cache.

Ghost state: `fs` (abstract filesystem state, uninterpreted sort FS); every call that can change the filesystem
(filesystem.copy / mkdir / rmdir, closing a write stream) replaces it by a fresh value.  `hash_now(o, fs)` is what the
virtual call o._calc_hash() returns in filesystem state fs; every implementation of _calc_hash is verified to be total
(no exception for any fs, in particular a missing path) and to be a function of (stable attributes of o, fs) only.
"""
import ast, importlib.util, os
from pvc.smt import *
from pvc.core import Module, RaiseEx
from pvc.result import Result

PROPERTY = "C04"
F = "redun/file.py"
HS = "HS"
FS = "FS"
PRELUDE = "(declare-sort FS 0)\n(declare-datatypes ((HS 0)) (((HStr (hstr String)) (HInt (hint Int)) (HList (hitems (Seq HS))))))"
AX = [
 # sorted(...) of pointwise equal sequences is equal (extensionality, specialised to where it is needed)
 "(forall ((a (Seq String)) (b (Seq String))) (! (=> (and (= (seq.len a) (seq.len b)) (forall ((i Int)) (=> (and (>= i 0) (< i (seq.len a))) (= (seq.nth a i) (seq.nth b i))))) (= (|sorted_hs| a) (|sorted_hs| b))) :pattern ((|sorted_hs| a) (|sorted_hs| b))))",
 # validity of an arbitrary value = validity of its Value wrapper (TypeRegistry.get_value)
 "(forall ((v Obj) (f FS)) (! (= (|value_valid| v f) (|obj_valid| (|as_value| v) f)) :pattern ((|value_valid| v f))))",
]


def fs_of(st):
    return st.ghost["fs"]


def new_fs(e, st):
    st.ghost["fs"] = e.ctx.fresh(FS, "fs")
    st.ver += 1


def truthy_opt_str(t):
    return f"(and {is_some(t).s} (> (str.len {unopt(t).s}) 0))"


def cur_hash_term(e, o, st):
    """o.hash without the caching side effect: the recorded hash if there is one, else the hash of the current filesystem"""
    h = T(Opt(STR), f"(select {e.field(st, '_hash').s} {o.s})")
    now = e.ctx.app("hash_now", [REF, FS], STR, [o, fs_of(st)])
    return T(STR, f"(ite {truthy_opt_str(h)} {unopt(h).s} {now.s})")


def prop_hash(e, o, st, old):
    """the `hash` property of File / FileSet / Dir (its three bodies are verified against this behaviour below)"""
    if not isinstance(o, T) or o.sort != REF:
        return NotImplemented
    if e.cur in ("File.hash", "FileSet.hash", "Dir.hash"):
        return NotImplemented
    r = cur_hash_term(e, o, st)
    if not e.spec_mode:
        hp = e.field(st, "_hash")
        st.heap["_hash"] = T(hp.sort, f"(store {hp.s} {o.s} {some(e.ctx, r).s})")
    return r


def coerce(e, t, sort):
    if sort == HS and isinstance(t, T) and t.sort == Seq(HS):
        return T(HS, f"(HList {t.s})")
    if sort == BOOL and isinstance(t, Closure):
        # `stream.close = close`: the field records that the hashing close hook (nested def `close`, verified on its own) is installed
        return T(BOOL, "true" if getattr(t.node, "name", "") == "close" else "false")
    return None


def atom(i):
    if i.sort == STR:
        return T(HS, f"(HStr {i.s})")
    if i.sort == INT:
        return T(HS, f"(HInt {i.s})")
    return None


def list_literal(e, items):
    if items and all(isinstance(i, T) and i.sort in (STR, INT) for i in items):
        return e.seq_of([atom(i) for i in items], HS)
    return None


def it_hook(e, v, st):
    if isinstance(v, T) and isinstance(v.sort, tuple) and v.sort[0] == "Opt" and isinstance(v.sort[1], tuple) and v.sort[1][0] == "Seq":
        return unopt(v)
    return None


def lib_sorted(e, n, st, old):
    a0 = n.args[0]
    if isinstance(a0, ast.GeneratorExp):
        a0 = ast.ListComp(elt=a0.elt, generators=a0.generators)
        ast.copy_location(a0, n.args[0])
        ast.fix_missing_locations(a0)
    v = e.ev(a0, st, old)
    if isinstance(v, T) and v.sort == Seq(STR):
        return e.ctx.app("sorted_hs", [Seq(STR)], Seq(HS), [v])
    return NotImplemented


LISTING = ("len({xs}) == len(listing_hashes(self, fs)) and forall(i, Int, implies(0 <= i and i < len({xs}), "
           "{xs}[i]._hash == None and hash_now({xs}[i], fs) == listing_hashes(self, fs)[i]))")


def lib_list_self(e, n, st, old):
    """list(self) / iteration over a FileSet: fresh File objects for the paths that match now (assumed contract of FileSet.__iter__)"""
    xs = e.ctx.fresh(Seq(REF), "listing")
    st2 = st.clone()
    st2.env["$xs"] = xs
    cond = e.spec(LISTING.format(xs="__xs"), _with(st2, "__xs", xs), None)
    st.pc.append(cond.s)
    return xs


def _with(st, name, val):
    st.env[name] = val
    return st


def lib_fs_mutation(e, n, st, old):
    for a in n.args:
        e.ev(a, st, old)
    new_fs(e, st)
    return T(NONE, "none")


def lib_exists(e, n, st, old):
    o = e.ev(n.func.value, st, old)
    return e.ctx.app("obj_exists", [REF, FS], BOOL, [o, fs_of(st)])


# ---- LocalFileSystem.get_hash
def lib_os_exists(e, n, st, old):
    return e.ctx.app("fs_exists", [FS, STR], BOOL, [fs_of(st), e.ev(n.args[0], st, old)])


def lib_os_stat(e, n, st, old):
    p = e.ev(n.args[0], st, old)
    ex = e.ctx.app("fs_exists", [FS, STR], BOOL, [fs_of(st), p])
    if not e.branch(ex, st):
        # os.path.exists is False for every OSError of stat: a missing file, but also a path below a regular file (ENOTDIR), an over-long name, ...
        raise RaiseEx(("FileNotFoundError", "NotADirectoryError", "OSError")[e.choice(3)], None, n.lineno)
    r = e.ctx.fresh(REF, "stat")
    st.pc.append(f"(= (|sattr_st_size| {r.s}) (|fs_size| {fs_of(st).s} {p.s}))")
    st.pc.append(f"(= (|sattr_st_mtime| {r.s}) (|fs_mtime| {fs_of(st).s} {p.s}))")
    return r


# ---- ContentFile._calc_hash
def lib_open_rb(e, n, st, old):
    p = e.ev(n.args[0], st, old)
    ex = e.ctx.app("fs_exists", [FS, STR], BOOL, [fs_of(st), p])
    if not e.branch(ex, st):
        # FileSystem.open re-raises as RedunFileNotFoundError (a FileNotFoundError) or, for ENOTDIR / ENAMETOOLONG / ..., RedunOSError (an OSError)
        raise RaiseEx(("FileNotFoundError", "OSError")[e.choice(2)], None, n.lineno)
    r = e.ctx.fresh(REF, "stream")
    st.pc.append(f"(= (|stream_bytes| {r.s}) (|fs_bytes| {fs_of(st).s} {p.s}))")
    return r


def lib_hash_stream(e, n, st, old):
    s = e.ev(n.args[0], st, old)
    if isinstance(s, T) and s.sort == REF:
        return e.ctx.app("hstream", [STR], STR, [e.ctx.app("stream_bytes", [REF], STR, [s])])
    return NotImplemented


# ---- File.open
def lib_open_stream(e, n, st, old):
    for a in n.args:
        e.ev(a, st, old)
    r = e.ctx.fresh(REF, "stream")
    st.pc.append(f"(not (select {e.field(st, 'close').s} {r.s}))")
    return r


def binop(e, n, a, b, st):
    """set(mode) & {"w", ...}: non-empty iff mode contains one of the listed characters"""
    if isinstance(n.op, ast.BitAnd) and isinstance(n.left, ast.Call) and isinstance(n.left.func, ast.Name) and n.left.func.id == "set" \
            and len(n.left.args) == 1 and isinstance(n.right, ast.Set) and all(isinstance(x, ast.Constant) and isinstance(x.value, str) and len(x.value) == 1 for x in n.right.elts):
        m = e.ev(n.left.args[0], st, None)
        if isinstance(m, T) and m.sort == STR:
            r = e.ctx.fresh(Set(STR), "modeset")
            lits = " ".join(f"(= |q_c| {smt_str(x.value)})" for x in n.right.elts)
            st.pc.append(f"(forall ((|q_c| String)) (= (select {r.s} |q_c|) (and (or {lits}) (str.contains {m.s} |q_c|))))")
            return r
    return None


HASHED = "self._hash == Some(hash_now(self, fs))"
FRAME = "forall(o, Ref, implies(o != self, o._hash == old(o._hash)))"
G = {"fs": FS}


def struct(*parts):
    return "hs(HList(" + " + ".join(parts) + "))" if False else None


def HSL(*smt_items):
    return "(|hs| (HList (seq.++ " + " ".join(smt_items) + ")))"


contracts = {
 # ---------------------------------------------------------------- virtual calls (used at call sites; each implementation is verified below)
 "*._calc_hash": dict(where=f"{F}:File._calc_hash", params={"self": REF, "files": Opt(Seq(REF))}, defaults={"files": "None"}, returns=STR, ghost=G,
    requires=["implies(files != None, " + LISTING.format(xs="val(files)") + ")"],
    ensures=["result == hash_now(self, fs)"]),
 "*.update_hash": dict(where=f"{F}:File.update_hash", params={"self": REF}, ghost=G, ensures=[HASHED, FRAME], modifies=["_hash", "_files"]),
 "*.copy_to": dict(where=f"{F}:File.copy_to", params={"self": REF, "dest_file": REF, "skip_if_exists": BOOL}, defaults={"skip_if_exists": "False"}, returns=REF, ghost=G,
    ensures=["result == dest_file", "implies(not (skip_if_exists and obj_exists(dest_file, old(fs))), dest_file._hash == Some(hash_now(dest_file, fs)))"],
    modifies=["_hash", "fs"]),
 "*.is_valid": dict(where=f"{F}:File.is_valid", params={"self": REF}, returns=BOOL, ghost=G, ensures=["result == obj_valid(self, fs)"], modifies=["_hash", "_files"]),
 "FileSystem.get_hash": dict(where=f"{F}:FileSystem.get_hash", params={"self": REF, "path": STR}, returns=STR, ghost=G,
    ensures=["result == fs_hash(self, fs, path)"]),
 "FileSystem.iter_file_hashes": dict(where=f"{F}:FileSystem.iter_file_hashes", params={"self": REF, "path": STR}, returns=Seq(STR), ghost=G,
    ensures=["result == dir_hashes(self, fs, path)"]),
 "hash_struct": dict(where="redun/hashing.py:hash_struct", params={"struct": HS}, returns=STR, pure="hs"),

 # ---------------------------------------------------------------- hash of the current filesystem state, per implementation (all total)
 "File._calc_hash": dict(where=f"{F}:File._calc_hash", params={"self": REF}, returns=STR, ghost=G, no_raise=True,
    ensures=["result == fs_hash(self.filesystem, fs, self.path)"]),
 "LocalFileSystem.get_hash": dict(where=f"{F}:LocalFileSystem.get_hash", params={"self": REF, "path": STR}, returns=STR, ghost=G, no_raise=True,
    lib={"self.exists(": lib_os_exists, "os.path.exists(": lib_os_exists, "os.stat(": lib_os_stat},
    ensures=["implies(fs_exists(fs, path), result == hash_struct(['File', 'local', path, fs_size(fs, path), str_of(fs_mtime(fs, path))]))",
             "implies(not fs_exists(fs, path), result == hash_struct(['File', 'local', path, -1, dec(-1)]))"]),
 "IFile._calc_hash": dict(where=f"{F}:IFile._calc_hash", params={"self": REF}, returns=STR, ghost=G, no_raise=True,
    ensures=["result == hash_struct([self.type_basename, self.path])"]),
 "IFileSet._calc_hash": dict(where=f"{F}:IFileSet._calc_hash", params={"self": REF, "files": Opt(Seq(REF))}, returns=STR, ghost=G, no_raise=True,
    ensures=["result == hash_struct([self.type_basename, self.pattern])"]),
 "IDir._calc_hash": dict(where=f"{F}:IDir._calc_hash", params={"self": REF, "files": Opt(Seq(REF))}, returns=STR, ghost=G, no_raise=True,
    ensures=["result == hash_struct([self.type_basename, self.path])"]),
 "ContentFile._calc_hash": dict(where=f"{F}:ContentFile._calc_hash", params={"self": REF}, returns=STR, ghost=G, no_raise=True,
    lib={"self.filesystem.open(": lib_open_rb, "hash_stream(": lib_hash_stream,
         "self.filesystem.exists(": lambda e, n, st, old: e.ctx.app("fs_exists", [FS, STR], BOOL, [fs_of(st), e.ev(n.args[0], st, old)])},
    # content-hashed: when the file exists the hash is a function of the path and the bytes only
    ensures=["implies(fs_exists(fs, self.path), result == hash_struct([self.type_basename, self.path, hstream(fs_bytes(fs, self.path))]))"],
    # missing path: a deterministic hash (same object, path missing in both filesystem states => same hash), not an error
    relational_converse={"a missing path hashes deterministically": lambda a, b: (
        f"(and (= {a('self')} {b('self')}) (not (|fs_exists| {a('fs')} (|sattr_path| {a('self')}))) (not (|fs_exists| {b('fs')} (|sattr_path| {b('self')}))))")},
    relational={}),
 "FileSet._calc_hash": dict(where=f"{F}:FileSet._calc_hash", params={"self": REF, "files": Opt(Seq(REF))}, returns=STR, ghost=G, no_raise=True,
    lib={"list(self)": lib_list_self, "sorted(": lib_sorted},
    requires=["implies(files != None, " + LISTING.format(xs="val(files)") + ")"],
    ensures=["smt('(= {r} " + HSL("(seq.unit (HStr {tb}))", "(seq.unit (HStr {p}))", "(|sorted_hs| (|listing_hashes| {s} {f}))") + ")', r=result, tb=self.type_basename, p=self.pattern, s=self, f=fs)"]),
 "Dir._calc_hash": dict(where=f"{F}:Dir._calc_hash", params={"self": REF, "files": Opt(Seq(REF))}, returns=STR, ghost=G, no_raise=True,
    lib={"sorted(": lib_sorted},
    ensures=["smt('(= {r} " + HSL("(seq.unit (HStr {tb}))", "(seq.unit (HStr {p}))", "(|sorted_hs| (|dir_hashes| {fsys} {f} {p}))") + ")', r=result, tb=self.type_basename, p=self.path, fsys=self.filesystem, f=fs)"]),

 # ---------------------------------------------------------------- the cached hash
 "File.hash": dict(where=f"{F}:File.hash", params={"self": REF}, returns=STR, ghost=G, modifies=["_hash"],
    ensures=["result == (val(old(self._hash)) if old(self._hash) else hash_now(self, fs))", "self._hash == Some(result)", FRAME]),
 "FileSet.hash": dict(where=f"{F}:FileSet.hash", params={"self": REF}, returns=STR, ghost=G, modifies=["_hash", "_files"], lib={"list(self)": lib_list_self},
    ensures=["result == (val(old(self._hash)) if old(self._hash) else hash_now(self, fs))", "self._hash == Some(result)", FRAME]),
 "Dir.hash": dict(where=f"{F}:Dir.hash", params={"self": REF}, returns=STR, ghost=G, modifies=["_hash"],
    ensures=["result == (val(old(self._hash)) if old(self._hash) else hash_now(self, fs))", "self._hash == Some(result)", FRAME]),
 "File.update_hash": dict(where=f"{F}:File.update_hash", params={"self": REF}, ghost=G, ensures=[HASHED, FRAME], modifies=["_hash"]),
 "FileSet.update_hash": dict(where=f"{F}:FileSet.update_hash", params={"self": REF}, ghost=G, ensures=[HASHED, FRAME], modifies=["_hash", "_files"],
    lib={"list(self)": lib_list_self}),

 # ---------------------------------------------------------------- validity: exactly when the recorded hash equals the current one; never raises
 "File.is_valid": dict(where=f"{F}:File.is_valid", params={"self": REF}, returns=BOOL, ghost=G, no_raise=True, modifies=["_hash"],
    ensures=["result == (not old(self._hash) or val(old(self._hash)) == hash_now(self, fs))", FRAME]),
 "FileSet.is_valid": dict(where=f"{F}:FileSet.is_valid", params={"self": REF}, returns=BOOL, ghost=G, no_raise=True, modifies=["_hash", "_files"],
    ensures=["result == (not old(self._hash) or val(old(self._hash)) == hash_now(self, fs))", FRAME]),
 "IFile.is_valid": dict(where=f"{F}:IFile.is_valid", params={"self": REF}, returns=BOOL, ghost=G, no_raise=True, ensures=["result"]),
 "IFileSet.is_valid": dict(where=f"{F}:IFileSet.is_valid", params={"self": REF}, returns=BOOL, ghost=G, no_raise=True, ensures=["result"]),

 # ---------------------------------------------------------------- writers: afterwards the recorded hash is the hash of the filesystem as it is now
 "File.copy_to": dict(where=f"{F}:File.copy_to", params={"self": REF, "dest_file": REF, "skip_if_exists": BOOL}, returns=REF, ghost=G, modifies=["_hash"],
    lib={"dest_file.exists()": lib_exists, "dest_file.filesystem.copy(": lib_fs_mutation, "self.filesystem.copy(": lib_fs_mutation},
    ensures=["result == dest_file", "implies(not (skip_if_exists and obj_exists(dest_file, old(fs))), dest_file._hash == Some(hash_now(dest_file, fs)))",
             "implies(skip_if_exists and obj_exists(dest_file, old(fs)), fs == old(fs))"]),
 "File.open": dict(where=f"{F}:File.open", params={"self": REF, "mode": STR, "encoding": OBJ, "kwargs": OBJ}, returns=REF, ghost=G,
    lib={"self.filesystem.open(": lib_open_stream},
    ensures=["implies('w' in mode or 'a' in mode or 'x' in mode or '+' in mode, result.close)"]),
 "File.open.close": dict(where=f"{F}:File.open.close", params={"self": REF, "stream": REF, "original_close": BOOL}, ghost=G, modifies=["_hash"],
    lib={"original_close()": lib_fs_mutation}, ensures=[HASHED], must_call=["original_close", "update_hash"], cover=True),
 "Dir.mkdir": dict(where=f"{F}:Dir.mkdir", params={"self": REF}, ghost=G, modifies=["_hash", "_files"], lib={"self.filesystem.mkdir(": lib_fs_mutation}, ensures=[HASHED]),
 "Dir.rmdir": dict(where=f"{F}:Dir.rmdir", params={"self": REF, "recursive": BOOL}, ghost=G, modifies=["_hash", "_files"], lib={"self.filesystem.rmdir(": lib_fs_mutation}, ensures=[HASHED]),
 "StagingFile.stage": dict(where=f"{F}:StagingFile.stage", params={"self": REF}, returns=REF, ghost=G, modifies=["_hash"],
    ensures=["implies(self.local.path != self.remote.path, result == self.local and self.local._hash == Some(hash_now(self.local, fs)))",
             "implies(self.local.path == self.remote.path, result == self.local and fs == old(fs))"]),
 "StagingFile.unstage": dict(where=f"{F}:StagingFile.unstage", params={"self": REF}, returns=REF, ghost=G, modifies=["_hash"],
    ensures=["implies(self.local.path != self.remote.path, result == self.remote and self.remote._hash == Some(hash_now(self.remote, fs)))",
             "implies(self.local.path == self.remote.path, result == self.remote and fs == old(fs))"]),

 # ---------------------------------------------------------------- nested validity as used by the scheduler
 "TypeRegistry.is_valid": dict(where="redun/value.py:TypeRegistry.is_valid", params={"self": REF, "value": OBJ}, returns=BOOL, ghost=G,
    lib={"self.get_value(": lambda e, n, st, old: (e.ctx.app("as_value", [OBJ], REF, [e.to_obj(e.ev(n.args[0], st, old))]) if getattr(n.func, "attr", "") == "get_value" else NotImplemented)},
    ensures=["result == value_valid(value, fs)"], modifies=["_hash", "_files"]),
 "TypeRegistry.is_valid_nested": dict(where="redun/value.py:TypeRegistry.is_valid_nested", params={"self": REF, "nested_value": OBJ}, returns=BOOL, ghost=G,
    lib={"all(map(self.is_valid, iter_nested_value(": lambda e, n, st, old: all_leaves_valid(e, n, st, old)},
    ensures=["result == forall(i, Int, implies(0 <= i and i < len(leaves(nested_value)), value_valid(leaves(nested_value)[i], fs)))"]),
 "Scheduler._is_valid_value": dict(where="redun/scheduler.py:Scheduler._is_valid_value", params={"self": REF, "value": OBJ}, returns=BOOL, ghost=G,
    lib={"self.type_registry.is_valid_nested(": lambda e, n, st, old: e.ctx.app("nested_valid", [OBJ, FS], BOOL, [e.to_obj(e.ev(n.args[0], st, old)), fs_of(st)])},
    ensures=["result == nested_valid(value, fs)"]),
 "Handle.is_valid": dict(where="redun/handle.py:Handle.is_valid", params={"self": REF}, returns=BOOL, ghost=G,
    lib={"get_current_scheduler()": lambda e, n, st, old: e.ctx.app("current_scheduler", [], REF, []),
         "scheduler.backend.is_valid_handle(": lambda e, n, st, old: e.ctx.app("backend_valid_handle", [REF], BOOL, [e.ev(n.args[0], st, old)])},
    ensures=["implies(self.type_name != self.__handle__.class_name, not result)",
             "implies(self.type_name == self.__handle__.class_name, result == backend_valid_handle(self))"]),
}


def all_leaves_valid(e, n, st, old):
    v = e.to_obj(e.ev(n.args[0].args[1].args[0], st, old))
    lv = e.ctx.app("leaves", [OBJ], Seq(OBJ), [v])
    return T(BOOL, f"(forall ((|q_l| Int)) (=> (and (>= |q_l| 0) (< |q_l| (seq.len {lv.s}))) (|value_valid| (seq.nth {lv.s} |q_l|) {fs_of(st).s})))")


MODULE = Module(
    prelude=PRELUDE, axioms=AX, declare_stable=True, sortnames={"HS": HS, "FS": FS},
    fields={"_hash": Opt(STR), "_files": Opt(Seq(REF)), "close": BOOL},
    stable={"path": STR, "pattern": STR, "type_basename": STR, "type_name": STR, "class_name": STR, "filesystem": REF, "name": STR, "local": REF, "remote": REF,
            "__handle__": REF, "st_size": INT, "st_mtime": OBJ},
    classes={"self.filesystem": "FileSystem", "dest_file.filesystem": "FileSystem"},
    ufuns={"hash_now": ([REF, FS], STR), "fs_hash": ([REF, FS, STR], STR), "dir_hashes": ([REF, FS, STR], Seq(STR)), "listing_hashes": ([REF, FS], Seq(STR)),
           "sorted_hs": ([Seq(STR)], Seq(HS)), "hs": ([HS], STR), "fs_exists": ([FS, STR], BOOL), "fs_size": ([FS, STR], INT), "fs_mtime": ([FS, STR], OBJ),
           "fs_bytes": ([FS, STR], STR), "stream_bytes": ([REF], STR), "hstream": ([STR], STR), "str_of": ([OBJ], STR), "dec": ([INT], STR),
           "obj_exists": ([REF, FS], BOOL), "obj_valid": ([REF, FS], BOOL), "value_valid": ([OBJ, FS], BOOL), "as_value": ([OBJ], REF),
           "leaves": ([OBJ], Seq(OBJ)), "nested_valid": ([OBJ, FS], BOOL), "backend_valid_handle": ([REF], BOOL), "current_scheduler": ([], REF)},
    props={"hash": prop_hash},
    hooks={"coerce": coerce, "list_literal": list_literal, "iter": it_hook, "binop": binop},
    contracts=contracts,
)
VERIFY = ["File._calc_hash", "LocalFileSystem.get_hash", "IFile._calc_hash", "IFileSet._calc_hash", "IDir._calc_hash", "ContentFile._calc_hash",
          "FileSet._calc_hash", "Dir._calc_hash", "File.hash", "FileSet.hash", "Dir.hash", "File.update_hash", "FileSet.update_hash",
          "File.is_valid", "FileSet.is_valid", "IFile.is_valid", "IFileSet.is_valid", "File.copy_to", "File.open", "File.open.close",
          "Dir.mkdir", "Dir.rmdir", "StagingFile.stage", "StagingFile.unstage",
          "TypeRegistry.is_valid", "TypeRegistry.is_valid_nested", "Scheduler._is_valid_value", "Handle.is_valid"]

# the validity branch of Scheduler._get_cache is under contract in C12's module (post: a backend cache hit is replayed only if valid)
_spec = importlib.util.spec_from_file_location("contracts_c12_for_c04", os.path.join(os.path.dirname(__file__), "c12.py"))
_c12 = importlib.util.module_from_spec(_spec)
_spec.loader.exec_module(_c12)
MODULES = [(MODULE, VERIFY), (_c12.MODULE, ["Scheduler._get_cache"])]
REPLAY_PER_OBLIGATION = False


def bounded_fs(tier, seed):
    from pvc import bounded
    return [bounded.run(PROPERTY, "real-filesystem-scenarios", rule="every file value class x {unchanged, rewritten same bytes, rewritten other bytes, deleted, member added/removed} on a real temporary "
                        "directory: is_valid() == (recorded hash == fresh hash of a new object), no exception; writers (write, copy_to, stage/unstage, mkdir/rmdir) leave hash == fresh hash; "
                        "a cached workflow whose output was deleted or altered re-executes without raising; method resolution of _calc_hash / is_valid / hash per class as assumed by the contracts")]


EXTRA_CHECKS = [bounded_fs]
EXPECTED_MIN_OBLIGATIONS = 80
TRUSTED = ["A-FS (ghost filesystem: exists/size/mtime/bytes are functions of an abstract state replaced at every filesystem-changing call; stat / open of a path that does not exist raise some OSError, not necessarily FileNotFoundError)", "A-HASH (hash_struct, hash_stream as functions)",
           "A-SORT (sorted of pointwise equal sequences)", "A-IO (a stream's __exit__ calls the close attribute installed on the instance)",
           "FileSet.__iter__ / FileSystem.iter_file_hashes (generators over glob): assumed to list fresh File objects for the paths matching now",
           "non-local filesystems: FileSystem.get_hash assumed total and a function of the filesystem state (LocalFileSystem.get_hash is verified)",
           "virtual dispatch of _calc_hash/update_hash/copy_to/is_valid through the '*.' contracts; the class-to-implementation table is checked natively by the bounded check"]
ASSUMPTIONS = [
    "hash_now(o, fs) is the result of the virtual call o._calc_hash() in filesystem state fs; each implementation is verified total and a function of (attributes fixed at construction, fs)",
    "the hash property caches: a value whose hash was computed before an external change keeps the old hash until is_valid/update_hash (that is what makes is_valid meaningful); writers through redun re-hash",
    "TypeRegistry.get_value, iter_nested_value (C19) and backend.is_valid_handle (C25) are uninterpreted here",
    "File.write/read use `with self.open(...)`: the hashing close hook runs through the stream's __exit__ (A-IO, exercised by the bounded check)",
    "ShardedS3Dataset and remote (S3/GS/Azure/fsspec) filesystems are out of reach (network); only their use through the virtual contracts is covered",
]
