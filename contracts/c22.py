"""C22 Interrupted or retried recording never corrupts later runs -- shares the commit-point / recovery contracts of C03."""
import importlib.util, os
_spec = importlib.util.spec_from_file_location("contracts_c03_for_c22", os.path.join(os.path.dirname(__file__), "c03.py"))
_m = importlib.util.module_from_spec(_spec)
_spec.loader.exec_module(_m)
PROPERTY = "C22"
_m.PROPERTY = "C03"      # the replay driver lives under c03
MODULES = _m.MODULES
EXTRA_CHECKS = _m.EXTRA_CHECKS
EXPECTED_MIN_OBLIGATIONS = _m.EXPECTED_MIN_OBLIGATIONS
TRUSTED = _m.TRUSTED
ASSUMPTIONS = _m.ASSUMPTIONS + ["the property's clause 'a later execution returns exactly what a run on an empty backend would' is a history property; what is proved is the per-function kernel: commit-point invariant of record_call_node and recovery postcondition of record_value from any entry state"]


# ------------------------------------------------------------------------------------------------ the retry wrapper itself (redun/backends/db/__init__.py: db_retry)
from pvc.smt import *
from pvc.core import Module, RaiseEx
DB = "redun/backends/db/__init__.py"


def lib_func(e, n, st, old):
    """func(self, *args, **kwargs): one attempt of the wrapped operation; it may fail with a transient OperationalError"""
    st.ghost["ncalls"] = T(INT, f"(+ {st.ghost['ncalls'].s} 1)")
    if e.branch(e.opaque("attempt_fails", BOOL), st):
        raise RaiseEx("OperationalError", None, n.lineno)
    return e.opaque("operation_result")


def lib_rollback(e, n, st, old):
    st.ghost["nrb"] = T(INT, f"(+ {st.ghost['nrb'].s} 1)")
    return T(NONE, "none")


def lib_retry_loop(e, n, st, old):
    """retry_loop(self, *args, **kwargs): through its contract below -- it returns the operation's result or re-raises the OperationalError"""
    h = e.field(st, "_db_retries_active")
    e.oblige(f"{e.cur}/at[retry_loop-call].0", "at", st, T(BOOL, f"(select {h.s} {st.env['self'].s})"), n.lineno)     # the flag is set while the loop runs
    if e.branch(e.opaque("gives_up", BOOL), st):
        raise RaiseEx("OperationalError", None, n.lineno)
    return e.opaque("operation_result")


def lib_getattr_active(e, n, st, old):
    if ast_unparse(n.args[1]) == "'_db_retries_active'":
        h = e.field(st, "_db_retries_active")
        return T(BOOL, f"(select {h.s} {st.env['self'].s})")
    return NotImplemented


def ast_unparse(x):
    import ast
    return ast.unparse(x)


SKIP = {k: (lambda e, n, st, old: e.opaque("ignored")) for k in ("self.logger.error(", "self.logger.warning(", "time.sleep(", "min(")}
G_RETRY = {"ncalls": INT, "nrb": INT}
retry_contracts = {
 # a retried operation called from inside another retried operation neither rolls back nor retries: a rollback there would discard the
 # uncommitted writes of the outer operation, which would then go on and commit without them
 "db_retry.wrapper": dict(where=f"{DB}:db_retry.wrapper", params={"self": REF, "args": OBJ, "kwargs": OBJ}, ghost=G_RETRY,
    lib=dict(SKIP, **{"func(": lib_func, "retry_loop(": lib_retry_loop, "self.session.rollback()": lib_rollback, "getattr(": lib_getattr_active}),
    modifies=["ncalls", "nrb", "_db_retries_active"],
    ensures=["nrb == old(nrb)", "self._db_retries_active == old(self._db_retries_active)", "implies(old(self._db_retries_active), ncalls == old(ncalls) + 1)"],
    exc_ensures=["nrb == old(nrb)", "self._db_retries_active == old(self._db_retries_active)", "implies(old(self._db_retries_active), ncalls == old(ncalls) + 1)"]),
 # the outermost operation: every failed attempt is rolled back before the next attempt starts; the error is re-raised only after the configured number of retries
 "db_retry.retry_loop": dict(where=f"{DB}:db_retry.retry_loop", params={"self": REF, "args": OBJ, "kwargs": OBJ}, ghost=G_RETRY,
    lib=dict(SKIP, **{"func(": lib_func, "self.session.rollback()": lib_rollback}),
    requires=["self._db_retries >= 0", "self.session"], modifies=["ncalls", "nrb", "_db_retries_attempt"],
    loops={0: dict(inv=["ncalls - old(ncalls) == nrb - old(nrb)", "self._db_retries_attempt == nrb - old(nrb)", "self._db_retries_attempt <= self._db_retries"])},
    ensures=["ncalls - old(ncalls) == nrb - old(nrb) + 1", "nrb - old(nrb) <= self._db_retries"],
    exc_ensures=["ncalls - old(ncalls) == nrb - old(nrb)", "nrb - old(nrb) == self._db_retries + 1"]),
}
RETRY_MODULE = Module(fields={"_db_retries_active": BOOL, "_db_retries_attempt": INT}, stable={"_db_retries": INT}, declare_stable=True, contracts=retry_contracts)
MODULES = list(MODULES) + [(RETRY_MODULE, ["db_retry.wrapper", "db_retry.retry_loop"])]


def bounded_transient_faults(tier, seed):
    from pvc import bounded
    return [bounded.run("C22", "transient-faults", rule="five recording workloads (nested containers with subvalues, file results, files that only occur inside a container, a handle created inside a task, a failing task under catch); one transient OperationalError replaces the commit at "
                        "every commit position in turn (about 130 positions); every faulted run returns the clean run's value and leaves exactly the clean run's records: nothing lost, nothing duplicated")]


EXTRA_CHECKS = list(EXTRA_CHECKS) + [bounded_transient_faults]
EXPECTED_MIN_OBLIGATIONS = EXPECTED_MIN_OBLIGATIONS + 15
TRUSTED = list(TRUSTED) + ["the wrapped operation as one call that either returns or raises OperationalError (db_retry contracts)", "Session.rollback discards exactly the uncommitted writes (A-ORM)"]
ASSUMPTIONS = list(ASSUMPTIONS) + [
    "retry half: the contracts on db_retry state the protocol (a nested retried call neither rolls back nor retries; the outermost call rolls back after every failed attempt, re-raises only after the configured number "
    "of retries, and always clears its activity flag); that re-running a whole operation after a rollback writes exactly what one clean run writes is a statement about each operation's body and is compared by the "
    "bounded fault enumeration only",
    "faults are injected instead of a commit (the transaction did not happen); a commit that succeeded on the server but was reported as failed is outside",
]


# ------------------------------------------------------------------------------------------------ _record_subvalues: the special rows of subvalues are (re)written on every path
OPQ = lambda name, sort=None: (lambda e, n, st, old: e.opaque(name, sort) if sort else e.opaque(name))
subv_contracts = {
 "RedunBackendDb._record_subvalues": dict(where=f"{DB}:RedunBackendDb._record_subvalues", params={"self": REF, "subvalues": Seq(OBJ), "parent_value_hash": STR},
    ghost={"special_done": BOOL}, requires=["not special_done"], modifies=["special_done"],
    locals={"data": Seq(OBJ), "value_hashes": Seq(STR), "existing_value_hashes": Set(STR), "existing_parent_links": Set(STR)},
    lib={"self.type_registry.serialize(": OPQ("data", OBJ), "self.type_registry.get_hash(": OPQ("hash", STR), "self.type_registry.get_type_name(": OPQ("type_name", STR),
         "self.type_registry.get_serialization_format(": OPQ("format", STR), "filter_in(": OPQ("rows"), "self.with_session()": OPQ("session"),
         "session.add(": lambda e, n, st, old: T(NONE, "none"), "session.commit()": lambda e, n, st, old: T(NONE, "none"), "Value(": OPQ("row"), "Subvalue(": OPQ("row")},
    before_call={("RedunBackendDb._record_special_redun_values", 0): ["arg0 == subvalues", "arg1 == value_hashes"]},
    after_call={("RedunBackendDb._record_special_redun_values", "*"): "special_done = True"},
    # whether or not new Value / Subvalue rows had to be inserted, the File / Task rows of the subvalues are made sure to exist (a retry or a recovery
    # run finds the Values and links of an interrupted recording in place and must still write the special rows)
    ensures=["special_done"]),
 "RedunBackendDb._record_special_redun_values": dict(where=f"{DB}:RedunBackendDb._record_special_redun_values", params={"self": REF, "values": Seq(OBJ), "value_hashes": Seq(STR)}),
}
SUBV_MODULE = Module(classes={"self": "RedunBackendDb"}, contracts=subv_contracts)
MODULES = list(MODULES) + [(SUBV_MODULE, ["RedunBackendDb._record_subvalues"])]
