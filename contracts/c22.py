"""C22 Interrupted or retried recording never corrupts later runs -- shares the commit-point / recovery contracts of C03."""
import importlib.util, os
_spec = importlib.util.spec_from_file_location("contracts_c03_for_c22", os.path.join(os.path.dirname(__file__), "c03.py"))
_m = importlib.util.module_from_spec(_spec)
_spec.loader.exec_module(_m)
PROPERTY = "C22"
_m.PROPERTY = "C03"      # the replay driver lives under c03
MODULES = _m.MODULES
EXTRA_CHECKS = _m.EXTRA_CHECKS
EXPECTED_MIN_OBLIGATIONS = _m.EXPECTED_MIN_OBLIGATIONS
TRUSTED = _m.TRUSTED
ASSUMPTIONS = _m.ASSUMPTIONS + ["the property's clause 'a later execution returns exactly what a run on an empty backend would' is a history property; what is proved is the per-function kernel: commit-point invariant of record_call_node and recovery postcondition of record_value from any entry state"]
