"""C03 / C22 kernel: crash-consistent recording of call nodes -- commit-point invariant on the real record_call_node.

I_sub: every call node visible in a committed state has all task hashes of its recorded subtree as CallSubtreeTask rows.
A crash or a transient error + rollback can only expose a committed state, so the invariant is obliged at every point where
the session is committed (session.commit() and every callee that commits internally)."""
import ast
from pvc.smt import *
from pvc.core import Module
from pvc.orm import ORM, QueryV

PROPERTY = "C03"
DB = "redun/backends/db/__init__.py"
S = "redun/scheduler.py"
orm = ORM(["CallNode", "CallSubtreeTask", "CallEdge", "Value", "Task", "File"], pks={"Value": "value_hash", "Task": "hash", "File": "value_hash"})


def I_sub(cn, cst):
    return (f"(forall ((c Row_CallNode)) (=> (select {cn} c) (forall ((t String)) (=> (select (|subtree_of| (|col_CallNode_call_hash| c)) t) "
            f"(exists ((p Row_CallSubtreeTask)) (and (select {cst} p) (= (|col_CallSubtreeTask_call_hash| p) (|col_CallNode_call_hash| c)) (= (|col_CallSubtreeTask_task_hash| p) t)))))))")


def commit_point(eng, st, n, label):
    """everything added to the session becomes durable here: the invariant must hold for what is visible"""
    cnt = eng.call_ord.get(id(n), 0)
    g = T(BOOL, I_sub(st.ghost["tbl_CallNode"].s, st.ghost["tbl_CallSubtreeTask"].s))
    eng.oblige(f"{eng.cur}/commit-inv[I_sub][{label}#{cnt}]", "commit-inv", st, g, n.lineno)
    st.ghost["com_CallNode"], st.ghost["com_CallSubtreeTask"] = st.ghost["tbl_CallNode"], st.ghost["tbl_CallSubtreeTask"]
    st.ver += 1


def session_add(eng, n, st, old):
    arg = n.args[0]
    if not (isinstance(arg, ast.Call) and isinstance(arg.func, ast.Name) and arg.func.id in orm.tables):
        return NotImplemented
    t = arg.func.id
    r = eng.opaque("new_" + t, orm.row_sort(t))
    for kw in arg.keywords:
        v = eng.ev(kw.value, st, old)
        st.pc.append(eng.eq(orm.col(eng, t, kw.arg, r), v).s)
    g = st.ghost["tbl_" + t]
    st.ghost["tbl_" + t] = T(g.sort, f"(store {g.s} {r.s} true)")
    eng.note("A-ORM", f"session.add({t}(...))", n.lineno)
    return T(NONE, "none")


def call_hash_link(eng, n, st, old):
    """hash_call_node(...): the call hash; its recorded subtree is exactly the hashes of the subtree_tasks argument"""
    args = [eng.ev(a, st, old) for a in n.args]
    h = eng.opaque("call_hash", STR)
    tasks = st.env["subtree_tasks"]
    st.pc.append(f"(forall ((t String)) (= (select (|subtree_of| {h.s}) t) (exists ((x Ref)) (and (select {tasks.s} x) (= (|sattr_hash| x) t)))))")
    return h


def recorded_hashes(eng, n, st, old):
    """filter_in(session.query(CallNode.call_hash), CallNode.call_hash, xs): tuples (call_hash,) of recorded nodes among xs"""
    xs = eng.ev(n.args[2], st, old)
    S = eng.opaque("recorded", Set(STR))
    st.pc.append(f"(forall ((h String)) (=> (select {S.s} h) (exists ((c Row_CallNode)) (and (select {st.ghost['tbl_CallNode'].s} c) (= (|col_CallNode_call_hash| c) h)))))")
    return ("strset", S)


GHOST = dict(orm.ghost(), com_CallNode=Set("Row_CallNode"), com_CallSubtreeTask=Set("Row_CallSubtreeTask"))
contracts = {
 "RedunBackendDb.record_call_node": dict(where=f"{DB}:RedunBackendDb.record_call_node",
    params={"self": REF, "task_name": STR, "task_hash": STR, "args_hash": STR, "expr_args": OBJ, "eval_args": OBJ, "result_hash": STR,
            "child_call_hashes": Seq(STR), "subtree_tasks": Set(REF)}, returns=STR, ghost=GHOST,
    requires=["smt('" + I_sub("{cn}", "{cst}") + "', cn=com_CallNode, cst=com_CallSubtreeTask)",
              "tbl_CallNode == com_CallNode and tbl_CallSubtreeTask == com_CallSubtreeTask"],    # nothing pending on entry
    post_hooks={"I_sub holds in the committed state": lambda eng, st, entry: T(BOOL, I_sub(st.ghost["com_CallNode"].s, st.ghost["com_CallSubtreeTask"].s)),
                "everything is committed": lambda eng, st, entry: T(BOOL, f"(and (= {st.ghost['com_CallNode'].s} {st.ghost['tbl_CallNode'].s}) (= {st.ghost['com_CallSubtreeTask'].s} {st.ghost['tbl_CallSubtreeTask'].s}))"),
                "the call node is recorded": lambda eng, st, entry: T(BOOL, f"(exists ((c Row_CallNode)) (and (select {st.ghost['com_CallNode'].s} c) (= (|col_CallNode_call_hash| c) {st.env['$result'].s})))")},
    lib={"hash_call_node(": call_hash_link, "session.add(": session_add,
         "session.commit()": lambda e, n, st, old: (commit_point(e, st, n, "commit"), T(NONE, "none"))[1],
         "self._record_args(": lambda e, n, st, old: ([e.ev(a, st, old) for a in n.args], commit_point(e, st, n, "_record_args"), T(NONE, "none"))[2],
         "self.record_value(": lambda e, n, st, old: ([e.ev(a, st, old) for a in n.args], commit_point(e, st, n, "record_value"), e.opaque("value_hash", STR))[2],
         "filter_in(": orm.filter_in, "self.with_session()": lambda e, n, st, old: e.opaque("session"),
         },
    loops={
        # recording the subtree's task values commits, but adds nothing to the tracked tables
        "subtree_tasks|record_value": dict(inv=["tbl_CallNode == com_CallNode and tbl_CallSubtreeTask == com_CallSubtreeTask",
                     "smt('" + I_sub("{cn}", "{cst}") + "', cn=com_CallNode, cst=com_CallSubtreeTask)"], modifies=["com_CallNode", "com_CallSubtreeTask"]),
        # CallEdge rows: untracked table
        "child_call_hashes|CallEdge": dict(inv=[], modifies=["tbl_CallEdge"]),
        # one CallSubtreeTask row per subtree task, all for this call hash; other rows and the call node table untouched
        "subtree_tasks|CallSubtreeTask": dict(inv=["forall(x, Ref, implies(visited()[x], exists(p, Row_CallSubtreeTask, tbl_CallSubtreeTask[p] and p.call_hash == call_hash and p.task_hash == x.hash)))",
                     "forall(p, Row_CallSubtreeTask, implies(old(tbl_CallSubtreeTask)[p], tbl_CallSubtreeTask[p]))"], modifies=["tbl_CallSubtreeTask"])},
    ),
 "RedunBackendDb._record_special_redun_values": dict(where=f"{DB}:RedunBackendDb._record_special_redun_values",
    params={"self": REF, "values": Seq(OBJ), "value_hashes": Seq(STR)}, ghost=orm.ghost(),
    requires=["len(values) == len(value_hashes)"],
    lib={"filter_in(": orm.filter_in, "self.session.add(": session_add, "self.session.commit()": lambda e, n, st, old: T(NONE, "none")},
    locals={"existing_file_hashes": Set(STR), "existing_task_hashes": Set(STR)},
    ensures=["forall(i, Int, implies(0 <= i and i < len(values) and isinst_BaseFile(values[i]), exists(f, Row_File, tbl_File[f] and f.value_hash == value_hashes[i])))",
             "forall(i, Int, implies(0 <= i and i < len(values) and isinst_BaseTask(values[i]) and not isinst_BaseFile(values[i]), exists(t, Row_Task, tbl_Task[t] and t.hash == value_hashes[i])))",
             "forall(t, Row_Task, implies(old(tbl_Task)[t], tbl_Task[t])) and forall(f, Row_File, implies(old(tbl_File)[f], tbl_File[f])) and tbl_Value == old(tbl_Value)"],
    modifies=["tbl_Task", "tbl_File"],
    loops={"zip(values, value_hashes)|": dict(inv=[
        "forall(j, Int, implies(0 <= j and j < index() and isinst_BaseFile(values[j]), exists(f, Row_File, tbl_File[f] and f.value_hash == value_hashes[j])))",
        "forall(j, Int, implies(0 <= j and j < index() and isinst_BaseTask(values[j]) and not isinst_BaseFile(values[j]), exists(t, Row_Task, tbl_Task[t] and t.hash == value_hashes[j])))",
        "forall(h, Str, implies(existing_task_hashes[h], exists(t, Row_Task, tbl_Task[t] and t.hash == h)))",
        "forall(h, Str, implies(existing_file_hashes[h], exists(f, Row_File, tbl_File[f] and f.value_hash == h)))",
        "forall(t, Row_Task, implies(old(tbl_Task)[t], tbl_Task[t])) and forall(f, Row_File, implies(old(tbl_File)[f], tbl_File[f])) and tbl_Value == old(tbl_Value)"],
        modifies=["tbl_Task", "tbl_File"])}),
 "RedunBackendDb.record_value": dict(where=f"{DB}:RedunBackendDb.record_value",
    params={"self": REF, "value": OBJ, "data": OBJ}, returns=STR, ghost=orm.ghost(),
    # no assumption about the state on entry: it may be any state left behind by an interrupted recording
    lib={"session.add(": session_add, "session.commit()": lambda e, n, st, old: T(NONE, "none"), "self.with_session()": lambda e, n, st, old: e.opaque("session"),
         "value_interface.get_hash(": lambda e, n, st, old: e.opaque("value_hash", STR), "len(data)": lambda e, n, st, old: e.opaque("n", INT)},
    ensures=["exists(v, Row_Value, tbl_Value[v] and v.value_hash == result)",
             "implies(isinst_BaseTask(value) and not isinst_BaseFile(value), exists(t, Row_Task, tbl_Task[t] and t.hash == result))",
             "implies(isinst_BaseFile(value), exists(f, Row_File, tbl_File[f] and f.value_hash == result))"]),
}


def set_lt(eng, op, a, b, st, n):
    """recorded_child_hashes < set(child_call_hashes) and `in` on the recorded set"""
    if isinstance(a, tuple) and a and a[0] == "strset" and isinstance(b, tuple) and b and b[0] == "strset":
        return eng.opaque("proper_subset", BOOL)
    if isinstance(b, tuple) and b and b[0] == "strset" and isinstance(op, (ast.In, ast.NotIn)) and isinstance(a, T):
        r = T(BOOL, f"(select {b[1].s} {a.s})")
        return r if isinstance(op, ast.In) else T(BOOL, f"(not {r.s})")
    return None


MODULE = Module(
    prelude=orm.prelude(), stable={"hash": STR}, declare_stable=True,
    ufuns={"isinst_BaseTask": ([OBJ], BOOL), "isinst_BaseFile": ([OBJ], BOOL), "subtree_of": ([STR], Set(STR)), "col_CallNode_call_hash": (["Row_CallNode"], STR),
           "col_CallSubtreeTask_call_hash": (["Row_CallSubtreeTask"], STR), "col_CallSubtreeTask_task_hash": (["Row_CallSubtreeTask"], STR)},
    hooks={"call": orm.call_hook, "attr": orm.attr_hook, "iter": lambda e, v, st: (v[1] if isinstance(v, tuple) and v and v[0] == "strset" else orm.iter_hook(e, v, st)), "cmp": set_lt},
    sortnames={"Row_CallNode": "Row_CallNode", "Row_CallSubtreeTask": "Row_CallSubtreeTask", "Row_Value": "Row_Value", "Row_Task": "Row_Task", "Row_File": "Row_File"},
    classes={"self": "RedunBackendDb"}, contracts=contracts,
)
VERIFY = ["RedunBackendDb.record_call_node", "RedunBackendDb._record_special_redun_values", "RedunBackendDb.record_value"]


# ---------------------------------------------------------------- scheduler side: which tasks are handed to record_call_node
sched_contracts = {
 "Job.calc_subtree_tasks": dict(where=f"{S}:Job.calc_subtree_tasks", params={"self": REF}, returns=Set(REF),
    ensures=["result == self.subtree_tasks",
             # own tasks stay, and every child that has a recorded call node contributes its whole subtree
             "forall(t, Ref, implies(old(self.subtree_tasks)[t], result[t]))",
             "forall(i, Int, implies(0 <= i and i < len(self.child_jobs) and self.child_jobs[i].call_hash != None, forall(t, Ref, implies(old(self.child_jobs[i].subtree_tasks)[t], result[t]))))"],
    requires=["forall(i, Int, implies(0 <= i and i < len(self.child_jobs), self.child_jobs[i] != self))",       # the job tree is a tree
              "forall(o, Ref, o.call_hash == None or len(val(o.call_hash)) > 0)"],                               # call hashes are non-empty digests
    loops={"self.child_jobs|": dict(inv=[
        "forall(t, Ref, implies(old(self.subtree_tasks)[t], self.subtree_tasks[t]))",
        "forall(i, Int, implies(0 <= i and i < index() and self.child_jobs[i].call_hash != None, forall(t, Ref, implies(old(self.child_jobs[i].subtree_tasks)[t], self.subtree_tasks[t]))))",
        "forall(o, Ref, implies(o != self, o.subtree_tasks == old(o.subtree_tasks)))", "self.child_jobs == old(self.child_jobs)"], modifies=["subtree_tasks"])}),
 "Scheduler._get_subtree_tasks": dict(where=f"{S}:Scheduler._get_subtree_tasks", params={"self": REF, "job": REF}, returns=Set(REF), pure="backend_subtree"),
 "Scheduler._resolve_job_main_thread": dict(where=f"{S}:Scheduler._resolve_job_main_thread", params={"self": REF, "job": REF, "result": OBJ},
    classes={"self": "Scheduler", "job": "Job"},
    requires=["forall(i, Int, implies(0 <= i and i < len(job.child_jobs), job.child_jobs[i] != job))", "forall(o, Ref, o.call_hash == None or len(val(o.call_hash)) > 0)"],
    # a job whose final result came from the cache (it has a call hash already) carries at least the subtree recorded for that call node
    ensures=["implies(old(job.call_hash) != None, forall(t, Ref, implies(backend_subtree(self, job)[t], job.subtree_tasks[t])))"]),
}
SCHED_MODULE = Module(
    fields={"subtree_tasks": Set(REF), "call_hash": Opt(STR), "child_jobs": Seq(REF), "was_cached": BOOL},
    ufuns={"backend_subtree": ([REF, REF], Set(REF))},
    enums={"CacheCheckValid": ["FULL", "SHALLOW"]},
    classes={"self": "Job"}, contracts=sched_contracts)
MODULES = [(MODULE, VERIFY), (SCHED_MODULE, ["Job.calc_subtree_tasks", "Scheduler._resolve_job_main_thread"])]


def fault_enumeration(tier, seed):
    from pvc import bounded
    return [bounded.run(PROPERTY, "crash-after-each-commit", env={"C03_STRIDE": "4" if tier == "quick" else "1"}, timeout=1500,
                        rule="process death right after the k-th database commit (k = every 4th in the quick tier, every one in the thorough tier) of a run recording a 3-task shallow workflow, then an edited recovery run in a fresh process; plus a same-execution CSE hit under a second shallow parent")]


EXTRA_CHECKS = [fault_enumeration]
EXPECTED_MIN_OBLIGATIONS = 50
TRUSTED = ["A-ORM", "a crash or rollback exposes exactly a committed state (transaction atomicity of the database)", "callees that commit (record_value, _record_args) add no rows to call_node / call_subtree_task"]
ASSUMPTIONS = [
    "A-ORM: session.add/commit/query as in pvc/orm.py; a commit makes everything added so far durable atomically; a crash exposes the last committed state",
    "subtree_of(call_hash) is the set of task hashes of the subtree_tasks argument of the recording call for that hash (the scheduler side is covered by the calc_subtree_tasks / _resolve_job_main_thread contracts)",
    "the job tree is a tree (a job is not its own child); call hashes are non-empty digests",
    "call graphs imported from another repository (CallNodeSerializer carries no subtree rows) are outside these contracts: see C23 / not claimed here",
    "db_retry re-runs the method body after a rollback: covered by the invariant because every entry state allowed by the contracts is a committed state",
]
