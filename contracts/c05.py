"""C05 Results are never shared between calls with different contexts -- A-ORM contracts on the real check_cache / _get_call_node."""
import ast
from pvc.smt import *
from pvc.core import Module
from pvc.orm import ORM, QueryV
from pvc import extract

PROPERTY = "C05"
DB = "redun/backends/db/__init__.py"
S = "redun/scheduler.py"
orm = ORM(["CallNode", "Job", "Tag", "CallSubtreeTask"])
CTXKEY = extract.module_constants("redun/tags.py")["CONTEXT_KEY"]

# the context tags of a call node: Tag rows (entity = the node's call hash, key = redun.context)
DEFS = f"""
(define-fun ctx_tag ((tags (Array Row_Tag Bool)) (ch String) (h String)) Bool
  (exists ((t Row_Tag)) (and (select tags t) (= (|col_Tag_entity_id| t) ch) (= (|col_Tag_key| t) {smt_str(CTXKEY)}) (= (|col_Tag_value| t) h))))
(define-fun same_context ((tags (Array Row_Tag Bool)) (ch String) (ctx Opt_String)) Bool
  (ite ((_ is Some_String) ctx) (ctx_tag tags ch (val_String ctx))
       (not (exists ((h String)) (ctx_tag tags ch h)))))
"""

contracts = {
 "RedunBackendDb._get_call_node": dict(where=f"{DB}:RedunBackendDb._get_call_node",
    params={"self": REF, "task_hash": STR, "args_hash": STR, "scheduler_task_hashes": Set(STR), "context_hash": Opt(STR)}, returns=Opt("Row_CallNode"),
    ghost=orm.ghost(), requires=["context_hash == None or len(val(context_hash)) > 0"],
    locals={"call_node2task_hashes": Map(STR, Set(STR))}, defaultdicts={"call_node2task_hashes": "((as const (Array String Bool)) false)"},
    lib={"filter_in(": lambda e, n, st, old: filter_in(e, n, st, old)},
    loops={0: ["forall(h, Str, forall(t, Str, (h in call_node2task_hashes and call_node2task_hashes[h][t]) == "
               "exists(p, Row_CallSubtreeTask, visited(0)[p] and p.call_hash == h and p.task_hash == t)))"]},
    ensures=["implies(result != None, tbl_CallNode[val(result)] and val(result).task_hash == task_hash and val(result).args_hash == args_hash)",
             "implies(result != None, same_context(tbl_Tag, val(result).call_hash, context_hash))",
             # C03 (a): every task recorded beneath the returned node is still registered with the same hash
             "implies(result != None, forall(p, Row_CallSubtreeTask, implies(tbl_CallSubtreeTask[p] and p.call_hash == val(result).call_hash, scheduler_task_hashes[p.task_hash])))"]),
 "RedunBackendDb.get_call_cache": dict(where=f"{DB}:RedunBackendDb.get_call_cache", params={"self": REF, "call_hash": STR}, returns=[OBJ, BOOL]),
 "RedunBackendDb.get_eval_cache": dict(where=f"{DB}:RedunBackendDb.get_eval_cache", params={"self": REF, "eval_hash": STR}, returns=[OBJ, BOOL]),
 "RedunBackendDb.check_cache": dict(where=f"{DB}:RedunBackendDb.check_cache",
    params={"self": REF, "task_hash": STR, "args_hash": STR, "eval_hash": STR, "execution_id": STR, "scheduler_task_hashes": Set(STR),
            "cache_scope": OBJ, "check_valid": OBJ, "context_hash": Opt(STR), "allowed_cache_results": Opt(Set(OBJ))},
    returns=[OBJ, Opt(STR), OBJ], ghost=orm.ghost(),
    requires=["context_hash == None or len(val(context_hash)) > 0"],   # a context hash is a non-empty hex digest
    lib={"set(CacheResult)": lambda e, n, st, old: e.opaque("all_cache_results", Set(OBJ))},
    ensures=[
        # a final-result hit (same-execution CSE or ultimate reduction) comes from a call node recorded under the same effective context
        "implies(result2 == CacheResult.CSE or result2 == CacheResult.ULTIMATE, result1 != None and same_context(tbl_Tag, val(result1), context_hash))",
        # a CSE hit belongs to this execution and to this task and arguments
        "implies(result2 == CacheResult.CSE, exists(c, Row_CallNode, tbl_CallNode[c] and c.call_hash == val(result1) and c.args_hash == args_hash and "
        " exists(j, Row_Job, tbl_Job[j] and j.call_hash == c.call_hash and j.task_hash == task_hash and j.execution_id == execution_id)))"]),
}

def filter_in(eng, n, st, old):
    """filter_in(query(T), T.col, values): the rows of T whose column value is in `values` (chunked IN query)"""
    q = eng.ev(n.args[0], st, old)
    vals = eng.ev(n.args[2], st, old)
    col = n.args[1]
    rs = orm.row_sort(q.table)
    S = eng.opaque("rows_in", Set(rs))
    qv = T(rs, f"|q_fi{eng.ctx.n}|")
    c = orm.col(eng, q.table, col.attr, qv)
    st.pc.append(f"(forall (({qv.s} {rs})) (= (select {S.s} {qv.s}) (and {orm.matches(eng, q, qv, st, old, 'f%d' % eng.ctx.n)} (select {vals.s} {c.s}))))")
    return S


# ---- scheduler side: the context hash a job is looked up and deduplicated under is the hash of ITS OWN effective context
def capture_context(eng, n, st, old):
    c = eng.opaque("job_context")
    st.ghost["ctx"] = c
    st.ver += 1
    return c


sched_contracts = {
 "Scheduler._exec_job_main_thread": dict(where=f"{S}:Scheduler._exec_job_main_thread", params={"self": REF, "job": REF, "eval_args": OBJ},
    ghost_local={"ctx": OBJ},
    lib={"job.get_context()": capture_context,
         "self.type_registry.get_hash(": lambda e, n, st, old: e.ctx.app("vh", [OBJ], STR, [e.to_obj(e.ev(n.args[0], st, old))])},
    ensures=["implies(truthy(ctx), job.context_hash == Some(vh(ctx)))", "implies(not truthy(ctx), job.context_hash == old(job.context_hash))"]),
}
SCHED_MODULE = Module(fields={"context_hash": Opt(STR)}, ufuns={"vh": ([OBJ], STR), "truthy": ([OBJ], BOOL)},
                      classes={"self": "Scheduler", "job": "Job"}, contracts=sched_contracts)

MODULE = Module(
    prelude=orm.prelude(), defs_text=DEFS,
    defs={"ctx_tag": ([Set("Row_Tag"), STR, STR], BOOL), "same_context": ([Set("Row_Tag"), STR, Opt(STR)], BOOL)},
    ufuns={"col_Tag_entity_id": (["Row_Tag"], STR), "col_Tag_key": (["Row_Tag"], STR), "col_Tag_value": (["Row_Tag"], STR)},
    enums={"CacheResult": ["CSE", "SINGLE", "ULTIMATE", "MISS"], "CacheScope": ["NONE", "CSE", "BACKEND"], "CacheCheckValid": ["FULL", "SHALLOW"]},
    consts={"CONTEXT_KEY": (STR, smt_str(CTXKEY))},
    hooks={"call": orm.call_hook, "attr": orm.attr_hook, "iter": orm.iter_hook},
    sortnames={"Row_CallNode": "Row_CallNode", "Row_Job": "Row_Job", "Row_Tag": "Row_Tag", "Row_CallSubtreeTask": "Row_CallSubtreeTask"},
    classes={"self": "RedunBackendDb"}, contracts=contracts,
)
VERIFY = ["RedunBackendDb.check_cache", "RedunBackendDb._get_call_node"]
MODULES = [(MODULE, VERIFY), (SCHED_MODULE, ["Scheduler._exec_job_main_thread"])]


def bounded_orders(tier, seed):
    from pvc import bounded
    return [bounded.run("C05", "context-call-orders", rule="all orders of {no context, context A, context B} x {full, shallow} x {one execution, separate executions} on the real scheduler and backend")]


EXTRA_CHECKS = [bounded_orders]
EXPECTED_MIN_OBLIGATIONS = 18
TRUSTED = ["A-ORM (conjunctive query fragment, EXISTS / NOT EXISTS, any matching row may be returned)", "record_call_node_context writes the context tag iff the context is non-empty (scheduler side, see assumptions)"]
ASSUMPTIONS = [
    "A-ORM: query(T).join(U, on).filter(conds).first() returns a row of T matching the conditions together with some rows of the joined tables, or None if there are none; iteration enumerates exactly those rows; ORDER BY is not modelled",
    "a context hash is a non-empty hex digest or None",
    "the scheduler records the context tag on a call node exactly when the job's context is non-empty (Scheduler._resolve_job_main_thread / _reject_job_main_thread: 'if context: record_call_node_context'), and keys in-memory deduplication by (eval_hash, context_hash); these scheduler-side facts are exercised by the bounded check, not proved",
    "single-reduction cache hits return the task's own direct result, which is re-evaluated under the caller's context, so they need no context filter",
]
