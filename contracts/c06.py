"""C06 Each distinct call runs at most once per execution -- the registration invariant of Scheduler._pending_jobs on the real code."""
from pvc.smt import *
from pvc.core import Module

PROPERTY = "C06"
S = "redun/scheduler.py"
KEY = Tup(Opt(STR), Opt(STR))
PEND = Map(KEY, REF)

# a job opted out of common-subexpression elimination (cache_scope=NONE -- which prov=False forces, C27 -- or CSE excluded explicitly)
OPTOUT = "(cache_scope_of({j}) == CacheScope.NONE or (allowed_of({j}) != None and not val(allowed_of({j}))[CacheResult.CSE]))"
# R: every job handed to an executor and not yet finalized, unless it opted out, is THE registered job of its call key
R = ("forall(j, Ref, implies(submitted[j] and not " + OPTOUT.format(j="j") +
     ", self._pending_jobs.get((j.eval_hash, j.context_hash)) == Some(j)))")
# U: registered jobs are jobs that were handed to an executor and are not finalized yet
U = "forall(k, Key, implies(k in self._pending_jobs, submitted[self._pending_jobs[k]] and k == (self._pending_jobs[k].eval_hash, self._pending_jobs[k].context_hash)))"
NOTWIN = ("forall(j, Ref, implies(submitted[j] and j != job and not " + OPTOUT.format(j="j") + " and not " + OPTOUT.format(j="job") +
          ", (j.eval_hash, j.context_hash) != (job.eval_hash, job.context_hash)))")

# after _finalize_job(job) the job no longer counts as running: the invariants hold for submitted \ {job}
R_AFTER = R.replace("submitted[j]", "(submitted[j] and j != job)")
U_AFTER = U.replace("submitted[self._pending_jobs[k]]", "(submitted[self._pending_jobs[k]] and self._pending_jobs[k] != job)")
GH = {"submitted": Set(REF)}

contracts = {
 "Scheduler._check_pending_job": dict(where=f"{S}:Scheduler._check_pending_job", params={"self": REF, "job": REF}, returns=Opt(REF),
    classes={"self": "Scheduler", "job": "Job", "pending_job": "Job"},
    ensures=["implies(result == None, " + OPTOUT.format(j="job") + " or (job.eval_hash, job.context_hash) not in self._pending_jobs)",
             "implies(result != None, self._pending_jobs.get((job.eval_hash, job.context_hash)) == result and not " + OPTOUT.format(j="job") + ")",
             "self._pending_jobs == old(self._pending_jobs)", "submitted == old(submitted)"],
    at_call={"collapse": ["Some(arg0) == self._pending_jobs.get((job.eval_hash, job.context_hash))", "recv == job"]},
    cover=["result != None", "result == None"], ghost=GH),
 "Scheduler._exec_job_main_thread": dict(where=f"{S}:Scheduler._exec_job_main_thread",
    params={"self": REF, "job": REF, "eval_args": OBJ}, classes={"self": "Scheduler", "job": "Job"},
    requires=[R, U, "not submitted[job]"], ensures=[R, U],
    # the only hand-off to an executor: the job is the only non-opted-out submitted job of its key
    at_call={"submit": [NOTWIN, "arg0 == job",
                        "implies(not " + OPTOUT.format(j="job") + ", self._pending_jobs.get((job.eval_hash, job.context_hash)) == Some(job))"],
             "submit_script": [NOTWIN, "arg0 == job",
                               "implies(not " + OPTOUT.format(j="job") + ", self._pending_jobs.get((job.eval_hash, job.context_hash)) == Some(job))"]},
    on_call={"submit": "submitted[arg0] = True", "submit_script": "submitted[arg0] = True"},
    post_hooks={"job-submitted-only-after-pending-check-and-cache-miss": lambda eng, st, entry: eng.spec(
        "implies(submitted[job], checked_pending and checked_cache)", st, entry)},
    ghost_local={"checked_pending": BOOL, "checked_cache": BOOL}, ghost_init=["not checked_pending", "not checked_cache"],
    after_call={("Scheduler._check_pending_job", 0): "checked_pending = (result == None)", ("Scheduler._get_cache", 0): "checked_cache = not result1"},
    must_call=["_check_pending_job", "_get_cache"], ghost=GH),
 "Scheduler._get_cache": dict(where=f"{S}:Scheduler._get_cache", params={"self": REF, "job": REF}, returns=[OBJ, BOOL, OBJ],
    ensures=["self._pending_jobs == old(self._pending_jobs)", "submitted == old(submitted)"], ghost=GH),
 "Scheduler._finalize_job": dict(where=f"{S}:Scheduler._finalize_job", params={"self": REF, "job": REF},
    classes={"self": "Scheduler", "job": "Job"},
    requires=[R, U], ensures=[R_AFTER, U_AFTER, "submitted == old(submitted)",
        # removes at most the job's own registration
        "forall(k, Key, self._pending_jobs.get(k) == old(self._pending_jobs.get(k)) or (old(self._pending_jobs.get(k)) == Some(job) and self._pending_jobs.get(k) == None))"],
    ghost=GH),
 "Scheduler.clear": dict(where=f"{S}:Scheduler.clear", params={"self": REF}, classes={"self": "Scheduler"},
    ensures=["forall(k, Key, k not in self._pending_jobs)"]),
}


def get_option(eng, n, st, old):
    """job.get_option('cache_scope'|'allowed_cache_results', ...) = the job's evaluated option (C27 contracts), a function of the job"""
    import ast
    key = n.args[0].value if n.args and isinstance(n.args[0], ast.Constant) else None
    j = eng.ev(n.func.value, st, old)
    if key == "cache_scope":
        return eng.ctx.app("cache_scope_of", [REF], OBJ, [j])
    if key == "allowed_cache_results":
        return eng.ctx.app("allowed_of", [REF], Opt(Set(OBJ)), [j])
    return NotImplemented


MODULE = Module(
    fields={"_pending_jobs": PEND, "eval_hash": Opt(STR), "context_hash": Opt(STR), "was_cached": BOOL},
    stable={"task": REF, "script": OBJ},
    # assumed contract, proved under C27 (Scheduler._evaluate_apply / options_then): a job that records no provenance is evaluated
    # with cache_scope NONE, so "runs without provenance" (property statement) implies the code's opt-out condition
    axioms=["(forall ((j Ref)) (! (=> (not (|prov_of| j)) (= (|cache_scope_of| j) |enum_CacheScope.NONE|)) :pattern ((|prov_of| j))))"],
    ufuns={"prov_of": ([REF], BOOL), "cache_scope_of": ([REF], OBJ), "allowed_of": ([REF], Opt(Set(OBJ))), "truthy": ([OBJ], BOOL)},
    enums={"CacheScope": ["NONE", "CSE", "BACKEND"], "CacheResult": ["CSE", "SINGLE", "ULTIMATE", "MISS"]},
    sortnames={"Key": KEY},
    lib={"job.get_option(": get_option,
         "job.recording_provenance()": lambda eng, n, st, old: eng.ctx.app("prov_of", [REF], BOOL, [eng.ev(n.func.value, st, old)])},
    classes={"self": "Scheduler", "job": "Job"}, contracts=contracts,
)
from pvc import frame_scan, bounded
from pvc.result import Result


def frame_checks(tier, seed):
    F = "redun/scheduler.py:"
    D = "redun/executors/docker.py:DockerExecutor."
    # the scan is by attribute name: DockerExecutor has a table of its own with the same name (docker job id -> Job), JobInfo is a
    # read-only snapshot class with an eval_hash field, and `redun launch` (launch_script) builds a fresh Job outside any scheduler run
    other_pending = {D + "__init__", D + "_process_job_status", D + "_submit"}
    other_hash = {F + "JobInfo.__init__", F + "JobInfo.__setstate__", "redun/executors/launch.py:launch_script"}
    return [
        # every writer of the registration table is under contract above (or is the constructor)
        frame_scan.check("C06", "_pending_jobs", {F + "Scheduler.__init__", F + "Scheduler.clear", F + "Scheduler._exec_job_main_thread", F + "Scheduler._finalize_job"} | other_pending, Result),
        # the call key of a job is written only before its registration (constructor, _exec_job_main_thread)
        frame_scan.check("C06", "eval_hash", {F + "Job.__init__", F + "Scheduler._exec_job_main_thread"} | other_hash, Result),
        frame_scan.check("C06", "context_hash", {F + "Job.__init__", F + "Scheduler._exec_job_main_thread"}, Result),
        # executors receive jobs only from _exec_job_main_thread
        frame_scan.check_call_sites("C06", "executor-hand-off", {"submit", "submit_script"},
                                    {F + "Scheduler._exec_job_main_thread"}, Result, files=["redun/scheduler.py"]),
    ]


def bounded_orders(tier, seed):
    return [bounded.run("C06", "completion-orders", env={"VERIF_TIER": tier, "VERIF_SEED": str(seed)},
                        rule="small programs with repeated calls x every completion order (deterministic executor); distinct = distinct (program, completion order)")]


EXTRA_CHECKS = [frame_checks, bounded_orders]
VERIFY = ["Scheduler._check_pending_job", "Scheduler._exec_job_main_thread", "Scheduler._finalize_job", "Scheduler.clear"]
EXPECTED_MIN_OBLIGATIONS = 15
TRUSTED = ["A-FRAME (frame scan of _pending_jobs / eval_hash / context_hash writers)", "A-QUEUE (done_job/reject_job only enqueue)"]
ASSUMPTIONS = [
    "ghost set `submitted` = jobs handed to executor.submit/submit_script and not yet finalized; each scheduler event handler is an atomic step on the scheduler thread",
    "the evaluated options of a job (cache_scope, allowed_cache_results, prov) are functions of the job (C27 proves eval_options is written once)",
    "prov=False implies cache_scope NONE in the evaluated options (postcondition proved under C27, used here as an axiom)",
    "hash_args_eval / get_hash identify the call (C15/C18); equal keys = same task hash, argument hashes and context",
    "a finished twin is found through the backend CSE lookup (contracts under C12/C28/C05), not through _pending_jobs",
]
