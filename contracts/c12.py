"""C12 Failures propagate and are never replayed from the cache -- kernel contracts on the real scheduler functions."""
from pvc.smt import *
from pvc.core import Module
from pvc import frame_scan
from pvc.result import Result

PROPERTY = "C12"
S = "redun/scheduler.py"


def check_cache_call(eng, n, st, old):
    """self.backend.check_cache(...): opaque backend lookup returning (result, call_hash, cache_type)"""
    for a in n.args:
        eng.ev(a, st, old)
    r, ch, ct = eng.opaque("cached_result"), eng.opaque("call_hash"), eng.opaque("cache_type")
    st.env["$ctype"], st.env["$cres"] = ct, r
    st.ver += 1
    return TupV([r, ch, ct])


def post_errors_only_from_cse(eng, st, entry):
    if "$ctype" not in st.env:
        return T(BOOL, "true")
    cse = eng.enum_const("CacheResult", "CSE")
    res, cached = st.env["result0"], st.env["result1"]
    iserr = eng.ctx.app("isinst_ErrorValue", [OBJ], BOOL, [res])
    return T(BOOL, f"(=> (and {cached.s} {iserr.s}) (= {st.env['$ctype'].s} {cse.s}))")


def post_result_is_backend_result(eng, st, entry):
    if "$ctype" not in st.env:
        return T(BOOL, "true")
    return T(BOOL, f"(=> {st.env['result1'].s} (= {st.env['result0'].s} {st.env['$cres'].s}))")


def post_valid_unless_cse(eng, st, entry):
    """a result taken from the backend cache (not CSE) is replayed only if it is still valid -- in a dry run as in a real run"""
    if "$ctype" not in st.env:
        return T(BOOL, "true")
    cse = eng.enum_const("CacheResult", "CSE")
    valid = eng.ctx.app("is_valid_value", [OBJ], BOOL, [st.env["result0"]])
    return T(BOOL, f"(=> (and {st.env['result1'].s} (not (= {st.env['$ctype'].s} {cse.s}))) {valid.s})")


contracts = {
 "Scheduler._get_cache": dict(where=f"{S}:Scheduler._get_cache",
    params={"self": REF, "job": REF}, returns=[OBJ, BOOL, OBJ],
    lib={"self.backend.check_cache(": check_cache_call,
         "self._is_valid_value(": lambda e, n, st, old: e.ctx.app("is_valid_value", [OBJ], BOOL, [e.to_obj(e.ev(n.args[0], st, old))])},
    post_hooks={"cached-error-only-from-CSE": post_errors_only_from_cse, "cached-result-is-the-recorded-one": post_result_is_backend_result,
                "backend-cache-hit-replayed-only-if-valid": post_valid_unless_cse}),
 "Scheduler._reject_job_main_thread": dict(where=f"{S}:Scheduler._reject_job_main_thread",
    params={"self": REF, "job": Opt(REF), "error": OBJ, "error_traceback": OBJ, "job_tags": OBJ},
    ghost={"rejected": BOOL, "finalized": BOOL, "workflow_rejected": BOOL, "recorded_end": BOOL},
    requires=["not rejected", "not finalized", "not workflow_rejected", "not recorded_end"],
    ensures=["implies(job != None, rejected and finalized)", "implies(job == None, workflow_rejected)",
             "implies(recorded_end, job != None)"],
    at_call={"reject": ["arg0 == error", "recv == val(job)"],
             "record_job_end": ["kw_status == 'FAILED'", "arg0 == val(job)"],
             "do_reject": ["arg0 == error"],
             "_finalize_job": ["arg0 == val(job)", "rejected"],
             "record_call_node": ["isinst_ErrorValue_recorded(kw_result_hash)"]},
    on_call={"reject": "rejected = True", "_finalize_job": "finalized = True", "do_reject": "workflow_rejected = True",
             "record_job_end": "recorded_end = True"},
    lib={"self.backend.record_value(": lambda e, n, st, old: record_error_value(e, n, st, old),
         "ErrorValue(": lambda e, n, st, old: mk_error_value(e, n, st, old)},
    opaque_raises=False, no_raise=True),
 "Scheduler.reject_job": dict(where=f"{S}:Scheduler.reject_job",
    params={"self": REF, "job": Opt(REF), "error": OBJ, "error_traceback": OBJ, "job_tags": OBJ}),
 "Scheduler._exec_job_main_thread": dict(where=f"{S}:Scheduler._exec_job_main_thread",
    params={"self": REF, "job": REF, "eval_args": OBJ},
    at_call={"done_job": ["not isinst_ErrorValue(arg1)"]}, must_call=["reject_job", "_get_cache"]),
 "Scheduler._done_job_main_thread": dict(where=f"{S}:Scheduler._done_job_main_thread",
    params={"self": REF, "job": REF, "result": OBJ, "job_tags": OBJ}, must_call=["catch", "reject_job"],
    before_call={("Scheduler.reject_job", 0): ["arg0 == Some(job)"]}),
}


def mk_error_value(eng, n, st, old):
    v = eng.opaque("error_value")
    st.pc.append(eng.ctx.app("isinst_ErrorValue", [OBJ], BOOL, [v]).s)
    return v


def record_error_value(eng, n, st, old):
    """backend.record_value(v) returns the hash under which v is stored; remember whether v is an ErrorValue"""
    v = eng.ev(n.args[0], st, old)
    h = eng.opaque("value_hash")
    iserr = eng.ctx.app("isinst_ErrorValue", [OBJ], BOOL, [eng.to_obj(v)])
    rec = eng.ctx.app("isinst_ErrorValue_recorded", [OBJ], BOOL, [h])
    st.pc.append(f"(= {rec.s} {iserr.s})")
    st.ver += 1
    # serialising an arbitrary user exception may fail with TypeError (unpicklable payload) or AttributeError (local objects)
    from pvc.core import RaiseEx
    # (the fallback value ErrorValue(Exception(repr(error))) is a plain exception with a string payload: always serialisable)
    c = eng.choice(3) if eng.try_depth else 0
    if c == 1:
        raise RaiseEx("TypeError", None, n.lineno)
    if c == 2:
        raise RaiseEx("AttributeError", None, n.lineno)
    return h


MODULE = Module(fields={"_dryrun": BOOL, "was_cached": BOOL},
                ufuns={"isinst_ErrorValue": ([OBJ], BOOL), "isinst_ErrorValue_recorded": ([OBJ], BOOL), "is_valid_value": ([OBJ], BOOL)},
                enums={"CacheResult": ["CSE", "SINGLE", "ULTIMATE", "MISS"], "CacheScope": ["NONE", "CSE", "BACKEND"], "CacheCheckValid": ["FULL", "SHALLOW"]},
                classes={"self": "Scheduler", "job": "Job"}, contracts=contracts)
VERIFY = ["Scheduler._get_cache", "Scheduler._reject_job_main_thread", "Scheduler._exec_job_main_thread", "Scheduler._done_job_main_thread"]


def rejection_handler_sites(tier, seed):
    """the places where a promise rejection is intercepted (then(f, g), catch(g)) are exactly the ones whose handling is under contract or part of
    the documented error-handling tasks; a rejection handler anywhere else can turn a failure into a value"""
    import ast
    from pvc import extract
    allowed = {"redun/promise.py:Promise.catch", "redun/promise.py:wait_promises", "redun/promise.py:Promise.all", "redun/promise.py:Promise.then.wrap_callback.wrapper",
               "redun/scheduler.py:catch", "redun/scheduler.py:Job.collapse", "redun/scheduler.py:Scheduler._evaluate_async_main_thread", "redun/scheduler.py:Scheduler._done_job_main_thread"}
    found = []
    for rel in extract.all_repo_files():
        tree, src = extract.parse_file(rel)
        if ".then(" not in src and ".catch(" not in src:
            continue
        enc = frame_scan._enclosing(tree)
        for x in ast.walk(tree):
            if isinstance(x, ast.Call) and isinstance(x.func, ast.Attribute) and (
                    (x.func.attr == "then" and (len(x.args) >= 2 or any(k.arg in ("rejector", "reject") or k.arg is None for k in x.keywords) or any(isinstance(a, ast.Starred) for a in x.args)))
                    or x.func.attr == "catch"):
                found.append((f"{rel}:{enc.get(id(x), '?')}", x.lineno, ast.unparse(x)[:70].replace("\n", " ")))
    bad = [f for f in found if f[0] not in allowed]
    return [Result("C12/call-sites[rejection handlers]", "frame", "proved" if not bad else "refuted", "(package scan)", bad[0][1] if bad else 0, solver="frame_scan",
                   detail={"sites": [f"{a}:L{b}" for a, b, _ in found], "unexpected": [f"{a}:L{b} {c}" for a, b, c in bad], "stage": 0})]


def bounded_failures(tier, seed):
    from pvc import bounded
    return [bounded.run("C12", "failing-workflows", rule="failing leaves at depth 0..2 in containers (two executions each: never replayed), an unpicklable error, and a failing expression used twice in one job "
                        "with none / one / both uses guarded by catch: run() raises exactly the task's error unless every use is guarded; jobs on the failing path recorded FAILED")]


EXTRA_CHECKS = [rejection_handler_sites, bounded_failures]
EXPECTED_MIN_OBLIGATIONS = 15
TRUSTED = ["A-LOG", "A-QUEUE", "promise chaining (C13 contracts)"]
ASSUMPTIONS = [
    "backend.check_cache / record_value / record_call_node are opaque here (their own contracts are under C03/C05/C20/C31)",
    "Job.reject(error) rejects the job's result promise with that error, and ancestors fail through evaluate(...).then(resolve).catch(reject_job) by the promise chaining contract (C13); stated over the contracts, not over all programs",
    "Scheduler.run raising exactly result.error is exercised by the replay driver only (run() is not under contract)",
]
