"""C21 Upstream dataflow of arguments is recorded -- contracts on RedunBackendDb._find_arg_upstreams and _record_args
(redun/backends/db/__init__.py), derive_expression and the constructors / __setstate__ of the expression classes (redun/expression.py),
and the scheduler's copy of the evaluation bookkeeping (Scheduler._evaluate_apply).

Specification of the upstream set of an argument expression x, by recursion on the expression:
  UPS(x)     = union of contrib(v) over the leaves v of x (iter_nested_value, C19)
  contrib(v) = {v.call_hash}            if v is a TaskExpression that is not a SchedulerExpression (nothing while call_hash is unset)
             = UPS(v._upstreams)        if v is any other Expression
             = {}                       otherwise
and the representation invariant that makes UPS the dataflow: an ApplyExpression's _upstreams are [args, kwargs] (after construction and
after unpickling alike), a derived expression's are [the expression it was derived from]."""
import ast
from pvc.smt import *
from pvc.core import Module, RaiseEx
from pvc.result import Result
from pvc import extract

PROPERTY = "C21"
DB = "redun/backends/db/__init__.py"
E = "redun/expression.py"
S = "redun/scheduler.py"
HT = "HashT"
PRELUDE = "(declare-sort HashT 0)"
AX = [
 # class hierarchy of redun.expression
 "(forall ((v Obj)) (! (=> (|is_sched| v) (|is_task| v)) :pattern ((|is_sched| v))))",
 "(forall ((v Obj)) (! (=> (|is_task| v) (|is_expr| v)) :pattern ((|is_task| v))))",
 # membership in a sequence of hashes
 "(forall ((s (Seq HashT)) (t (Seq HashT)) (h HashT)) (! (= (|in_elems| (seq.++ s t) h) (or (|in_elems| s h) (|in_elems| t h))) :pattern ((|in_elems| (seq.++ s t) h))))",
 "(forall ((x HashT) (h HashT)) (! (= (|in_elems| (seq.unit x) h) (= x h)) :pattern ((|in_elems| (seq.unit x) h))))",
 "(forall ((h HashT)) (! (not (|in_elems| (as seq.empty (Seq HashT)) h)) :pattern ((|in_elems| (as seq.empty (Seq HashT)) h))))",
 # the specification: UPS as a fold of contrib over the leaves
 "(forall ((s (Seq Obj)) (h HashT)) (! (not (|inU| s 0 h)) :pattern ((|inU| s 0 h))))",
 "(forall ((s (Seq Obj)) (k Int) (h HashT)) (! (=> (and (>= k 0) (< k (seq.len s))) (= (|inU| s (+ k 1) h) (or (|inU| s k h) (|contrib| (seq.nth s k) h)))) :pattern ((|inU| s (+ k 1) h))))",
 "(forall ((x Obj) (h HashT)) (! (= (|inUPS| x h) (|inU| (|leaves| x) (seq.len (|leaves| x)) h)) :pattern ((|inUPS| x h))))",
 "(forall ((v Obj) (h HashT)) (! (= (|contrib| v h) (ite (and (|is_task| v) (not (|is_sched| v))) (and (|has_ch| v) (= (|ch| v) h)) (and (|is_expr| v) (|inUPS| (|ups_of| v) h)))) :pattern ((|contrib| v h))))",
]
UF = {"is_sched": ([OBJ], BOOL), "is_task": ([OBJ], BOOL), "is_expr": ([OBJ], BOOL), "in_elems": ([Seq(HT), HT], BOOL), "inU": ([Seq(OBJ), INT, HT], BOOL),
      "inUPS": ([OBJ, HT], BOOL), "contrib": ([OBJ, HT], BOOL), "leaves": ([OBJ], Seq(OBJ)), "has_ch": ([OBJ], BOOL), "ch": ([OBJ], HT), "ups_of": ([OBJ], OBJ)}
CLS = {"TaskExpression": "is_task", "SchedulerExpression": "is_sched", "Expression": "is_expr"}


def isinst(e, v, nm, st):
    if isinstance(v, T) and v.sort == OBJ and nm in CLS:
        return f"(|{CLS[nm]}| {v.s})"
    return None


def attr_hook(e, o, attr, st, old):
    if isinstance(o, T) and o.sort == OBJ and attr == "call_hash":
        # Optional[str]: truthy exactly when a call hash has been recorded on the expression
        e.ctx.need(Opt(HT))
        t = T(Opt(HT), f"(ite (|has_ch| {o.s}) {some(e.ctx, T(HT, f'(|ch| {o.s})')).s} {none_of(e.ctx, HT).s})")
        t.tr = f"(|has_ch| {o.s})"
        return t
    if isinstance(o, T) and o.sort == OBJ and attr == "_upstreams":
        return T(OBJ, f"(|ups_of| {o.s})")
    return NotImplemented


def lib_leaves(e, n, st, old):
    return e.ctx.app("leaves", [OBJ], Seq(OBJ), [e.to_obj(e.ev(n.args[0], st, old))])


def coerce(e, t, sort):
    if sort == HT and isinstance(t, T) and t.sort == Opt(HT):
        return unopt(t)
    return None


ups_contracts = {
 "RedunBackendDb._find_arg_upstreams": dict(where=f"{DB}:RedunBackendDb._find_arg_upstreams", params={"self": REF, "expr_arg": OBJ}, yields=Seq(HT), no_raise=True,
    lib={"iter_nested_value(": lib_leaves},
    loops={"iter_nested_value|": dict(inv=["forall(h, HashT, in_elems(yielded, h) == inU(leaves(expr_arg), index(), h))"])},
    # the generator yields exactly the upstream call hashes of the specification (as a set: duplicates are removed by the caller)
    ensures=["forall(h, HashT, in_elems(yielded, h) == inUPS(expr_arg, h))"]),
 # the recursive call, through the function's own contract
 "*._find_arg_upstreams": dict(where=f"{DB}:RedunBackendDb._find_arg_upstreams", params={"self": REF, "expr_arg": OBJ}, returns=Seq(HT),
    ensures=["forall(h, HashT, in_elems(result, h) == inUPS(expr_arg, h))"]),
}
UPS_MODULE = Module(prelude=PRELUDE, sortnames={"HashT": HT}, axioms=AX, ufuns=UF, hooks={"isinstance": isinst, "attr": attr_hook, "coerce": coerce}, contracts=ups_contracts)

# ------------------------------------------------------------------------------------------------ representation invariant of _upstreams
EXPR_LIB = {"get_type_registry()": lambda e, n, st, old: e.opaque("registry"),
            "registry.deserialize(": lambda e, n, st, old: e.ctx.app("deser", [OBJ], OBJ, [e.to_obj(e.ev(n.args[1], st, old))])}


def clear_upstreams(e, st):
    """super().__init__() / super().__setstate__(state) reaching Expression.__init__ / Expression.__setstate__ (verified below): no upstreams"""
    h = e.field(st, "_upstreams")
    st.heap["_upstreams"] = T(h.sort, f"(store {h.s} {st.env['self'].s} (as seq.empty (Seq Obj)))")
    st.ver += 1
    return T(NONE, "none")


def apply_init(e, n, st, old):
    """super().__init__(args, kwargs) in TaskExpression / SimpleExpression: ApplyExpression.__init__, through its contract (verified below)"""
    a, k = e.to_obj(e.ev(n.args[0], st, old)), e.to_obj(e.ev(n.args[1], st, old))
    me = st.env["self"].s
    for fld, v in (("args", a), ("kwargs", k)):
        h = e.field(st, fld)
        st.heap[fld] = T(h.sort, f"(store {h.s} {me} {v.s})")
    h = e.field(st, "_upstreams")
    st.heap["_upstreams"] = T(h.sort, f"(store {h.s} {me} (seq.++ (seq.unit {a.s}) (seq.unit {k.s})))")
    st.ver += 1
    return T(NONE, "none")


UPS_IS_ARGS = ["len(self._upstreams) == 2", "self._upstreams[0] == self.args", "self._upstreams[1] == self.kwargs"]
expr_contracts = {
 "Expression.__init__": dict(where=f"{E}:Expression.__init__", params={"self": REF}, ensures=["len(self._upstreams) == 0"], no_raise=True),
 "Expression.__setstate__": dict(where=f"{E}:Expression.__setstate__", params={"self": REF, "state": OBJ}, ensures=["len(self._upstreams) == 0"], no_raise=True),
 "ApplyExpression.__init__": dict(where=f"{E}:ApplyExpression.__init__", params={"self": REF, "args": OBJ, "kwargs": OBJ}, lib={"super().__init__()": lambda e, n, st, old: clear_upstreams(e, st)},
    ensures=UPS_IS_ARGS + ["self.args == args", "self.kwargs == kwargs"], no_raise=True),
 "TaskExpression.__init__": dict(where=f"{E}:TaskExpression.__init__", params={"self": REF, "task_name": STR, "args": OBJ, "kwargs": OBJ, "task_options": OBJ, "export_options": OBJ, "length": OBJ},
    lib={"super().__init__(": apply_init}, ensures=UPS_IS_ARGS + ["self.args == args", "self.kwargs == kwargs", "self.call_hash == None"]),
 "SimpleExpression.__init__": dict(where=f"{E}:SimpleExpression.__init__", params={"self": REF, "func_name": STR, "args": OBJ, "kwargs": OBJ},
    lib={"super().__init__(": apply_init}, ensures=UPS_IS_ARGS + ["self.args == args", "self.kwargs == kwargs"], no_raise=True),
 # unpickled expressions (results read from the cache) carry the same upstreams as freshly built ones
 "TaskExpression.__setstate__": dict(where=f"{E}:TaskExpression.__setstate__", params={"self": REF, "state": Map(STR, OBJ)},
    lib=dict(EXPR_LIB, **{"super().__setstate__(state)": lambda e, n, st, old: clear_upstreams(e, st)}),
    requires=["'task_name' in state", "'args' in state", "'kwargs' in state"],
    ensures=UPS_IS_ARGS + ["self.args == deser(state['args'])", "self.kwargs == deser(state['kwargs'])", "self.call_hash == None"]),
 "SimpleExpression.__setstate__": dict(where=f"{E}:SimpleExpression.__setstate__", params={"self": REF, "state": Map(STR, OBJ)},
    lib=dict(EXPR_LIB, **{"super().__setstate__(state)": lambda e, n, st, old: clear_upstreams(e, st)}),
    requires=["'func_name' in state", "'args' in state", "'kwargs' in state"],
    ensures=UPS_IS_ARGS + ["self.args == deser(state['args'])", "self.kwargs == deser(state['kwargs'])"]),
 # a value derived from an expression (getitem / getattr / operators evaluated by the scheduler, results of scheduler tasks) points back at it
 "derive_expression": dict(where=f"{E}:derive_expression", params={"orig_expr": OBJ, "derived_value": REF}, returns=REF, no_raise=True,
    lib={"ValueExpression(": lambda e, n, st, old: e.opaque("value_expression", REF)},
    ensures=["len(result._upstreams) == 1", "result._upstreams[0] == orig_expr", "implies(is_expr_ref(derived_value), result == derived_value)"]),
}


def isinst_ref(e, v, nm, st):
    if isinstance(v, T) and v.sort == REF and nm == "Expression":
        return f"(|is_expr_ref| {v.s})"
    return None


EXPR_MODULE = Module(hooks={"isinstance": isinst_ref}, fields={"_upstreams": Seq(OBJ), "args": OBJ, "kwargs": OBJ, "call_hash": Opt(STR), "_hash": Opt(STR), "_length": Opt(INT)},
                     ufuns={"deser": ([OBJ], OBJ), "is_expr_ref": ([REF], BOOL)}, contracts=expr_contracts)

# ------------------------------------------------------------------------------------------------ _record_args: the Argument / ArgumentResult rows
ARG = Tup(Opt(INT), Opt(STR), OBJ, OBJ)          # (position, key, argument expression, evaluated argument): one element of all_args
ROWA = Tup(STR, STR, STR, Opt(INT), Opt(STR))    # Argument(arg_hash, call_hash, value_hash, arg_position, arg_key)
ROWR = Tup(STR, HT)                              # ArgumentResult(arg_hash, result_call_hash)
COLS = {"Argument": (["arg_hash", "call_hash", "value_hash", "arg_position", "arg_key"], ROWA, "tblA"), "ArgumentResult": (["arg_hash", "result_call_hash"], ROWR, "tblR")}
mA, mR, mG = mangle(ROWA), mangle(ROWR), mangle(ARG)
REC_DEFS = f"""
(define-fun AH ((c String) (a {sort_smt(ARG)})) String (|hs5| "Argument" c (|str_oi| (f0_{mG} a)) (|str_os| (f1_{mG} a)) (|vhash| (f3_{mG} a))))
(define-fun rowA ((c String) (a {sort_smt(ARG)})) {sort_smt(ROWA)} (mk_{mA} (AH c a) c (|vhash| (f3_{mG} a)) (f0_{mG} a) (f1_{mG} a)))
(define-fun posarg ((i Int) (x Obj) (y Obj)) {sort_smt(ARG)} (mk_{mG} (Some_Int i) None_Int x y))
(define-fun kwarg ((k String) (x Obj) (y Obj)) {sort_smt(ARG)} (mk_{mG} None_Int (Some_String k) x y))
""".replace("(mk_%s (Some_Int i) None_Int x y)" % mG, "(mk_%s (Some_Int i) None_String x y)" % mG)


def spec_fn(name, sorts, ret):
    def h(e, n, st, old):
        args = [e.coerce(e.ev(a, st, old), srt, name) for a, srt in zip(n.args, sorts)]
        return T(ret, f"({name} " + " ".join(a.s for a in args) + ")")
    return h


def rec_session_add(e, n, st, old):
    """session.add(Argument(...)) / session.add(ArgumentResult(...)): the row, as the tuple of its columns, joins the table"""
    arg = n.args[0]
    if not (isinstance(arg, ast.Call) and isinstance(arg.func, ast.Name) and arg.func.id in COLS):
        return NotImplemented
    cols, rsort, tbl = COLS[arg.func.id]
    kws = {k.arg: k.value for k in arg.keywords}
    if set(kws) != set(cols) or arg.args:
        raise KeyError(f"A-ORM: {arg.func.id}(...) is expected to set exactly the columns {cols}")
    items = [e.coerce(e.ev(kws[c_], st, old), srt, c_) for c_, srt in zip(cols, rsort[1:])]
    row = mk_tup(e.ctx, items)
    g = st.ghost[tbl]
    st.ghost[tbl] = T(g.sort, f"(store {g.s} {row.s} true)")
    return T(NONE, "none")


def lib_str(e, n, st, old):
    v = e.ev(n.args[0], st, old)
    if isinstance(v, T) and v.sort == Opt(INT):
        return e.ctx.app("str_oi", [Opt(INT)], STR, [v])
    if isinstance(v, T) and v.sort == Opt(STR):
        return e.ctx.app("str_os", [Opt(STR)], STR, [v])
    return NotImplemented


def lib_hash_struct(e, n, st, old):
    lst = n.args[0]
    if isinstance(lst, ast.List) and len(lst.elts) == 5:
        return e.ctx.app("hs5", [STR] * 5, STR, [e.coerce(e.ev(x, st, old), STR, "hash_struct") for x in lst.elts])
    return NotImplemented


def lib_sorted_set(e, n, st, old):
    """sorted(S) for a set of strings: a sequence without repetitions whose elements are exactly those of S.
    For S = set(d1) & set(d2) the membership condition is stated directly over the two dicts."""
    arg = n.args[0]

    def keys_of(x):
        if isinstance(x, ast.Call) and ast.unparse(x.func) == "set" and len(x.args) == 1:
            m = e.ev(x.args[0], st, old)
            if isinstance(m, T) and isinstance(m.sort, tuple) and m.sort[0] == "Map" and m.sort[1] == STR:
                return m
        return None
    ms = [keys_of(arg.left), keys_of(arg.right)] if isinstance(arg, ast.BinOp) and isinstance(arg.op, ast.BitAnd) else []
    if ms and all(m is not None for m in ms):
        mem = lambda k: conj([is_some(T(Opt(m.sort[2]), f"(select {m.s} {k})")).s for m in ms])
        pats = lambda k: " ".join(f":pattern ((select {m.s} {k}))" for m in ms[:1])
    else:
        S_ = e.ev(arg, st, old)
        if not (isinstance(S_, T) and S_.sort == Set(STR)):
            return NotImplemented
        mem = lambda k: f"(select {S_.s} {k})"
        pats = lambda k: f":pattern ((select {S_.s} {k}))"
    r = e.ctx.fresh(Seq(STR), "sorted")
    pos = f"|pos_sorted{e.ctx.n}|"
    e.ctx.fun(pos.strip("|"), [STR], INT)
    st.pc.append(f"(forall ((|q_k| String)) (! (=> {mem('|q_k|')} (and (<= 0 ({pos} |q_k|)) (< ({pos} |q_k|) (seq.len {r.s})) (= (seq.nth {r.s} ({pos} |q_k|)) |q_k|))) :pattern (({pos} |q_k|)) {pats('|q_k|')}))")
    st.pc.append(f"(forall ((|q_j| Int)) (! (=> (and (<= 0 |q_j|) (< |q_j| (seq.len {r.s}))) (and {mem(f'(seq.nth {r.s} |q_j|)')} (= ({pos} (seq.nth {r.s} |q_j|)) |q_j|))) :pattern ((seq.nth {r.s} |q_j|))))")
    return r


def lib_set(e, n, st, old):
    v = e.ev(n.args[0], st, old)
    if isinstance(v, T) and isinstance(v.sort, tuple) and v.sort[0] == "Map":          # set(d): the keys of a dict
        r = e.ctx.fresh(Set(v.sort[1]), "keys")
        st.pc.append(f"(forall ((|q_k| {sort_smt(v.sort[1])})) (! (= (select {r.s} |q_k|) {is_some(T(Opt(v.sort[2]), f'(select {v.s} |q_k|)')).s}) :pattern ((select {r.s} |q_k|))))")
        return r
    if isinstance(v, T) and v.sort == Seq(HT):                                          # set(<generator of call hashes>)
        r = e.ctx.fresh(Set(HT), "hashes")
        st.pc.append(f"(forall ((|q_h| HashT)) (! (= (select {r.s} |q_h|) (|in_elems| {v.s} |q_h|)) :pattern ((select {r.s} |q_h|))))")
        return r
    return NotImplemented


def lib_chain(e, n, st, old):
    """itertools.chain of sequences: their concatenation"""
    parts = [e.ev(a, st, old) for a in n.args]
    if not all(isinstance(p_, T) and p_.sort == Seq(ARG) for p_ in parts):
        return NotImplemented
    r = e.ctx.fresh(Seq(ARG), "chained")
    st.pc.append(f"(= (seq.len {r.s}) (+ " + " ".join(f"(seq.len {p_.s})" for p_ in parts) + "))")
    off = "0"
    for p_ in parts:
        st.pc.append(f"(forall ((|q_c| Int)) (! (=> (and (<= 0 |q_c|) (< |q_c| (seq.len {p_.s}))) (= (seq.nth {r.s} (+ {off} |q_c|)) (seq.nth {p_.s} |q_c|))) :pattern ((seq.nth {p_.s} |q_c|))))")
        off = f"(+ {off} (seq.len {p_.s}))"
    # every position of the concatenation lies in exactly one part
    offs, cur = [], "0"
    for p_ in parts:
        offs.append((cur, p_))
        cur = f"(+ {cur} (seq.len {p_.s}))"
    cases = " ".join(f"(and (<= {o} |q_c|) (< |q_c| (+ {o} (seq.len {p_.s}))) (= (seq.nth {r.s} |q_c|) (seq.nth {p_.s} (- |q_c| {o}))))" for o, p_ in offs)
    st.pc.append(f"(forall ((|q_c| Int)) (! (=> (and (<= 0 |q_c|) (< |q_c| (seq.len {r.s}))) (or {cases})) :pattern ((seq.nth {r.s} |q_c|))))")
    return r


def ev_elt(e, node, st, old, env):
    st2 = st.clone()
    st2.env.update(env)
    e.nofork += 1
    saved = e.spec_mode
    e.spec_mode = True
    e.in_code_comp = getattr(e, "in_code_comp", 0) + 1      # code of the repository evaluated in spec mode
    try:
        return e.coerce(e.ev(node, st2, old), ARG, "all_args element")
    finally:
        e.nofork -= 1
        e.spec_mode = saved
        e.in_code_comp -= 1


def rec_comp(e, n, st, old):
    if len(n.generators) != 1 or not isinstance(n, (ast.GeneratorExp, ast.ListComp)):
        return NotImplemented
    g = n.generators[0]
    it, tg = g.iter, g.target
    # (elt for i, (a, b) in enumerate(zip(xs, ys))): one element per position present in both sequences
    if (isinstance(it, ast.Call) and ast.unparse(it.func) == "enumerate" and len(it.args) == 1 and isinstance(it.args[0], ast.Call) and ast.unparse(it.args[0].func) == "zip"
            and len(it.args[0].args) == 2 and isinstance(tg, ast.Tuple) and len(tg.elts) == 2 and isinstance(tg.elts[0], ast.Name)
            and isinstance(tg.elts[1], ast.Tuple) and len(tg.elts[1].elts) == 2 and not g.ifs):
        xs, ys = e.ev(it.args[0].args[0], st, old), e.ev(it.args[0].args[1], st, old)
        if isinstance(xs, T) and isinstance(ys, T) and xs.sort[0] == "Seq" and ys.sort[0] == "Seq":
            r = e.ctx.fresh(Seq(ARG), "positional")
            st.pc.append(f"(= (seq.len {r.s}) (ite (<= (seq.len {xs.s}) (seq.len {ys.s})) (seq.len {xs.s}) (seq.len {ys.s})))")
            j = "|q_p|"
            el = ev_elt(e, n.elt, st, old, {tg.elts[0].id: T(INT, j), tg.elts[1].elts[0].id: T(xs.sort[1], f"(seq.nth {xs.s} {j})"), tg.elts[1].elts[1].id: T(ys.sort[1], f"(seq.nth {ys.s} {j})")})
            st.pc.append(f"(forall (({j} Int)) (! (=> (and (<= 0 {j}) (< {j} (seq.len {r.s}))) (= (seq.nth {r.s} {j}) {el.s})) :pattern ((seq.nth {r.s} {j}))))")
            return r
    if isinstance(tg, ast.Name):
        src = e.ev(it, st, old)
        # (elt for key in keys): one element per key, in order
        if isinstance(src, T) and src.sort == Seq(STR) and not g.ifs:
            r = e.ctx.fresh(Seq(ARG), "keyword")
            st.pc.append(f"(= (seq.len {r.s}) (seq.len {src.s}))")
            j = "|q_w|"
            el = ev_elt(e, n.elt, st, old, {tg.id: T(STR, f"(seq.nth {src.s} {j})")})
            st.pc.append(f"(forall (({j} Int)) (! (=> (and (<= 0 {j}) (< {j} (seq.len {r.s}))) (= (seq.nth {r.s} {j}) {el.s})) :pattern ((seq.nth {r.s} {j})) :pattern ((seq.nth {src.s} {j}))))")
            return r
        # [elt for key in d if cond]: one element per key of the dict that satisfies cond (dict order, no repetitions)
        if isinstance(src, T) and isinstance(src.sort, tuple) and src.sort[0] == "Map" and src.sort[1] == STR:
            r = e.ctx.fresh(Seq(ARG), "defaulted")
            k = e.ctx.n
            pos, key = f"|pos_d{k}|", f"|key_d{k}|"
            e.ctx.fun(pos.strip("|"), [STR], INT)
            e.ctx.fun(key.strip("|"), [INT], STR)

            def sel(kt):
                inmap = is_some(T(Opt(src.sort[2]), f"(select {src.s} {kt})")).s
                st3 = st.clone()
                st3.env[tg.id] = T(STR, kt)
                e.nofork += 1
                saved = e.spec_mode
                e.spec_mode = True
                e.in_code_comp = getattr(e, "in_code_comp", 0) + 1
                try:
                    cs = [e.truth(e.ev(c_, st3, old)).s for c_ in g.ifs]
                finally:
                    e.nofork -= 1
                    e.spec_mode = saved
                    e.in_code_comp -= 1
                return conj([inmap] + cs)
            q, j = "|q_k|", "|q_d|"
            el_k = ev_elt(e, n.elt, st, old, {tg.id: T(STR, q)})
            el_j = ev_elt(e, n.elt, st, old, {tg.id: T(STR, f"({key} {j})")})
            st.pc.append(f"(forall (({q} String)) (! (=> {sel(q)} (and (<= 0 ({pos} {q})) (< ({pos} {q}) (seq.len {r.s})) (= (seq.nth {r.s} ({pos} {q})) {el_k.s}) (= ({key} ({pos} {q})) {q}))) :pattern (({pos} {q})) :pattern ((select {src.s} {q}))))")
            st.pc.append(f"(forall (({j} Int)) (! (=> (and (<= 0 {j}) (< {j} (seq.len {r.s}))) (and {sel(f'({key} {j})')} (= (seq.nth {r.s} {j}) {el_j.s}) (= ({pos} ({key} {j})) {j}))) :pattern ((seq.nth {r.s} {j}))))")
            return r
    return NotImplemented


INB = "0 <= j and j < {n}"
REC_INV = [
 "forall(t, RowA, implies(old(tblA)[t], tblA[t]))", "forall(t, RowR, implies(old(tblR)[t], tblR[t]))",
 # an Argument row for every element processed so far, and a result row for each of its upstream call hashes
 "forall(j, Int, implies(" + INB + ", tblA[rowA(call_hash, all_args[j])]))",
 "forall(j, Int, forall(h, HashT, implies(" + INB + " and inUPS(all_args[j][2], h), tblR[(AH(call_hash, all_args[j]), h)])))",
 # and nothing else
 "forall(t, RowA, implies(tblA[t] and not old(tblA)[t], exists(j, Int, " + INB + " and t == rowA(call_hash, all_args[j]))))",
 "forall(t, RowR, implies(tblR[t] and not old(tblR)[t], exists(j, Int, " + INB + " and t[0] == AH(call_hash, all_args[j]) and inUPS(all_args[j][2], t[1]))))",
]
CUR = "AH(call_hash, (i, key, expr_arg, eval_arg))"
rec_contracts = {
 "RedunBackendDb._record_args": dict(where=f"{DB}:RedunBackendDb._record_args",
    params={"self": REF, "call_hash": STR, "expr_args": Tup(Seq(OBJ), Map(STR, OBJ)), "eval_args": Tup(Seq(OBJ), Map(STR, OBJ))},
    ghost={"tblA": Set(ROWA), "tblR": Set(ROWR)}, modifies=["tblA", "tblR"], locals={"default_args": Seq(ARG), "kw_keys": Seq(STR), "all_args": Seq(ARG)},
    lib={"session.add(": rec_session_add, "session.commit()": lambda e, n, st, old: T(NONE, "none"), "self.with_session()": lambda e, n, st, old: e.opaque("session"),
         "self.record_value(": lambda e, n, st, old: e.ctx.app("vhash", [OBJ], STR, [e.to_obj(e.ev(n.args[0], st, old))]),
         "hash_struct(": lib_hash_struct, "str(": lib_str, "sorted(": lib_sorted_set, "set(": lib_set, "chain(": lib_chain},
    loops={"all_args|": dict(inv=[c.format(n="index()") for c in REC_INV], modifies=["tblA", "tblR"]),
           "_find_arg_upstreams|": dict(inv=[c.format(n="index(0)") for c in REC_INV[:3]] + [
               "tblA[rowA(call_hash, (i, key, expr_arg, eval_arg))]", "arg_hash == " + CUR,
               "forall(j, Int, forall(h, HashT, implies(" + INB.format(n="index(0)") + " and inUPS(all_args[j][2], h), tblR[(AH(call_hash, all_args[j]), h)])))",
               "forall(h, HashT, implies(visited()[h], tblR[(arg_hash, h)]))",
               "forall(t, RowA, implies(tblA[t] and not old(tblA)[t], t == rowA(call_hash, (i, key, expr_arg, eval_arg)) or exists(j, Int, " + INB.format(n="index(0)") + " and t == rowA(call_hash, all_args[j]))))",
               "forall(t, RowR, implies(tblR[t] and not old(tblR)[t], (t[0] == arg_hash and visited()[t[1]]) or exists(j, Int, " + INB.format(n="index(0)") + " and t[0] == AH(call_hash, all_args[j]) and inUPS(all_args[j][2], t[1]))))"],
               modifies=["tblR"])},
    ensures=[
     "forall(t, RowA, implies(old(tblA)[t], tblA[t]))", "forall(t, RowR, implies(old(tblR)[t], tblR[t]))",
     # positional arguments: position i, no key, the hash of the value the task received, linked to every upstream call of the argument expression
     "forall(i, Int, implies(0 <= i and i < len(expr_args[0]) and i < len(eval_args[0]), tblA[rowA(call_hash, posarg(i, expr_args[0][i], eval_args[0][i]))]))",
     "forall(i, Int, forall(h, HashT, implies(0 <= i and i < len(expr_args[0]) and i < len(eval_args[0]) and inUPS(expr_args[0][i], h), tblR[(AH(call_hash, posarg(i, expr_args[0][i], eval_args[0][i])), h)])))",
     # keyword arguments given by the caller
     "forall(k, Str, implies(k in eval_args[1] and k in expr_args[1], tblA[rowA(call_hash, kwarg(k, expr_args[1][k], eval_args[1][k]))]))",
     "forall(k, Str, forall(h, HashT, implies(k in eval_args[1] and k in expr_args[1] and inUPS(expr_args[1][k], h), tblR[(AH(call_hash, kwarg(k, expr_args[1][k], eval_args[1][k])), h)])))",
     # defaulted parameters (evaluated but not passed) are recorded as keyword arguments
     "forall(k, Str, implies(k in eval_args[1] and k not in expr_args[1], tblA[rowA(call_hash, kwarg(k, eval_args[1][k], eval_args[1][k]))]))",
     # nothing else: every new Argument row is one of the above; every new ArgumentResult row links one of these arguments to one of its upstream calls
     "forall(t, RowA, implies(tblA[t] and not old(tblA)[t], exists(i, Int, 0 <= i and i < len(expr_args[0]) and i < len(eval_args[0]) and t == rowA(call_hash, posarg(i, expr_args[0][i], eval_args[0][i]))) "
     " or exists(k, Str, k in eval_args[1] and k in expr_args[1] and t == rowA(call_hash, kwarg(k, expr_args[1][k], eval_args[1][k]))) "
     " or exists(k, Str, k in eval_args[1] and k not in expr_args[1] and t == rowA(call_hash, kwarg(k, eval_args[1][k], eval_args[1][k])))))",
     "forall(t, RowR, implies(tblR[t] and not old(tblR)[t], exists(i, Int, 0 <= i and i < len(expr_args[0]) and i < len(eval_args[0]) and t[0] == AH(call_hash, posarg(i, expr_args[0][i], eval_args[0][i])) and inUPS(expr_args[0][i], t[1])) "
     " or exists(k, Str, k in eval_args[1] and k in expr_args[1] and t[0] == AH(call_hash, kwarg(k, expr_args[1][k], eval_args[1][k])) and inUPS(expr_args[1][k], t[1])) "
     " or exists(k, Str, k in eval_args[1] and k not in expr_args[1] and t[0] == AH(call_hash, kwarg(k, eval_args[1][k], eval_args[1][k])) and inUPS(eval_args[1][k], t[1]))))",
    ]),
 "*._find_arg_upstreams": ups_contracts["*._find_arg_upstreams"],
}
REC_SPEC = {"rowA(": spec_fn("rowA", [STR, ARG], ROWA), "AH(": spec_fn("AH", [STR, ARG], STR), "posarg(": spec_fn("posarg", [INT, OBJ, OBJ], ARG), "kwarg(": spec_fn("kwarg", [STR, OBJ, OBJ], ARG)}
REC_MODULE = Module(prelude=PRELUDE, sortnames={"HashT": HT, "RowA": ROWA, "RowR": ROWR}, axioms=AX, defs_text=REC_DEFS,
                    defs={"AH": ([STR, ARG], STR), "rowA": ([STR, ARG], ROWA), "posarg": ([INT, OBJ, OBJ], ARG), "kwarg": ([STR, OBJ, OBJ], ARG)},
                    ufuns=dict(UF, vhash=([OBJ], STR), hs5=([STR] * 5, STR), str_oi=([Opt(INT)], STR), str_os=([Opt(STR)], STR)),
                    lib=REC_SPEC, hooks={"isinstance": isinst, "attr": attr_hook, "coerce": coerce, "comp": rec_comp}, contracts=rec_contracts)


# ------------------------------------------------------------------------------------------------ scheduler: evaluation bookkeeping written on expressions
def lib_clear(e, n, st, old):
    """self.clear(): drops the job's references (expr, args, promise, tags, children); the expression object itself is not touched"""
    h = e.field(st, "expr")
    st.heap["expr"] = T(h.sort, f"(store {h.s} {st.env['self'].s} {none_of(e.ctx, REF).s})")
    return T(NONE, "none")


def isinst_sched(e, v, nm, st):
    if isinstance(v, T) and v.sort == REF and nm in ("TaskExpression", "SimpleExpression"):
        return f"(|is_{nm}_ref| {v.s})"
    return None


JOB_LIB = {"self.recording_provenance()": lambda e, n, st, old: e.ctx.app("recording", [REF], BOOL, [st.env["self"]]), "self.clear()": lib_clear,
           "self.result_promise.do_resolve(": lambda e, n, st, old: T(NONE, "none"), "self.result_promise.do_reject(": lambda e, n, st, old: T(NONE, "none")}
sched_contracts = {
 # a finished job that recorded provenance stamps its call hash on the expression it evaluated (this is what _find_arg_upstreams later reads)
 "Job.resolve": dict(where=f"{S}:Job.resolve", params={"self": REF, "result": OBJ}, lib=JOB_LIB, requires=["self.expr != None"],
    ensures=["implies(recording(self), val(old(self.expr)).call_hash == self.call_hash)", "self.call_hash == old(self.call_hash)"]),
 "Job.reject": dict(where=f"{S}:Job.reject", params={"self": REF, "error": OBJ}, lib=JOB_LIB, requires=["self.expr != None"],
    ensures=["implies(recording(self), val(old(self.expr)).call_hash == self.call_hash)", "self.call_hash == old(self.call_hash)"]),
 # an expression object whose evaluation was shared with an equal expression of the same parent job receives that expression's bookkeeping
 "Scheduler._evaluate_apply.callback": dict(where=f"{S}:Scheduler._evaluate_apply.callback", params={"result": OBJ, "expr": REF, "expr2": REF}, returns=OBJ,
    ensures=["result == old(result)" if False else "True", "implies(is_TaskExpression_ref(expr2), expr.call_hash == expr2.call_hash)",
             "implies(not is_TaskExpression_ref(expr2) and is_SimpleExpression_ref(expr2), expr._upstreams == expr2._upstreams)"],
    raises={"AssertionError": "not is_TaskExpression_ref(expr2) and not is_SimpleExpression_ref(expr2)"}),
}
SCHED_MODULE = Module(fields={"expr": Opt(REF), "call_hash": Opt(STR), "_upstreams": Seq(OBJ)}, hooks={"isinstance": isinst_sched},
                      ufuns={"recording": ([REF], BOOL), "is_TaskExpression_ref": ([REF], BOOL), "is_SimpleExpression_ref": ([REF], BOOL)}, contracts=sched_contracts)


def bookkeeping_sites(tier, seed):
    """every store to ._upstreams / to an expression's .call_hash in redun (outside tests) happens inside a function that is under contract above"""
    import os
    root = extract.REPO
    allowed = {"redun/expression.py": {"derive_expression", "Expression.__init__", "Expression.__setstate__", "ApplyExpression.__init__", "TaskExpression.__init__", "TaskExpression.__setstate__",
                                       "SimpleExpression.__setstate__"},
               "redun/scheduler.py": {"Job.resolve", "Job.reject", "Scheduler._evaluate_apply.callback"}}
    seen, outside = {}, []

    def visit(node, qual, rel):
        for ch in ast.iter_child_nodes(node):
            if isinstance(ch, (ast.FunctionDef, ast.AsyncFunctionDef, ast.ClassDef)):
                visit(ch, qual + [ch.name], rel)
                continue
            tg = ch.targets if isinstance(ch, ast.Assign) else ([ch.target] if isinstance(ch, (ast.AnnAssign, ast.AugAssign)) else [])
            for t in tg:
                hit = isinstance(t, ast.Attribute) and (t.attr == "_upstreams" or (t.attr == "call_hash" and (rel == "redun/expression.py" or ast.unparse(t.value).endswith("expr"))))
                if hit:
                    q = ".".join(qual)
                    seen[f"{rel}:{q}"] = seen.get(f"{rel}:{q}", 0) + 1
                    if q not in allowed.get(rel, set()):
                        outside.append(f"{rel}:{q} line {t.lineno}: {ast.unparse(t)}")
            visit(ch, qual, rel)
    for dp, _, fs in os.walk(os.path.join(root, "redun")):
        if "tests" in dp.split(os.sep):
            continue
        for f in fs:
            if f.endswith(".py"):
                rel = os.path.relpath(os.path.join(dp, f), root)
                try:
                    visit(ast.parse(open(os.path.join(dp, f)).read()), [], rel)
                except SyntaxError:
                    pass
    ok = not outside and len(seen) >= 8
    return [Result("bookkeeping-stores/all-under-contract", "finite", "proved" if ok else "refuted", "(repository scan)", 0, solver="python", detail={"sites": seen, "outside_contracts": outside, "stage": 0})]


def bounded_programs(tier, seed):
    from pvc import bounded
    return [bounded.run(PROPERTY, "generated-dataflow-programs", env=({} if tier == "quick" else {"C21_DEEP": "1"}), timeout=6000, rule="generated workflows passing task results into other tasks directly, through getitem / getattr / operators, nested containers, cond / catch / seq and default "
                        "parameters, each run twice (the second run after changing an upstream task, so that expressions come back from the cache): the Argument rows are the values the task received "
                        "(defaults as keyword arguments) and the ArgumentResult rows link each argument to exactly the upstream call nodes of the reference dataflow")]


EXTRA_CHECKS = [bookkeeping_sites, bounded_programs]

MODULES = [(UPS_MODULE, ["RedunBackendDb._find_arg_upstreams"]), (REC_MODULE, ["RedunBackendDb._record_args"]),
           (EXPR_MODULE, ["Expression.__init__", "Expression.__setstate__", "ApplyExpression.__init__", "TaskExpression.__init__", "SimpleExpression.__init__",
                          "TaskExpression.__setstate__", "SimpleExpression.__setstate__", "derive_expression"]),
           (SCHED_MODULE, ["Job.resolve", "Job.reject", "Scheduler._evaluate_apply.callback"])]
EXPECTED_MIN_OBLIGATIONS = 80
TRUSTED = ["iter_nested_value as the leaves function (its own contracts: C19)", "record_value returns the value hash of its argument (C31)", "hash_struct / str as uninterpreted functions",
           "A-ORM: session.add(Model(col=...)) adds the row with those columns; rows as tuples of their columns", "registry.deserialize as an uninterpreted function", "Promise callbacks run (Job.collapse, _evaluate_apply)"]
ASSUMPTIONS = [
    "termination of _find_arg_upstreams (expressions are finite and acyclic) is not proved: the contract is a partial-correctness statement, the recursion goes through the function's own contract",
    "that UPS (call hashes stamped on evaluated TaskExpressions, reached through _upstreams) is the dataflow 'produced by another task call' rests on the scheduler stamping expressions when jobs finish "
    "(Job.resolve / Job.reject / the shared-evaluation callback: under contract) and on every constructor / __setstate__ keeping _upstreams == [args, kwargs] (under contract); the composition over a whole execution is compared by the bounded check",
    "sorted(set(eval_kwargs) & set(expr_kwargs)) and dict iteration are modelled as duplicate-free sequences of exactly those keys; the order among keyword arguments is not part of the postcondition",
    "ArgumentResult rows are unique per (arg_hash, result_call_hash) in the tuple model; duplicates that the database would reject are outside the model",
]
