"""C20 Recorded call graphs are a consistent Merkle record -- contracts on hash_call_node, record_call_node (rows and child edges),
record_job_start / record_job_end (job rows, parent links, root job), the recording arguments chosen by
Scheduler._resolve_job_main_thread / _reject_job_main_thread, and the entities tags are attached to (_record_job_tags)."""
import ast
from pvc.smt import *
from pvc.core import Module, RaiseEx
from pvc.orm import ORM

PROPERTY = "C20"
DB = "redun/backends/db/__init__.py"
S = "redun/scheduler.py"
HS = "HS"
PRELUDE_HS = "(declare-datatypes ((HS 0)) (((HStr (hstr String)) (HList (hitems (Seq HS))))))"
orm = ORM(["CallNode", "CallEdge", "CallSubtreeTask"], col_sorts={("CallEdge", "call_order"): INT})


def coerce(e, t, sort):
    if sort == HS and isinstance(t, T) and t.sort == Seq(HS):
        return T(HS, f"(HList {t.s})")
    if sort == HS and isinstance(t, T) and t.sort == STR:
        return T(HS, f"(HStr {t.s})")
    return None


def list_literal(e, items):
    """["CallNode", task_hash, args_hash, result_hash, sorted(children)]: strings are atoms, the sorted child list is a nested list"""
    if items and all(isinstance(i, T) and (i.sort == STR or i.sort == Seq(HS)) for i in items):
        return e.seq_of([coerce(e, i, HS) for i in items], HS)
    return None


def lib_sorted(e, n, st, old):
    v = e.ev(n.args[0], st, old)
    if isinstance(v, T) and v.sort == Seq(STR):
        return e.ctx.app("sorted_hs", [Seq(STR)], Seq(HS), [v])
    return NotImplemented


AX_HS = [
 "(forall ((a HS) (b HS)) (! (=> (= (|hs| a) (|hs| b)) (= a b)) :pattern ((|hs| a) (|hs| b))))",                     # A-HASH + C14
]
hash_contracts = {
 "hash_struct": dict(where="redun/hashing.py:hash_struct", params={"struct": HS}, returns=STR, pure="hs"),
 "hash_call_node": dict(where="redun/hashing.py:hash_call_node", params={"task_hash": STR, "args_hash": STR, "result_hash": STR, "child_call_hashes": Seq(STR)}, returns=STR,
    lib={"sorted(": lib_sorted},
    ensures=["smt('(= {r} (|hs| (HList (seq.++ (seq.unit (HStr \"CallNode\")) (seq.unit (HStr {t})) (seq.unit (HStr {a})) (seq.unit (HStr {v})) (seq.unit (HList (|sorted_hs| {c})))))))', "
             "r=result, t=task_hash, a=args_hash, v=result_hash, c=child_call_hashes)"],
    relational={"same task hash": lambda a, b: f"(= {a('task_hash')} {b('task_hash')})",
                "same argument hash": lambda a, b: f"(= {a('args_hash')} {b('args_hash')})",
                "same result hash": lambda a, b: f"(= {a('result_hash')} {b('result_hash')})",
                "same sorted child call hashes": lambda a, b: f"(= (|sorted_hs| {a('child_call_hashes')}) (|sorted_hs| {b('child_call_hashes')}))"},
    relational_converse={"the order of the children does not matter (equal sorted child lists give equal hashes)": lambda a, b: (
        f"(and (= {a('task_hash')} {b('task_hash')}) (= {a('args_hash')} {b('args_hash')}) (= {a('result_hash')} {b('result_hash')}) "
        f"(= (|sorted_hs| {a('child_call_hashes')}) (|sorted_hs| {b('child_call_hashes')})))")}),
}
HASH_MODULE = Module(prelude=PRELUDE_HS, axioms=AX_HS, ufuns={"hs": ([HS], STR), "sorted_hs": ([Seq(STR)], Seq(HS))},
                     hooks={"coerce": coerce, "list_literal": list_literal}, sortnames={"HS": HS}, contracts=hash_contracts)


# ------------------------------------------------------------------------------------------------ record_call_node: the rows
def session_add(eng, n, st, old):
    arg = n.args[0]
    if not (isinstance(arg, ast.Call) and isinstance(arg.func, ast.Name) and arg.func.id in orm.tables):
        return NotImplemented
    t = arg.func.id
    r = eng.opaque("new_" + t, orm.row_sort(t))
    for kw in arg.keywords:
        v = eng.ev(kw.value, st, old)
        st.pc.append(eng.eq(orm.col(eng, t, kw.arg, r), v).s)
    g = st.ghost["tbl_" + t]
    st.pc.append(f"(not (select {g.s} {r.s}))")     # a new row object
    st.ghost["tbl_" + t] = T(g.sort, f"(store {g.s} {r.s} true)")
    eng.note("A-ORM", f"session.add({t}(...))", n.lineno)
    return T(NONE, "none")


def recorded_hashes(eng, n, st, old):
    """{h for (h,) in filter_in(session.query(CallNode.call_hash), CallNode.call_hash, xs)}: the hashes among xs that have a call node row"""
    xs = eng.ev(n.args[2], st, old)
    Sx = eng.opaque("recorded", Set(STR))
    st.pc.append(f"(forall ((h String)) (= (select {Sx.s} h) (exists ((c Row_CallNode)) (and (select {st.ghost['tbl_CallNode'].s} c) (= (|col_CallNode_call_hash| c) h)))))")
    return ("strset", Sx)


def strset_hooks(eng, op, a, b, st, n):
    if isinstance(a, tuple) and a and a[0] == "strset" and not isinstance(b, T):
        return eng.opaque("proper_subset", BOOL)
    if isinstance(b, tuple) and b and b[0] == "strset" and isinstance(op, (ast.In, ast.NotIn)) and isinstance(a, T):
        r = T(BOOL, f"(select {b[1].s} {a.s})")
        return r if isinstance(op, ast.In) else T(BOOL, f"(not {r.s})")
    return None


def lib_setcomp(eng, n, st, old):
    return NotImplemented


EDGE_OK = ("forall(e, Row_CallEdge, implies(tbl_CallEdge[e] and not old(tbl_CallEdge)[e], e.parent_id == call_hash and 0 <= e.call_order and e.call_order < {n} "
           "and e.child_id == child_call_hashes[e.call_order] and is_recorded(e.child_id)))")
EDGE_ALL = ("forall(j, Int, implies(0 <= j and j < {n} and is_recorded(child_call_hashes[j]), exists(e, Row_CallEdge, tbl_CallEdge[e] and e.parent_id == call_hash "
            "and e.child_id == child_call_hashes[j] and e.call_order == j)))")
db_contracts = {
 "hash_call_node": dict(where="redun/hashing.py:hash_call_node", params={"task_hash": STR, "args_hash": STR, "result_hash": STR, "child_call_hashes": Seq(STR)}, returns=STR, pure="hcn"),
 "RedunBackendDb.record_call_node": dict(where=f"{DB}:RedunBackendDb.record_call_node",
    params={"self": REF, "task_name": STR, "task_hash": STR, "args_hash": STR, "expr_args": OBJ, "eval_args": OBJ, "result_hash": STR,
            "child_call_hashes": Seq(STR), "subtree_tasks": Set(REF)}, returns=STR, ghost=orm.ghost(),
    ghost_local={"rec": Set(STR)},
    lib={"session.add(": session_add, "session.commit()": lambda e, n, st, old: T(NONE, "none"), "self.with_session()": lambda e, n, st, old: e.opaque("session"),
         "self._record_args(": lambda e, n, st, old: T(NONE, "none"), "self.record_value(": lambda e, n, st, old: e.opaque("value_hash", STR),
         "filter_in(": orm.filter_in},
    # the existing rows already satisfy the Merkle equation with their recorded children (the invariant this function must preserve)
    ensures=["result == hcn(task_hash, args_hash, result_hash, child_call_hashes)",
             "exists(c, Row_CallNode, tbl_CallNode[c] and c.call_hash == result)",
             # a row added by this call carries exactly the hashed components
             "forall(c, Row_CallNode, implies(tbl_CallNode[c] and not old(tbl_CallNode)[c], c.call_hash == result and c.task_hash == task_hash and c.args_hash == args_hash "
             " and c.value_hash == result_hash and c.task_name == task_name))",
             "forall(c, Row_CallNode, implies(old(tbl_CallNode)[c], tbl_CallNode[c]))",
             # child edges: one per recorded child, ordered by the position in the child list; nothing else
             "implies(not exists(c, Row_CallNode, old(tbl_CallNode)[c] and c.call_hash == result), "
             "forall(j, Int, implies(0 <= j and j < len(child_call_hashes) and exists(c, Row_CallNode, old(tbl_CallNode)[c] and c.call_hash == child_call_hashes[j]), "
             " exists(e, Row_CallEdge, tbl_CallEdge[e] and e.parent_id == result and e.child_id == child_call_hashes[j] and e.call_order == j))))",
             "forall(e, Row_CallEdge, implies(tbl_CallEdge[e] and not old(tbl_CallEdge)[e], e.parent_id == result and 0 <= e.call_order and e.call_order < len(child_call_hashes) "
             " and e.child_id == child_call_hashes[e.call_order] and exists(c, Row_CallNode, old(tbl_CallNode)[c] and c.call_hash == e.child_id)))",
             "implies(exists(c, Row_CallNode, old(tbl_CallNode)[c] and c.call_hash == result), tbl_CallNode == old(tbl_CallNode) and tbl_CallEdge == old(tbl_CallEdge))"],
    loops={"subtree_tasks|record_value": dict(inv=[], modifies=[]),
           "child_call_hashes|CallEdge": dict(inv=[
               "forall(e, Row_CallEdge, implies(old(tbl_CallEdge)[e], tbl_CallEdge[e]))",
               "forall(e, Row_CallEdge, implies(tbl_CallEdge[e] and not old(tbl_CallEdge)[e], e.parent_id == call_hash and 0 <= e.call_order and e.call_order < index() "
               " and e.child_id == child_call_hashes[e.call_order] and (e.child_id in recorded_child_hashes)))",
               "forall(j, Int, implies(0 <= j and j < index() and (child_call_hashes[j] in recorded_child_hashes), exists(e, Row_CallEdge, tbl_CallEdge[e] and e.parent_id == call_hash "
               " and e.child_id == child_call_hashes[j] and e.call_order == j)))"], modifies=["tbl_CallEdge"]),
           "subtree_tasks|CallSubtreeTask": dict(inv=[], modifies=["tbl_CallSubtreeTask"])}),
}


def setcomp_hook(eng, n, st, old):
    return NotImplemented


def iter_hook(e, v, st):
    if isinstance(v, tuple) and v and v[0] == "strset":
        return v[1]
    return orm.iter_hook(e, v, st)


DB_MODULE = Module(
    prelude=orm.prelude(), stable={"hash": STR}, declare_stable=True,
    ufuns={"hcn": ([STR, STR, STR, Seq(STR)], STR), "col_CallNode_call_hash": (["Row_CallNode"], STR)},
    hooks={"call": orm.call_hook, "attr": orm.attr_hook, "iter": iter_hook, "cmp": strset_hooks},
    sortnames={"Row_CallNode": "Row_CallNode", "Row_CallEdge": "Row_CallEdge", "Row_CallSubtreeTask": "Row_CallSubtreeTask"},
    classes={"self": "RedunBackendDb"}, contracts=db_contracts)


# ------------------------------------------------------------------------------------------------ job rows
def lib_job_row(e, n, st, old):
    """Job(id=..., start_time=..., task_hash=..., parent_id=..., execution_id=...): a new row object with those columns"""
    r = e.ctx.fresh(REF, "db_job")
    for kw in n.keywords:
        v = e.ev(kw.value, st, old)
        col = e.ctx.app("sattr_row_" + kw.arg, [REF], Opt(STR) if kw.arg == "parent_id" else (STR if kw.arg in ("id", "task_hash", "execution_id") else OBJ), [r])
        st.pc.append(e.eq(col, v).s)
    st.pc.append(f"(not (select {e.field(st, 'added').s} {r.s}))")
    return r


def lib_query_job(e, n, st, old):
    """self.session.query(Job).filter_by(id=X).first(): the row with that id, if there is one"""
    x = None
    for call in ast.walk(n):
        if isinstance(call, ast.Call) and isinstance(call.func, ast.Attribute) and call.func.attr == "filter_by":
            for kw in call.keywords:
                if kw.arg == "id":
                    x = e.ev(kw.value, st, old)
    if x is None:
        return NotImplemented
    r = e.ctx.fresh(Opt(REF), "found_job")
    st.pc.append(f"(=> {is_some(r).s} (= (|sattr_row_id| {unopt(r).s}) {x.s}))")
    st.pc.append(f"(= {is_some(r).s} (|job_row_exists| {x.s} {st.ver}))")
    return r


def lib_session_add_row(e, n, st, old):
    o = e.ev(n.args[0], st, old)
    if isinstance(o, T) and o.sort == Opt(REF):
        o = unopt(o)
    if not (isinstance(o, T) and o.sort == REF):
        return NotImplemented
    h = e.field(st, "added")
    st.heap["added"] = T(h.sort, f"(store {h.s} {o.s} true)")
    return T(NONE, "none")


def row_attr(e, o, attr, st, old):
    """columns fixed at construction of a Job row are read through sattr_row_<col>"""
    return NotImplemented


JOBROW = {"id", "task_hash", "parent_id", "execution_id"}
job_contracts = {
 "RedunBackendDb.record_value": dict(where=f"{DB}:RedunBackendDb.record_value", params={"self": REF, "value": OBJ}, returns=STR),
 "RedunBackendDb.record_job_start": dict(where=f"{DB}:RedunBackendDb.record_job_start", params={"self": REF, "job": REF, "now": OBJ}, returns=REF,
    lib={"Job(": lib_job_row, "self.session.add(": lib_session_add_row, "self.session.commit()": lambda e, n, st, old: T(NONE, "none"),
         "self._executions.pop(": lambda e, n, st, old: e.ctx.app("pending_execution", [REF, STR], REF, [st.env["self"], e.ev(n.args[0], st, old)]),
         "self._executions.get(": lambda e, n, st, old: e.ctx.app("pending_execution", [REF, STR], REF, [st.env["self"], e.ev(n.args[0], st, old)]),
         "with_defer_constraints(": lambda e, n, st, old: e.opaque("ctx"), "utcnow()": lambda e, n, st, old: e.opaque("now")},
    requires=["forall(r, Ref, not r.added)", "pending_execution(self, job.execution.id).job_id == None"],
    ensures=["result.added", "row_id(result) == job.id", "row_task_hash(result) == job.task.hash", "row_execution_id(result) == job.execution.id",
             # parent link mirrors the job tree; a root job has none and becomes the execution's job
             "row_parent_id(result) == (Some(val(job.parent_job).id) if job.parent_job != None else None)",
             "implies(job.parent_job == None, pending_execution(self, job.execution.id).added and pending_execution(self, job.execution.id).job_id == Some(job.id))",
             "implies(job.parent_job != None, forall(r, Ref, implies(r.added, r == result)))"],
    modifies=["added", "job_id"]),
 "RedunBackendDb.record_job_end": dict(where=f"{DB}:RedunBackendDb.record_job_end", params={"self": REF, "job": REF, "now": OBJ, "status": OBJ}, ghost_local={},
    lib={"self.session.query(Job)": lib_query_job, "self.session.add(": lib_session_add_row, "self.session.commit()": lambda e, n, st, old: T(NONE, "none"),
         "utcnow()": lambda e, n, st, old: e.opaque("now")},
    requires=["forall(r, Ref, not r.added)", "pending_execution(self, job.execution.id).job_id == None"],
    # the row of this job (existing or created now) ends up with the job's call hash and cached flag
    ensures=["exists(r, Ref, r.added and row_id(r) == job.id and r.call_hash == job.call_hash and r.cached == job.was_cached and r.end_time != None)"],
    modifies=["added", "job_id", "call_hash", "cached", "end_time"]),
}
JOB_MODULE = Module(
    fields={"added": BOOL, "job_id": Opt(STR), "call_hash": Opt(STR), "cached": BOOL, "end_time": Opt(OBJ), "was_cached": BOOL},
    stable={"id": STR, "hash": STR, "task": REF, "execution": REF, "parent_job": Opt(REF)}, declare_stable=True,
    ufuns={"pending_execution": ([REF, STR], REF), "job_row_exists": ([STR, INT], BOOL), "sattr_row_id": ([REF], STR), "sattr_row_task_hash": ([REF], STR),
           "sattr_row_parent_id": ([REF], Opt(STR)), "sattr_row_execution_id": ([REF], STR)},
    defs={"row_id": ([REF], STR), "row_task_hash": ([REF], STR), "row_parent_id": ([REF], Opt(STR)), "row_execution_id": ([REF], STR)},
    defs_text="(define-fun row_id ((r Ref)) String (|sattr_row_id| r))\n(define-fun row_task_hash ((r Ref)) String (|sattr_row_task_hash| r))\n"
              "(define-fun row_parent_id ((r Ref)) Opt_String (|sattr_row_parent_id| r))\n(define-fun row_execution_id ((r Ref)) String (|sattr_row_execution_id| r))",
    hooks={"subscript": lambda e, n, a, k, st: (e.ctx.app("pending_execution", [REF, STR], REF, [st.env["self"], k]) if ast.unparse(n.value) == "self._executions" else None)},
    classes={"self": "RedunBackendDb"}, contracts=job_contracts)


# ------------------------------------------------------------------------------------------------ scheduler side: what is recorded for a job
KIDS_A = ("forall(i, Int, implies(0 <= i and i < len({k}), exists(j, Int, 0 <= j and j < len(job.child_jobs) and job.child_jobs[j].call_hash == Some({k}[i]) and len({k}[i]) > 0)))")
KIDS_B = ("forall(j, Int, implies(0 <= j and j < len(job.child_jobs) and job.child_jobs[j].call_hash != None and len(val(job.child_jobs[j].call_hash)) > 0, "
          "exists(i, Int, 0 <= i and i < len({k}) and {k}[i] == val(job.child_jobs[j].call_hash))))")
KIDS = "(" + KIDS_A + ") and (" + KIDS_B + ")"
G2 = {"rvh": Opt(STR), "rch": Opt(STR), "tagged": BOOL}
REC_BEFORE = ["arg1 == job.task.hash", "arg2 == val(job.args_hash)", "Some(arg5) == rvh", KIDS_A.format(k="arg6"), KIDS_B.format(k="arg6"), "arg0 == job.task.fullname"]
sched_contracts = {
 "Backend.record_value": dict(where=f"{DB}:RedunBackendDb.record_value", params={"self": REF, "value": OBJ}, returns=STR, ensures=["result == vhash(value)"],
    raises={"TypeError": "", "AttributeError": ""}),
 "Backend.record_call_node": dict(where=f"{DB}:RedunBackendDb.record_call_node",
    params={"self": REF, "task_name": STR, "task_hash": STR, "args_hash": STR, "expr_args": OBJ, "eval_args": OBJ, "result_hash": STR, "child_call_hashes": Seq(STR), "subtree_tasks": OBJ},
    returns=STR, ensures=["result == hcn(task_hash, args_hash, result_hash, child_call_hashes)"]),
 "hash_call_node": dict(where="redun/hashing.py:hash_call_node", params={"task_hash": STR, "args_hash": STR, "result_hash": STR, "child_call_hashes": Seq(STR)}, returns=STR, pure="hcn"),
 "Job.calc_subtree_tasks": dict(where=f"{S}:Job.calc_subtree_tasks", params={"self": REF}, returns=OBJ),
 "Scheduler._record_job_tags": dict(where=f"{S}:Scheduler._record_job_tags", params={"self": REF, "job": REF}),
 "Scheduler._resolve_job_main_thread": dict(where=f"{S}:Scheduler._resolve_job_main_thread", params={"self": REF, "job": REF, "result": OBJ}, ghost=G2,
    requires=["rvh == None and rch == None and not tagged", "job.args_hash != None"],
    lib={"self.type_registry.get_hash(": lambda e, n, st, old: e.ctx.app("vhash", [OBJ], STR, [e.to_obj(e.ev(n.args[0], st, old))]),
         "job.recording_provenance()": lambda e, n, st, old: e.ctx.app("recording", [REF], BOOL, [st.env["job"]])},
    before_call={("Backend.record_value", 0): ["arg0 == result"], ("Backend.record_call_node", 0): REC_BEFORE},
    after_call={("Backend.record_value", 0): "rvh = Some(callresult)", ("Backend.record_call_node", 0): "rch = Some(callresult)", ("Scheduler._record_job_tags", "*"): "tagged = True"},
    # every job that ends with provenance -- freshly run or served from the cache -- has its tags recorded before its end is recorded
    at_call={"record_job_end": ["arg0 == job", "job.call_hash != None", "tagged"], "resolve": ["arg0 == result", "recv == job"]},
    must_call=["record_job_end", "record_call_node", "resolve"],
    ensures=[  # a job that was not a cache hit gets a call hash; with provenance it is the one record_call_node returned for the job's own task hash,
               # argument hash, recorded result hash and the call hashes of its children (the site conditions above)
        "implies(not old(job.call_hash), job.call_hash != None)",
        "implies(not old(job.call_hash) and recording(job), job.call_hash == rch)",
        "implies(old(job.call_hash), job.call_hash == old(job.call_hash))"]),
 "Scheduler._reject_job_main_thread": dict(where=f"{S}:Scheduler._reject_job_main_thread",
    params={"self": REF, "job": Opt(REF), "error": OBJ, "error_traceback": OBJ, "job_tags": OBJ}, ghost=G2,
    requires=["rvh == None and rch == None and not tagged", "implies(job != None, val(job).args_hash != None)"],
    lib={"job.recording_provenance()": lambda e, n, st, old: e.ctx.app("recording", [REF], BOOL, [unopt(st.env["job"])]),
         "ErrorValue(": lambda e, n, st, old: e.opaque("error_value")},
    before_call={("Backend.record_call_node", 0): [c.replace("job.", "val(job).") for c in REC_BEFORE]},
    after_call={("Backend.record_value", 0): "rvh = Some(callresult)", ("Backend.record_value", 1): "rvh = Some(callresult)", ("Backend.record_call_node", 0): "rch = Some(callresult)",
                ("Scheduler._record_job_tags", "*"): "tagged = True"},
    at_call={"record_job_end": ["arg0 == val(job)", "kw_status == 'FAILED'", "val(job).call_hash != None", "tagged"], "reject": ["arg0 == error"]},
    must_call=["record_job_end", "record_call_node", "reject"], opaque_raises=False,
    ensures=["implies(job != None and recording(val(job)), val(job).call_hash == rch and rch != None)"]),
}
SCHED_MODULE = Module(
    fields={"call_hash": Opt(STR), "child_jobs": Seq(REF), "was_cached": BOOL, "holds_limits": BOOL},
    stable={"task": REF, "hash": STR, "fullname": STR, "args_hash": Opt(STR), "id": STR}, declare_stable=True,
    ufuns={"hcn": ([STR, STR, STR, Seq(STR)], STR), "vhash": ([OBJ], STR), "recording": ([REF], BOOL)},
    enums={"CacheCheckValid": ["FULL", "SHALLOW"]},
    classes={"self": "Scheduler", "job": "Job", "self.backend": "Backend"}, contracts=sched_contracts)

# ------------------------------------------------------------------------------------------------ tags go to the intended entity
tag_contracts = {
 "Scheduler._record_job_tags": dict(where=f"{S}:Scheduler._record_job_tags", params={"self": REF, "job": REF},
    at_call={"record_tags#0": ["kw_entity_type == TagEntity.Value", "kw_entity_id == value_hash", "kw_tags == tags"],
             "record_tags#1": ["kw_entity_type == TagEntity.Job", "kw_entity_id == job.id", "kw_tags == job_tags"],
             "record_tags#2": ["kw_entity_type == TagEntity.Execution", "kw_entity_id == job.execution.id", "kw_tags == job.execution_tags"],
             "record_tags#3": ["kw_entity_type == TagEntity.Task", "kw_entity_id == job.task.hash", "kw_tags == task_tags"]}),
 "apply_tags.then": dict(where=f"{S}:apply_tags.then", params={"args": OBJ, "scheduler": REF, "parent_job": REF},
    at_call={"record_value": ["arg0 == value"], "append": ["arg0 == (value_hash, tags)"]}, must_call=["record_value", "append", "extend"]),
}
TAG_MODULE = Module(stable={"id": STR, "hash": STR, "task": REF, "execution": REF, "execution_tags": OBJ}, declare_stable=True,
                    enums={"TagEntity": ["Value", "Job", "Execution", "Task", "CallNode", "Null"]}, contracts=tag_contracts)

MODULES = [(HASH_MODULE, ["hash_call_node"]), (DB_MODULE, ["RedunBackendDb.record_call_node"]),
           (JOB_MODULE, ["RedunBackendDb.record_job_start", "RedunBackendDb.record_job_end"]),
           (SCHED_MODULE, ["Scheduler._resolve_job_main_thread", "Scheduler._reject_job_main_thread"]),
           (TAG_MODULE, ["Scheduler._record_job_tags", "apply_tags.then"])]


def bounded_graphs(tier, seed):
    from pvc import bounded
    return [bounded.run(PROPERTY, "recorded-call-graphs", rule="generated workflows (nesting, fan-out, failing children under catch, no-provenance subtrees, cached re-runs, tags on values / jobs / executions / tasks) "
                        "on an in-memory backend: every call node's hash re-computed from its row, argument hash, result hash and child edges; edges and parent links against the observed job tree; "
                        "every value row deserialises to a value whose hash is its key; tags attached to the intended entity")]


EXTRA_CHECKS = [bounded_graphs]
EXPECTED_MIN_OBLIGATIONS = 60
TRUSTED = ["A-HASH + C14 (hash_struct injective)", "A-SORT (sorted as a function of the list)", "A-ORM (session.add / query / filter_in on ghost tables)",
           "record_value returns the value hash (C31)", "Job.resolve / Job.reject / promise plumbing (C13), recording_provenance() as an uninterpreted predicate of the job"]
ASSUMPTIONS = [
    "'mirrors the actual call tree for every program and schedule' is a whole-execution statement: the contracts fix what each handler records for its own job "
    "(task hash, args hash, hash of the recorded result, call hashes of child_jobs that have one) and what the backend writes for those arguments; the bounded check compares whole graphs",
    "child_jobs is the job tree built by Job.__init__ / add_child (not under contract here)",
    "record_call_node is specified for a call hash that is new or already recorded; concurrent writers are outside (A-ORM)",
    "tag recording itself (record_tags) is C24; here only the entity each tag list is sent to",
]
