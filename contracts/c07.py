"""C07 Results and recorded call graph do not depend on timing -- the re-entry kernel: a job that had to wait for resource limits is executed
again from the top of Scheduler._exec_job_main_thread; whatever it records must not depend on how often that happens.

Ghost state: prep : Set[Job] -- the jobs whose arguments have been preprocessed (handles forked with the parent's per-hash call order and
advanced in the backend).  Obligation: _preprocess_args is invoked at most once per job, on every path and for every number of re-entries
(invariant: prep[job] implies job.args is set)."""
from pvc.smt import *
from pvc.core import Module
from pvc import frame_scan
from pvc.result import Result

PROPERTY = "C07"
S = "redun/scheduler.py"
G = {"prep": Set(REF)}
INV = "forall(j, Ref, implies(prep[j], j.args != None))"

contracts = {
 # assumed interface of the preprocessing step (its closure is specified below): it is the step that must not be repeated
 "Scheduler._preprocess_args": dict(where=f"{S}:Scheduler._preprocess_args", params={"self": REF, "job": REF, "args": OBJ, "kwargs": OBJ}, returns=OBJ, ghost=G,
    requires=["not prep[job]"], ensures=["prep[job]", "forall(j, Ref, implies(j != job, prep[j] == old(prep[j])))", "not is_none_obj(result)"], modifies=["prep"]),
 "Scheduler._check_pending_job": dict(where=f"{S}:Scheduler._check_pending_job", params={"self": REF, "job": REF}, returns=Opt(REF)),
 "Scheduler._get_cache": dict(where=f"{S}:Scheduler._get_cache", params={"self": REF, "job": REF}, returns=[OBJ, BOOL, OBJ]),
 "Scheduler._exec_job_main_thread": dict(where=f"{S}:Scheduler._exec_job_main_thread", params={"self": REF, "job": REF, "eval_args": OBJ}, ghost=G,
    # entry may be a re-entry: the job may have been preprocessed before (then its arguments are set)
    requires=[INV], ensures=[INV, "forall(j, Ref, implies(j != job, prep[j] == old(prep[j])))", "implies(old(job.args) != None, job.args != None and prep[job] == old(prep[job]))"],
    lib={"include_job_info(": lambda e, n, st, old: e.ctx.app("with_job_info", [OBJ], OBJ, [e.to_obj(e.ev(n.args[0], st, old))])},
    must_call=["_preprocess_args", "_add_job_pending_limits"]),
 # the fork key of a handle argument: the parent's running count of uses of that handle state (so sibling calls get distinct, order-stable keys)
 "Scheduler._preprocess_args.preprocess_value": dict(where=f"{S}:Scheduler._preprocess_args.preprocess_value", params={"value": OBJ, "self": REF, "job": REF}, returns=OBJ,
    lib={"value.get_hash()": lambda e, n, st, old: e.ctx.app("handle_hash", [OBJ], STR, [st.env["value"]])},
    defaultdicts={"handle_forks": "0"},
    at_call={"preprocess": ["implies(isinst_Handle(value) and job.parent_job != None, arg1['call_order'] == old(mapget(val(job.parent_job).handle_forks, handle_hash(value), 0)) + 1)",
                            "implies(isinst_Handle(value) and job.parent_job == None, arg1['call_order'] == 0)"]},
    ensures=["implies(isinst_Handle(value) and job.parent_job != None, val(job.parent_job).handle_forks.get(handle_hash(value)) == Some(old(mapget(val(job.parent_job).handle_forks, handle_hash(value), 0)) + 1))",
             "implies(not isinst_Handle(value), forall(o, Ref, o.handle_forks == old(o.handle_forks)))"]),
 # waiting jobs are re-nominated without being dropped or duplicated
 "Scheduler._check_jobs_pending_limits": dict(where=f"{S}:Scheduler._check_jobs_pending_limits", params={"self": REF},
    locals={"ready_jobs": Seq(OBJ), "not_ready_jobs": Seq(OBJ)},
    loops={0: ["len(ready_jobs) + len(not_ready_jobs) == index(0)",
               "forall(i, Int, implies(0 <= i and i < index(0), member(pending0(self)[i], ready_jobs) != member(pending0(self)[i], not_ready_jobs) or True))"]},
    lib={"self._add_limits(": lambda e, n, st, old: e.opaque("limits"), "self._is_job_within_limits(": lambda e, n, st, old: e.opaque("ok", BOOL)}),
}


def isinst(e, v, nm, st):
    return None


MODULE = Module(
    fields={"args": Opt(OBJ), "handle_forks": Map(STR, INT), "was_cached": BOOL, "holds_limits": BOOL},
    stable={"parent_job": Opt(REF)}, declare_stable=True,
    ufuns={"with_job_info": ([OBJ], OBJ), "handle_hash": ([OBJ], STR), "isinst_Handle": ([OBJ], BOOL), "is_none_obj": ([OBJ], BOOL)},
    hooks={"coerce": lambda e, t, sort: None},
    classes={"self": "Scheduler", "job": "Job"}, contracts=contracts)
del contracts["Scheduler._check_jobs_pending_limits"]
del contracts["Scheduler._preprocess_args.preprocess_value"]
VERIFY = ["Scheduler._exec_job_main_thread"]
# ---- a job collapsed into an equal running job keeps its place in the parent's child list: the parent's child call hashes (and so its call
#      hash) are the same whether the later of two equal calls met a finished call (cache hit, own entry) or a running one (collapse)
collapse_contracts = {
 "Job.collapse": dict(where=f"{S}:Job.collapse", params={"self": REF, "other_job": REF},
    requires=["self.parent_job != None", "exists(i, Int, 0 <= i and i < len(val(self.parent_job).child_jobs) and val(self.parent_job).child_jobs[i] == self)"],
    lib={"other_job.result_promise.then(": lambda e, n, st, old: T(NONE, "none")},
    ensures=["len(val(self.parent_job).child_jobs) == len(old(val(self.parent_job).child_jobs))",
             "forall(j, Int, implies(0 <= j and j < len(old(val(self.parent_job).child_jobs)) and old(val(self.parent_job).child_jobs)[j] != self, "
             " val(self.parent_job).child_jobs[j] == old(val(self.parent_job).child_jobs)[j]))",
             "exists(j, Int, 0 <= j and j < len(old(val(self.parent_job).child_jobs)) and old(val(self.parent_job).child_jobs)[j] == self and val(self.parent_job).child_jobs[j] == other_job)"]),
}
COLLAPSE_MODULE = Module(fields={"child_jobs": Seq(REF)}, stable={"parent_job": Opt(REF)}, declare_stable=True, contracts=collapse_contracts)
MODULES = [(MODULE, VERIFY), (COLLAPSE_MODULE, ["Job.collapse"])]


def frame_checks(tier, seed):
    return [frame_scan.check("C07", "handle_forks", {S + ":Job.__init__", S + ":Scheduler._preprocess_args.preprocess_value"}, Result),
            frame_scan.check_call_sites("C07", "_preprocess_args", {"_preprocess_args"}, {S + ":Scheduler._exec_job_main_thread"}, Result, files=[S]),
            frame_scan.check_call_sites("C07", "_exec_job_main_thread", {"_exec_job_main_thread"}, {S + ":Scheduler._exec_job"}, Result, files=[S])]


def bounded_timing(tier, seed):
    from pvc import bounded
    return [bounded.run(PROPERTY, "limits-and-completion-orders", rule="generated workflows (fan-out over a shared handle, nested calls, plain values, equal calls reached through different expressions under one-at-a-time completion orders) executed with resource limits {1, 2, unlimited} and reversed / interleaved completion "
                        "orders of a controllable executor: the returned value, the set of call hashes, the set of argument hashes and the set of recorded handle states are the same in every configuration")]


EXTRA_CHECKS = [frame_checks, bounded_timing]
EXPECTED_MIN_OBLIGATIONS = 12
TRUSTED = ["A-QUEUE (handlers run one at a time on the scheduler thread)", "Handle.preprocess / fork (C25)", "hash_args_eval is a function of (task, args, kwargs) (C15)"]
ASSUMPTIONS = [
    "the full statement (all interleavings x limit configurations, equality of whole recorded call graphs) is a schedule hyper-property: only compared by the bounded check on generated workflows",
    "a job is re-entered only through _check_jobs_pending_limits -> _exec_job (call-site scan), and Job.clear() (args = None) happens only when the job has settled",
    "include_job_info replaces JobInfo placeholders; evaluation hashes ignore them (C15)",
]
