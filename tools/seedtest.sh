#!/bin/sh
# tools/seedtest.sh <property> <patch.diff> : apply a seeded patch to /repo, run the quick check, revert
P=$1; D=$2
cd /repo && git apply "$D" || exit 9
cd /verif && PVC_EVIDENCE_DIR=/verif/.work/seed-evidence ./check $P > /tmp/seedtest.out 2>&1; rc=$?
grep -E "^VIOLATION|^UNDECIDED|^CHECKER|^$P:|replayed on" /tmp/seedtest.out | cut -c1-260
echo "exit=$rc"
cd /repo && git checkout -- . && git status --short | grep -v workflow.py
