#!/bin/sh
# tools/seedtest.sh <property> <patch.diff> : run the quick check against a scratch worktree of /repo's HEAD with the seeded patch applied
# (VERIF_REPO points the engine and the replay drivers at that tree; /repo itself and the committed evidence stay untouched).
# Equivalent to: git -C /repo apply <patch>; ./check <property>; git -C /repo checkout -- .
P=$1; D=$2; WT=/tmp/mut/seedwt.$$; mkdir -p /tmp/mut
git -C /repo worktree add -f --detach $WT HEAD >/dev/null 2>&1 || exit 8
(cd $WT && git apply "$D") || { git -C /repo worktree remove --force $WT; exit 9; }
cd /verif && VERIF_REPO=$WT PVC_EVIDENCE_DIR=/verif/.work/seed-evidence ./check $P > /tmp/mut/seedtest.$$.out 2>&1; rc=$?
grep -E "^VIOLATION|^UNDECIDED|^CHECKER|^$P:|replayed on" /tmp/mut/seedtest.$$.out | cut -c1-260
echo "exit=$rc"
rm -f /tmp/mut/seedtest.$$.out; git -C /repo worktree remove --force $WT
