#!/bin/bash
# tools/runall.sh [parallelism] : run every claimed quick check on the current /repo tree into .work/all (not the committed evidence), print one line each
P=${1:-4}; mkdir -p /verif/.work/all
cd /verif; ids=$(python3 -c "import json;print(' '.join(c['property_id'] for c in json.load(open('MANIFEST.json'))['checks']))")
echo $ids | tr ' ' '\n' | xargs -P $P -I{} sh -c 'PVC_EVIDENCE_DIR=/verif/.work/all VERIF_SEED=1 VERIF_TIER=quick ./check {} > .work/all/{}.out 2>&1; echo "{} exit=$? $(tail -1 .work/all/{}.out)"'
