#!/usr/bin/env python3
"""tools/seed_table.py: regenerate seeded/README.md (which check catches which seeded change) from seeded/*/meta.json"""
import json, os, glob
ROOT = os.path.dirname(os.path.dirname(os.path.abspath(__file__)))
rows = []
for d in sorted(glob.glob(os.path.join(ROOT, "seeded", "*-m*"))):
    mp = os.path.join(d, "meta.json")
    if not os.path.exists(mp):
        continue
    m = json.load(open(mp))
    cr = m.get("check_result", {})
    rows.append((os.path.basename(d), m.get("property"), m.get("breaks", ""), m.get("needs_to_manifest", ""), m.get("source", "")[:11], m.get("applies_to_current_repo_head"),
                 cr.get("exit"), cr.get("replayed_natively"), cr.get("first_failed_obligation", "")))
out = ["# Seeded property-breaking changes and the verdict of the check on each", "",
       "Each directory holds patch.diff (applies to /repo with `git apply`), demo.py (fails with the patch, passes without) and meta.json (how it was confirmed; the check's verdict).",
       "`independent` = written by a fresh sub-agent that saw only the property text and a scratch worktree. Regenerate with tools/seed_table.py after tools/refresh_seeds.sh.", "",
       "| seed | breaks | needs, to manifest | source | applies to HEAD | check exit | replayed on real code | first failed obligation |", "|---|---|---|---|---|---|---|---|"]
for r in rows:
    out.append("| " + " | ".join(str(x).replace("|", "/").replace("\n", " ") for x in r) + " |")
n_app = sum(1 for r in rows if r[5])
n_det = sum(1 for r in rows if r[5] and r[6] == 1)
out += ["", f"{len(rows)} seeds; {n_app} apply to the current HEAD; {n_det} of those are reported by the property's check with exit 1 (VIOLATION)."]
open(os.path.join(ROOT, "seeded", "README.md"), "w").write("\n".join(out) + "\n")
print(out[-1])
