#!/opt/veriftools/pyvenv/bin/python
"""tools/validate_evidence.py -- check MANIFEST.json and every evidence/<id>.json the way the harness reads them.

Run after the quick checks on the unchanged tree and before committing evidence:
  * MANIFEST.json and each evidence file validate against the schemas in /root/.vp (when present)
  * evidence.level == MANIFEST level_claimed.category, evidence.property_id matches, tier/seed are what was requested
  * level 'proof': coverage.discharged == coverage.obligations >= 1, no refuted / undecided names, violations == 0
  * level 'other' (properties with recorded known findings): every non-discharged obligation is a matched known finding
  * every claimed property exists in properties.jsonl, none is also listed under not_applicable, every property is in one of the two
exit 0 = all consistent, 1 = problems (printed).
"""
import json, os, sys

ROOT = os.path.dirname(os.path.dirname(os.path.abspath(__file__)))
bad = []


def err(msg):
    bad.append(msg)
    print("INVALID", msg)


def schema(name):
    p = os.path.join("/root/.vp", name)
    return json.load(open(p)) if os.path.exists(p) else None


try:
    import jsonschema
except ImportError:
    jsonschema = None

man = json.load(open(os.path.join(ROOT, "MANIFEST.json")))
ms, es = schema("MANIFEST.schema.json"), schema("EVIDENCE.schema.json")
if jsonschema and ms:
    for e in jsonschema.Draft202012Validator(ms).iter_errors(man):
        err(f"MANIFEST.json: {e.message[:200]}")
props = [json.loads(l)["id"] for l in open(os.path.join(ROOT, "properties.jsonl")) if l.strip()]
claimed = [c["property_id"] for c in man["checks"]]
na = [n["property_id"] for n in man.get("not_applicable", [])]
for p in props:
    if (p in claimed) == (p in na):
        err(f"{p}: must be exactly one of claimed / not_applicable")
for p in claimed + na:
    if p not in props:
        err(f"{p}: not a property id")
want_tier, want_seed = os.environ.get("VERIF_TIER"), os.environ.get("VERIF_SEED")
for c in man["checks"]:
    pid = c["property_id"]
    path = os.path.join(ROOT, c["evidence_file"]) if not os.path.isabs(c["evidence_file"]) else c["evidence_file"]
    if not os.path.exists(path):
        err(f"{pid}: evidence file {path} missing")
        continue
    ev = json.load(open(path))
    if jsonschema and es:
        for e in jsonschema.Draft202012Validator(es).iter_errors(ev):
            err(f"{pid}: schema: {e.message[:200]}")
    cov = ev["coverage"]
    if ev["property_id"] != pid:
        err(f"{pid}: property_id is {ev['property_id']}")
    if ev["level"] != c["level_claimed"]["category"]:
        err(f"{pid}: evidence level {ev['level']!r} but MANIFEST level_claimed.category {c['level_claimed']['category']!r}")
    if want_tier and ev["tier"] != want_tier:
        err(f"{pid}: tier {ev['tier']} != {want_tier}")
    if want_seed and ev["seed"] != int(want_seed):
        err(f"{pid}: seed {ev['seed']} != {want_seed}")
    if ev.get("violations"):
        err(f"{pid}: violations = {ev['violations']}")
    if not cov.get("samples"):
        err(f"{pid}: no samples")
    if cov.get("undecided"):
        err(f"{pid}: undecided obligations {cov['undecided']}")
    n, d = cov.get("obligations", 0), cov.get("discharged", 0)
    if ev["level"] == "proof":
        if n < 1 or d != n:
            err(f"{pid}: proof level needs discharged == obligations >= 1, got {d} / {n}")
        if cov.get("refuted"):
            err(f"{pid}: proof level with refuted obligations {cov['refuted']}")
    elif ev["level"] in ("exploration", "fault_enumeration"):
        # bounded stand-in only: generic keys, nothing counted as discharged
        if cov.get("evaluations", 0) < 1 or cov.get("distinct_nontrivial", 0) < 2 or not cov.get("rule"):
            err(f"{pid}: exploration level needs evaluations >= 1, distinct_nontrivial >= 2 and a rule")
        if d != 0 or n != 0:
            err(f"{pid}: exploration level must not count obligations as discharged ({d} / {n})")
        # a bounded check may fail only as a recorded known finding (KNOWN-FINDING line, exit 0)
        bad = [b.get("name") for b in cov.get("bounded_checks", []) if b.get("status") != "proved" and b.get("name") not in cov.get("known_findings_matched", [])]
        if bad:
            err(f"{pid}: a bounded check did not hold: {bad}")
    else:
        known = cov.get("known_findings_matched", [])
        if sorted(cov.get("refuted", [])) != sorted(known):
            err(f"{pid}: refuted {cov.get('refuted')} != matched known findings {known}")
        if d + len(known) != n:
            err(f"{pid}: discharged {d} + known {len(known)} != obligations {n}")
        if not cov.get("explanation", "").strip():
            err(f"{pid}: level 'other' needs coverage.explanation")
    if len(cov.get("obligation_list", [])) != n:
        err(f"{pid}: obligation_list has {len(cov.get('obligation_list', []))} entries, obligations = {n}")
print(f"validate_evidence: {len(claimed)} claimed, {len(na)} not applicable, {len(bad)} problems")
sys.exit(1 if bad else 0)
