#!/usr/bin/env python3
"""Regenerates /verif/MANIFEST.json from the table below (kept in one place so it stays valid)."""
import json, os

ROOT = os.path.dirname(os.path.dirname(os.path.abspath(__file__)))
props = [json.loads(l) for l in open(os.path.join(ROOT, "properties.jsonl"))]

TECH = "contract-based deductive verification: VCs generated from the real Python AST under sidecar contracts, discharged by z3/cvc5"

# property -> (category, text, note, technique, design_ref)
CLAIMS = {}
for fn in sorted(os.listdir(os.path.join(ROOT, "tools", "claims"))):
    c = json.load(open(os.path.join(ROOT, "tools", "claims", fn)))
    CLAIMS[fn[:-5]] = (c["category"], c["text"], c["note"], c.get("technique", TECH), c["design_ref"])

NA = {
 "C01": "whole-program simulation against a reduction semantics over all workflow programs and schedules: no per-function contract states it (DESIGN §8 C01)",
 "C02": "2-run hyper-property over execution histories sharing a backend; contracts decide only the per-call kernels claimed under C03/C04/C05/C12",
 "C09": "liveness (termination under all schedules); partial-correctness contracts cannot state 'eventually'",
 "C10": "the property is about interleavings of two threads on unsynchronised flags; the VC generator has no concurrency logic",
 "C36": "behaviour lives in Alembic DDL/DML executed by the database engine; no Python function whose contract states row preservation",
}

checks = []
for p in props:
    pid = p["id"]
    if pid in CLAIMS:
        cat, text, note, tech, ref = CLAIMS[pid]
        checks.append({
            "property_id": pid,
            "quick_cmd": f"./check {pid} --tier quick",
            "thorough_cmd": f"./check {pid} --tier thorough",
            "evidence_file": f"/verif/evidence/{pid}.json",
            "replay_cmd_template": f"./check {pid} --replay {{path}}",
            "engine": "pvc",
            "level_claimed": {"category": cat, "text": text, "design_ref": ref},
            "level_note": note,
            "technique": tech,
        })
na = []
for p in props:
    pid = p["id"]
    if pid not in CLAIMS:
        na.append({"property_id": pid, "reason": NA[pid]})

m = {
 "version": 1,
 "setup_cmd": "./setup.sh",
 "hooks": {"guard": "REDUN_VERIF", "enable": "no hooks: contracts are sidecar files under /verif/contracts; replay drivers monkey-patch inside their own process",
           "baseline_off_cmd": "cd /repo && /venv/bin/python -m pytest -ra -q -p no:cacheprovider --timeout=900 --continue-on-collection-errors",
           "source_commits": [], "add_only": True},
 "engines": [{"name": "pvc", "path": "/verif/pvc", "serves_properties": sorted(CLAIMS),
              "kind_free_text": "home-made deductive verifier: symbolic execution of the real Python AST (re-read from /repo on every run) under sidecar contracts; obligations as SMT-LIB, discharged by z3 5.1 and cvc5 1.0.3; two-stage quantifier treatment; replay drivers run the real code under /venv/bin/python"}],
 "checks": checks,
 "not_applicable": na,
 "notes": "exit codes of ./check: 0 held, 1 violation (VIOLATION line), 2 undecided (solver unknown / unsupported construct; never reported as violation), 3 checker error",
}
json.dump(m, open(os.path.join(ROOT, "MANIFEST.json"), "w"), indent=1)
print("claimed", len(checks), "not_applicable", len(na))
