#!/venv/bin/python
"""tools/dump_obl.py <PID> <obligation-substring> : write the SMT scripts of matching obligations to .work/dump_*.smt2 (debugging aid)"""
import sys, os
sys.path.insert(0, os.path.dirname(os.path.dirname(os.path.abspath(__file__))))
from pvc import driver, solve
from pvc.engine import Engine
pid, pat = sys.argv[1], sys.argv[2]
cm = driver.load_module(pid)
mods = cm.MODULES if hasattr(cm, "MODULES") else [(cm.MODULE, cm.VERIFY)]
i = 0
for module, verify in mods:
    eng = Engine(module)
    for short in verify:
        k = module.contracts[short]
        fn = None
        if k.get("lemma_src"):
            import ast, textwrap
            fn = ast.parse(textwrap.dedent(k["lemma_src"])).body[0]
        try:
            eng.verify(short, fn)
        except Exception as e:
            print("ERR", short, e)
    for o in eng.obls:
        if pat in o.name:
            p = os.path.join(solve.WORK, f"dump_{i}.smt2")
            open(p, "w").write(solve.full_script(o, model=True))
            print(p, o.name, o.expect)
            i += 1
