#!/bin/bash
# tools/regen_all.sh [parallelism]: regenerate every committed evidence file from the unchanged /repo tree (VERIF_SEED=1, quick tier), then validate
P=${1:-4}; export UPD=${2:-}; cd /verif
if [ -n "$(git -C /repo status --short | grep -v workflow.py)" ]; then echo "/repo is not clean: refusing"; exit 9; fi
ids=$(python3 -c "import json;print(' '.join(c['property_id'] for c in json.load(open('MANIFEST.json'))['checks']))")
mkdir -p .work/regen
echo $ids | tr ' ' '\n' | xargs -P $P -I{} sh -c 'VERIF_SEED=1 VERIF_TIER=quick ./check {} $UPD > .work/regen/{}.out 2>&1; echo "{} exit=$? $(tail -1 .work/regen/{}.out)"' | sort
python3-vt tools/validate_evidence.py | tail -3
