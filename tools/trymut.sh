#!/bin/sh
# tools/trymut.sh <property> <file-in-repo> <sed-expression> : apply a sed mutation to /repo, run the check, revert
P=$1; F=$2; E=$3
cd /repo && cp "$F" /tmp/trymut.bak && sed -i "$E" "$F" && (git diff --stat | tail -1) && cd /verif && PVC_EVIDENCE_DIR=/verif/.work/seed-evidence ./check $P | grep -E "VIOLATION|UNDECIDED|CHECKER|^$P" | cut -c1-220; cp /tmp/trymut.bak /repo/$F; cd /repo && git status --short | grep -v workflow.py
