#!/bin/bash
# tools/suite_check.sh [repo-dir] : run the pinned baseline command and check that every stable_pass test of /root/.vp/BASELINE.json passes
R=${1:-/repo}; OUT=/verif/.work/suite_$$.xml
cd $R && PYTHONPATH=$R /venv/bin/python -m pytest -ra -q -p no:cacheprovider --timeout=900 --continue-on-collection-errors --junitxml=$OUT > /verif/.work/suite_$$.log 2>&1
/venv/bin/python - "$OUT" <<'PY'
import json, sys, xml.etree.ElementTree as ET
b = json.load(open("/root/.vp/BASELINE.json"))
want = set(b["stable_pass"])
res = {}
for tc in ET.parse(sys.argv[1]).getroot().iter("testcase"):
    name = f"{tc.get('classname')}::{tc.get('name')}"
    bad = any(ch.tag in ("failure", "error", "skipped") for ch in tc)
    res[name] = not bad
missing = sorted(t for t in want if t not in res)
failed = sorted(t for t in want if t in res and not res[t])
print(f"stable_pass={len(want)} passed={sum(1 for t in want if res.get(t))} failed={len(failed)} missing={len(missing)}")
for t in failed[:30]: print("FAILED", t)
for t in missing[:10]: print("MISSING", t)
sys.exit(1 if failed or missing else 0)
PY
rc=$?; rm -f $OUT $R/workflow.py; exit $rc
