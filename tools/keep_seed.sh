#!/bin/bash
# tools/keep_seed.sh <ID> <N> "<what it breaks> || <what it needs to manifest>" [dest-N]
# store a confirmed seeded change (from /tmp/mut/<ID>-out, confirmation log in /tmp/mut/confirm) under /verif/seeded/<ID>-m<dest-N>/ and record the check's verdict on it
ID=$1; N=$2; NEEDS=$3; DN=${4:-$N}; D=/verif/seeded/$ID-m$DN; mkdir -p $D
cp /tmp/mut/$ID-out/m$N.diff $D/patch.diff || exit 1; cp /tmp/mut/$ID-out/demo_m$N.py $D/demo.py || exit 1
cd /repo && git apply --check $D/patch.diff 2>/dev/null && APPLIES=true || APPLIES=false
OUT=$(cd /verif && tools/seedtest.sh $ID $D/patch.diff 2>&1)
RC=$(echo "$OUT" | grep -o "exit=[0-9]*" | cut -d= -f2)
FIRST=$(echo "$OUT" | grep -m1 "^VIOLATION" | sed 's/.*replays\/[A-Z0-9]*\///; s/\.json.*//')
NV=$(echo "$OUT" | grep -c "^VIOLATION")
NOINPUT=$(echo "$OUT" | grep "^VIOLATION" | grep -c "no-failing-input-found")
REPLAYED=$(echo "$OUT" | grep -c "replayed on the real code")
CONF=$(grep -E "^exit=" /tmp/mut/confirm/${ID}_m$N.txt 2>/dev/null | tr '\n' ' ')
SUITE=$(grep -m1 -E "stable_pass=|passed|new failures" /tmp/mut/confirm/${ID}_m$N.txt 2>/dev/null | tr -d '\n')
ISO=$(sed -n '/re-running in isolation/,/done/p;/new failures vs baseline/,/done/p' /tmp/mut/confirm/${ID}_m$N.txt 2>/dev/null | grep -v "^done" | tr '\n' ';' | cut -c1-600)
python3 - "$ID" "$DN" "$NEEDS" "$RC" "$FIRST" "$NV" "$REPLAYED" "$CONF" "$SUITE" "$ISO" "$APPLIES" "$NOINPUT" <<'PY'
import json,sys
ID,N,NEEDS,RC,FIRST,NV,REPLAYED,CONF,SUITE,ISO,APPLIES,NOINPUT=sys.argv[1:]
meta={"property":ID,"breaks":NEEDS.split("||")[0].strip(),"needs_to_manifest":NEEDS.split("||")[1].strip() if "||" in NEEDS else "",
 "source":"independent sub-agent given only the property text and a scratch worktree",
 "confirmed":{"demo_exit_clean_then_mutated":CONF.strip(),"suite_on_mutated_tree":SUITE,"failures_outside_baseline_rerun_in_isolation":ISO or "none",
              "how":"demo on the clean scratch worktree, apply patch, demo again, full pytest suite on the mutated worktree against the stable_pass list; load-dependent timeouts (k8s / gcp_batch executors) re-run alone"},
 "applies_to_current_repo_head":APPLIES=="true",
 "check_result":{"command":f"git -C /repo apply patch.diff && ./check {ID}; git -C /repo checkout -- .","exit":int(RC or -1),"violation_lines":int(NV),"of_which_no_failing_input_found":int(NOINPUT),
                 "replayed_natively":int(REPLAYED)>0,"first_failed_obligation":FIRST}}
json.dump(meta,open(f"/verif/seeded/{ID}-m{N}/meta.json","w"),indent=1)
print(ID,N,"exit",RC,"violations",NV,"no-input",NOINPUT,"first",FIRST)
PY
