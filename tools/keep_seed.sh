#!/bin/bash
# tools/keep_seed.sh <ID> <N> "<what it breaks / needs>" : store a confirmed seeded change under /verif/seeded/<ID>-m<N>/
ID=$1; N=$2; NEEDS=$3; D=/verif/seeded/$ID-m$N; mkdir -p $D
cp /tmp/mut/$ID-out/m$N.diff $D/patch.diff; cp /tmp/mut/$ID-out/demo_m$N.py $D/demo.py
cd /repo && git apply --check $D/patch.diff 2>/dev/null && APPLIES=true || APPLIES=false
OUT=$(cd /verif && tools/seedtest.sh $ID $D/patch.diff 2>&1)
RC=$(echo "$OUT" | grep -o "exit=[0-9]*" | cut -d= -f2)
FIRST=$(echo "$OUT" | grep -m1 "^VIOLATION" | sed 's/.*replays\/[A-Z0-9]*\///; s/\.json.*//')
NV=$(echo "$OUT" | grep -c "^VIOLATION")
REPLAYED=$(echo "$OUT" | grep -c "replayed on the real code")
CONF=$(grep -E "^exit=" /tmp/mut/confirm/${ID}_m$N.txt 2>/dev/null | tr '\n' ' ')
NEWF=$(sed -n '/new failures/,/done/p' /tmp/mut/confirm/${ID}_m$N.txt 2>/dev/null | grep -E "^(FAILED|ERROR)" | tr '\n' ';')
python3 - "$ID" "$N" "$NEEDS" "$RC" "$FIRST" "$NV" "$REPLAYED" "$CONF" "$NEWF" "$APPLIES" <<'PY'
import json,sys
ID,N,NEEDS,RC,FIRST,NV,REPLAYED,CONF,NEWF,APPLIES=sys.argv[1:]
meta={"property":ID,"breaks":NEEDS.split("||")[0].strip(),"needs_to_manifest":NEEDS.split("||")[1].strip() if "||" in NEEDS else "",
 "source":"independent sub-agent given only the property text and a scratch worktree",
 "confirmed":{"demo_exit_clean_then_mutated":CONF.strip(),"new_test_failures_vs_baseline":NEWF or "none","how":"/root/confirm_seed.sh: demo on clean worktree, apply patch, demo again, full pytest suite on the mutated worktree compared with the clean worktree's failure list"},
 "applies_to_current_repo_head":APPLIES=="true",
 "check_result":{"command":f"git -C /repo apply patch.diff && ./check {ID}; git -C /repo checkout -- .","exit":int(RC or -1),"violation_lines":int(NV),"replayed_natively":int(REPLAYED)>0,"first_failed_obligation":FIRST}}
json.dump(meta,open(f"/verif/seeded/{ID}-m{N}/meta.json","w"),indent=1)
print(ID,N,"exit",RC,"violations",NV,"first",FIRST)
PY
