#!/venv/bin/python
"""tools/harmless.py <mode> [ID ...] : false-alarm hunt.  For each claimed property, apply a semantics-preserving edit to EVERY function under
contract (in a scratch worktree of /repo's HEAD, /repo untouched), run the property's quick check against it and report the exit code.
  mode noop   : a statement `_pvc_noop = 0` inserted as the first statement of each function (shifts lines, adds a local)
  mode rename : in each function the first local variable that is assigned by a plain `name = ...` statement is renamed everywhere in that function
Acceptable outcomes: exit 0 (held) or exit 2 (undecided: the contract names something that no longer exists).  Exit 1 on a harmless edit is a false alarm."""
import ast, json, os, subprocess, sys, importlib
sys.path.insert(0, os.path.dirname(os.path.dirname(os.path.abspath(__file__))))
mode = sys.argv[1]
ids = sys.argv[2:]
ROOT = "/verif"
WT = f"/tmp/mut/harmless.{os.getpid()}"


def functions_under_contract(pid):
    from pvc import driver
    cm = driver.load_module(pid)
    mods = cm.MODULES if hasattr(cm, "MODULES") else [(cm.MODULE, cm.VERIFY)]
    out = set()
    for module, verify in mods:
        for short in verify:
            w = module.contracts[short].get("where")
            if w:
                out.add(w)
    return sorted(out)


def find(tree, qual):
    node = tree
    for p in qual.split("."):
        cands = [x for x in ast.iter_child_nodes(node) if isinstance(x, (ast.ClassDef, ast.FunctionDef, ast.AsyncFunctionDef)) and x.name == p]
        if not cands:
            cands = [x for x in ast.walk(node) if x is not node and isinstance(x, (ast.ClassDef, ast.FunctionDef, ast.AsyncFunctionDef)) and x.name == p]
        if not cands:
            return None
        node = cands[-1] if len(cands) > 1 and not isinstance(cands[0], ast.ClassDef) else cands[0]
    return node


def edit_file(path, quals):
    src = open(path).read()
    lines = src.split("\n")
    tree = ast.parse(src)
    edits = []      # (lineno0, col, old, new) replacements, or ("insert", lineno0, text)
    for q in quals:
        fn = find(tree, q)
        if fn is None or not isinstance(fn, (ast.FunctionDef, ast.AsyncFunctionDef)):
            continue
        body = fn.body
        first = body[1] if (isinstance(body[0], ast.Expr) and isinstance(getattr(body[0], "value", None), ast.Constant) and isinstance(body[0].value.value, str) and len(body) > 1) else body[0]
        if mode == "noop":
            indent = " " * first.col_offset
            edits.append(("insert", first.lineno - 1, indent + "_pvc_noop = 0"))
        else:
            params = {a.arg for a in fn.args.args + fn.args.kwonlyargs + fn.args.posonlyargs} | ({fn.args.vararg.arg} if fn.args.vararg else set()) | ({fn.args.kwarg.arg} if fn.args.kwarg else set())
            nested = [x for x in ast.walk(fn) if x is not fn and isinstance(x, (ast.FunctionDef, ast.AsyncFunctionDef, ast.Lambda, ast.ClassDef))]
            if nested or any(isinstance(x, (ast.Global, ast.Nonlocal)) for x in ast.walk(fn)):
                continue     # closures share names with their enclosing function: renaming is not local there
            target = None
            for st in ast.walk(fn):
                if isinstance(st, ast.Assign) and len(st.targets) == 1 and isinstance(st.targets[0], ast.Name) and st.targets[0].id not in params and not st.targets[0].id.startswith("_"):
                    target = st.targets[0].id
                    break
            if not target:
                continue
            new = target + "_renamed"
            for x in ast.walk(fn):
                if isinstance(x, ast.Name) and x.id == target:
                    edits.append((x.lineno - 1, x.col_offset, target, new))
    # apply replacements right-to-left per line, then insertions bottom-up
    for e in sorted([e for e in edits if e[0] != "insert"], key=lambda e: (e[0], e[1]), reverse=True):
        ln, col, old, new = e
        line = lines[ln]
        # col_offset is in utf8 bytes; the repo's code lines are ASCII where it matters
        if line[col:col + len(old)] == old:
            lines[ln] = line[:col] + new + line[col + len(old):]
    for e in sorted([e for e in edits if e[0] == "insert"], key=lambda e: e[1], reverse=True):
        lines.insert(e[1], e[2])
    open(path, "w").write("\n".join(lines))
    ast.parse("\n".join(lines))
    return len(edits)


m = json.load(open(os.path.join(ROOT, "MANIFEST.json")))
ids = ids or [c["property_id"] for c in m["checks"]]
results = {}
for pid in ids:
    subprocess.run(["git", "-C", "/repo", "worktree", "add", "-f", "--detach", WT, "HEAD"], capture_output=True)
    try:
        byfile = {}
        for w in functions_under_contract(pid):
            rel, q = w.split(":")
            byfile.setdefault(rel, []).append(q)
        n = sum(edit_file(os.path.join(WT, rel), quals) for rel, quals in byfile.items())
        env = dict(os.environ, VERIF_REPO=WT, PVC_EVIDENCE_DIR=os.path.join(ROOT, ".work", "harmless-evidence"))
        p = subprocess.run(["./check", pid], cwd=ROOT, env=env, capture_output=True, text=True)
        viol = [l for l in p.stdout.split("\n") if l.startswith("VIOLATION")]
        results[pid] = (p.returncode, n, [v.split("replays/")[-1][:90] for v in viol[:3]])
        print(pid, mode, "edits", n, "exit", p.returncode, results[pid][2], flush=True)
    finally:
        subprocess.run(["git", "-C", "/repo", "worktree", "remove", "--force", WT], capture_output=True)
bad = {k: v for k, v in results.items() if v[0] not in (0, 2)}
print("FALSE ALARMS:" if bad else "no false alarms", bad if bad else "")
