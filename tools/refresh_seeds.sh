#!/bin/bash
# tools/refresh_seeds.sh [ID-prefix] [parallelism]: re-run the current checks against every kept seeded change (scratch worktrees, see seedtest.sh)
# and update check_result in its meta.json; prints a table
cd /verif
one() {
  d=$1
  ID=$(python3 -c "import json;print(json.load(open('$d/meta.json'))['property'])")
  if ! git -C /repo apply --check /verif/$d/patch.diff 2>/dev/null; then
    python3 - $d <<'PY'
import json,sys
p=sys.argv[1]+"/meta.json"; m=json.load(open(p)); m["applies_to_current_repo_head"]=False; json.dump(m,open(p,"w"),indent=1)
PY
    echo "$d DOES-NOT-APPLY"; return; fi
  OUT=$(tools/seedtest.sh $ID /verif/$d/patch.diff 2>&1)
  python3 - "$d" "$OUT" <<'PY'
import json,sys,re
d,out=sys.argv[1],sys.argv[2]
p=d+"/meta.json"; m=json.load(open(p))
rc=re.search(r"exit=(\d+)",out); v=[l for l in out.split("\n") if l.startswith("VIOLATION")]
first=re.sub(r".*replays/[A-Z0-9]*/","",v[0]).split(".json")[0] if v else ""
m["applies_to_current_repo_head"]=True
cr=m.setdefault("check_result",{})
cr.update({"exit":int(rc.group(1)) if rc else -1,"violation_lines":len(v),"of_which_no_failing_input_found":sum("no-failing-input-found" in l for l in v),
           "replayed_natively":"replayed on the real code" in out,"first_failed_obligation":first})
json.dump(m,open(p,"w"),indent=1)
print(d, "exit", cr["exit"], "violations", len(v), "replayed", cr["replayed_natively"], first[:70])
PY
}
export -f one
ls -d seeded/${1:-}* | xargs -P ${2:-3} -I{} bash -c 'one {}' 2>&1 | grep -v "^WARNING" | sort
