"""dev helper: python -m pyvc.quick contracts/c08.py [function-substring]"""
import sys, importlib.util, time
from pyvc.engine import Engine
from pyvc import solve
def load(path):
    spec = importlib.util.spec_from_file_location("cmod", path); m = importlib.util.module_from_spec(spec); spec.loader.exec_module(m); return m
if __name__ == "__main__":
    m = load(sys.argv[1]); filt = sys.argv[2] if len(sys.argv) > 2 else ""
    eng = Engine(m.MODULE)
    for short in m.VERIFY:
        if filt in short:
            print(eng.verify(short))
    t=time.time(); vs = solve.discharge_all(eng.obls); 
    bad=0
    for v in vs:
        if v.status != "proved":
            bad+=1; print("  ", v.status.upper(), v.o.name, "L%d"%v.o.line, v.detail)
    print(f"{len(vs)} obligations, {len(vs)-bad} ok, {bad} not ok, {time.time()-t:.1f}s; notes:")
    for n in eng.notes: print("   note", n)
    for v in sorted(vs, key=lambda v:-v.ms)[:6]: print("   slow", v.ms, v.o.name, v.solver, v.stage, v.detail)
