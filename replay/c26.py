"""C26 replay / bounded search: merge_dicts and get_context_value against reference definitions on small nested
values; job trees with nested update_context (including tasks used as default arguments) and repeated runs."""
import sys, os, itertools, copy
sys.path.insert(0, os.path.dirname(os.path.abspath(__file__)))
from common import *
req = read_request()
obl = req.get("obligation", "")
from redun.utils import merge_dicts
from redun.context import get_context_value
from redun import task, get_context


def ref_merge(ds):
    if len(ds) == 1:
        return ds[0]
    if any(not isinstance(d, dict) for d in ds):
        return ds[-1]
    keys = []
    for d in ds:
        for k in d:
            if k not in keys:
                keys.append(k)
    return {k: ref_merge([d[k] for d in ds if k in d]) for k in keys}


def ref_lookup(ctx, path, default):
    v = ctx
    for part in path.split("."):
        if not isinstance(v, dict) or part not in v:
            return default
        v = v[part]
    return v


LEAVES = [1, "s", {}, {"a": 1}, {"a": {"b": 2}}, {"b": 3, "a": {"c": 4}}, {"a": 5, "c": {"a": 1}}]
n = 0
w = None
for k in (1, 2, 3):
    for ds in itertools.product(LEAVES, repeat=k):
        n += 1
        got = merge_dicts(copy.deepcopy(list(ds)))
        if got != ref_merge(list(ds)):
            w = dict(function="merge_dicts", input=list(ds), expected=ref_merge(list(ds)), observed=got)
            break
    if w:
        break
if w is None:
    for ctx in [d for d in LEAVES if isinstance(d, dict)]:
        for path in ["a", "a.b", "a.b.c", "b", "c.a", "x", "a.x", "", "a.", ".a"]:
            n += 1
            try:
                got = get_context_value(ctx, path, "DEF")
            except Exception as e:
                got = f"raised {type(e).__name__}"
            if got != ref_lookup(ctx, path, "DEF"):
                w = dict(function="get_context_value", context=ctx, path=path, expected=ref_lookup(ctx, path, "DEF"), observed=got)
                break
        if w:
            break

ns = "c26replay"


@task(namespace=ns)
def helper(k=get_context("tool.k", "k0"), j=get_context("tool.j", "j0")):
    return [k, j]


@task(namespace=ns)
def leaf(x=helper()):
    return x


@task(namespace=ns)
def show(k=get_context("tool.k", "k0"), j=get_context("tool.j", "j0")):
    return [k, j]


@task(namespace=ns)
def inner():
    return {"plain": show(), "over": show.update_context({"tool": {"k": "k-inner"}})(), "dflt": leaf.update_context({"tool": {"k": "k-leaf"}})()}


@task(namespace=ns)
def main():
    return {"here": show(), "child": inner.update_context({"tool": {"j": "j-main"}})()}


def expect(base):
    def look(ctx, p, d):
        return ref_lookup(ctx, p, d)
    c_main = base
    c_inner = ref_merge([c_main, {"tool": {"j": "j-main"}}])
    c_over = ref_merge([c_inner, {"tool": {"k": "k-inner"}}])
    c_leaf = ref_merge([c_inner, {"tool": {"k": "k-leaf"}}])
    f = lambda c: [look(c, "tool.k", "k0"), look(c, "tool.j", "j0")]
    return {"here": f(c_main), "child": {"plain": f(c_inner), "over": f(c_over), "dflt": f(c_leaf)}}


if w is None:
    for cfg_ctx, runs in [({}, [{}]), ({"tool": {"k": "k-cfg"}}, [{}, {"tool": {"j": "j-run"}}, {}]), ({}, [{"tool": {"k": "k-run", "j": "j-run"}}, {}])]:
        import json as _json
        s = quiet_scheduler({"scheduler": {"context": _json.dumps(cfg_ctx)}} if cfg_ctx else {})
        for run_ctx in runs:
            n += 1
            with silence():
                got = s.run(main(), context=run_ctx)
            want = expect(ref_merge([cfg_ctx, run_ctx]))
            if got != want:
                w = dict(scenario="job tree with nested update_context", configured_context=cfg_ctx, run_contexts_so_far=runs[: runs.index(run_ctx) + 1] if run_ctx in runs else runs, expected=want, observed=got)
                break
        if w:
            break
finish(w is not None, witness=w, evaluations=n, bound="merge_dicts on all 1..3-tuples over 7 nested values; get_context_value on 5 contexts x 10 paths; 3 scheduler configurations x up to 3 runs of a 3-level job tree")
