"""C32 replay / bounded check: the scratch-file protocol run locally (array index files, oneshot entry point, result / error parsing)."""
import sys, os, tempfile, shutil, pickle, json, types
sys.path.insert(0, os.path.dirname(os.path.abspath(__file__)))
from common import *
req = read_request()
from redun.cli import RedunClient
from redun.executors.scratch import (write_array_job_scratch_files, parse_job_result, parse_job_error, get_job_scratch_file, SCRATCH_INPUT, SCRATCH_OUTPUT, SCRATCH_ERROR)
from redun.job_array import AWS_ARRAY_VAR, K8S_ARRAY_VAR, GCP_ARRAY_VAR, get_job_array_index
from redun.file import File

root = tempfile.mkdtemp(prefix="c32_")
import atexit as _atexit, shutil as _shutil
_atexit.register(lambda: _shutil.rmtree(root, ignore_errors=True))     # nothing is left under /tmp
cwd = os.getcwd()
os.chdir(root)
n = 0
w = None
samples = []
SRC = '''
from redun import task

@task(namespace="c32w")
def mul(x, y=2):
    return {"x": x, "y": y, "product": x * y}

@task(namespace="c32w")
def picky(x, y=2):
    if x % 2:
        raise ValueError("odd %d" % x)
    return [x, y]
'''
with open("c32_workflow.py", "w") as f:
    f.write(SRC)
sys.path.insert(0, root)
import c32_workflow as wf
import logging
logging.getLogger("redun").setLevel(logging.CRITICAL)


class FakeJob:
    """the attributes of a scheduler Job that the scratch protocol reads"""
    def __init__(self, task, args, kwargs, eval_hash):
        self.task, self.args, self.eval_hash = task, (args, kwargs), eval_hash


def local(task, args, kwargs):
    try:
        return ("ok", task.func(*args, **kwargs))
    except Exception as e:
        return ("err", type(e).__name__, str(e))


def remote(argv, env):
    old = dict(os.environ)
    for k in (AWS_ARRAY_VAR, K8S_ARRAY_VAR, GCP_ARRAY_VAR, "MY_RANK"):
        os.environ.pop(k, None)
    os.environ.update(env)
    try:
        with silence():
            RedunClient().execute(argv)
    except BaseException as e:
        pass
    finally:
        os.environ.clear()
        os.environ.update(old)


try:
    # the index lookup itself
    for env, var, want in [({}, None, None), ({AWS_ARRAY_VAR: "3"}, None, 3), ({K8S_ARRAY_VAR: "4"}, None, 4), ({GCP_ARRAY_VAR: "5"}, None, 5),
                           ({AWS_ARRAY_VAR: "1", K8S_ARRAY_VAR: "2", GCP_ARRAY_VAR: "3"}, None, 1), ({K8S_ARRAY_VAR: "2", GCP_ARRAY_VAR: "3"}, None, 2),
                           ({AWS_ARRAY_VAR: "1", "MY_RANK": "7"}, "MY_RANK", 7)]:
        n += 1
        got = get_job_array_index(env=env, env_var=var)
        if got != want:
            w = dict(case="get_job_array_index", env=env, env_var=var, got=got, expected=want)
            break
    scratch = os.path.join(root, "scratch")
    for tname in ("mul", "picky"):
        if w:
            break
        task = getattr(wf, tname)
        for size in (1, 2, 3, 4):
            if w:
                break
            for var in (AWS_ARRAY_VAR, K8S_ARRAY_VAR, GCP_ARRAY_VAR, "MY_RANK"):
                n += 1
                array_id = f"{tname}{size}{var[:3]}"
                jobs = [FakeJob(task, (10 * size + i,), ({"y": i + 3} if i % 2 == 0 else {}), eval_hash=f"{tname}{size}{var[:3]}{i:02d}".encode().hex()) for i in range(size)]
                files = write_array_job_scratch_files(jobs, scratch, array_id)
                if File(files.eval_file).read().splitlines() != [j.eval_hash for j in jobs]:
                    w = dict(case="eval hash file", observed="line i is not the evaluation hash of job i")
                    break
                for i in reversed(range(size)):
                    argv = ["redun", "oneshot", "c32_workflow.py", "--array-job", "--input", files.input_file, "--output", files.output_file, "--error", files.error_file]
                    if var == "MY_RANK":
                        argv += ["--array-rank-env", "MY_RANK"]
                    argv += [task.fullname]
                    remote(argv, {var: str(i)})
                for i, job in enumerate(jobs):
                    want = local(task, *job.args)
                    res, ok = parse_job_result(scratch, job)
                    if want[0] == "ok":
                        got = ("ok", res) if ok else ("missing",)
                    else:
                        if ok:
                            got = ("ok", res)
                        else:
                            err, tb = parse_job_error(scratch, job)
                            got = ("err", type(err).__name__, str(err))
                    if got != want:
                        w = dict(case=f"array of {size} x {tname}, index variable {var}, element {i}", local=repr(want), through_protocol=repr(got))
                        break
                    # no other element's files were touched by element i: each output path is the job's own
                    if want[0] == "ok" and pickle.load(open(get_job_scratch_file(scratch, job, SCRATCH_OUTPUT), "rb")) != want[1]:
                        w = dict(case="output file of element", element=i)
                        break
                if w:
                    break
                if len(samples) < 3:
                    samples.append(dict(task=tname, size=size, var=var))
    if w is None:
        # single (non-array) job through the same entry point
        for tname, args, kwargs in (("mul", (6,), {"y": 7}), ("picky", (3,), {}), ("picky", (4,), {"y": 1})):
            n += 1
            task = getattr(wf, tname)
            job = FakeJob(task, args, kwargs, eval_hash=("single" + tname + str(args[0])).encode().hex())
            inp = get_job_scratch_file(scratch, job, SCRATCH_INPUT)
            with File(inp).open("wb") as out:
                pickle.dump([args, kwargs], out)
            remote(["redun", "oneshot", "c32_workflow.py", "--input", inp, "--output", get_job_scratch_file(scratch, job, SCRATCH_OUTPUT),
                    "--error", get_job_scratch_file(scratch, job, SCRATCH_ERROR), task.fullname], {})
            want = local(task, args, kwargs)
            res, ok = parse_job_result(scratch, job)
            if ok:
                got = ("ok", res)
            else:
                err, tb = parse_job_error(scratch, job)
                got = ("err", type(err).__name__, str(err))
            if got != want:
                w = dict(case=f"single job {tname}{args}", local=repr(want), through_protocol=repr(got))
                break
    if w is None:
        # job reuniting: in-flight remote jobs are paired by evaluation hash -- single jobs by the hash in their name, array children by line
        # <their own array index> of the array's eval-hash file, whatever subset of the children is still in flight and in whatever order
        from unittest.mock import Mock
        import itertools
        from redun.config import Config
        from redun.executors.aws_batch import AWSBatchExecutor, get_batch_job_name
        from redun.executors.scratch import get_array_scratch_file, SCRATCH_HASHES
        gscratch = os.path.join(root, "gscratch")
        hashes = [("reunite%d" % i).encode().hex() for i in range(4)]
        array_hash = "a77a" * 10
        File(get_array_scratch_file(gscratch, array_hash, SCRATCH_HASHES)).write("\n".join(hashes))
        conf = Config({"batch": {"image": "img", "queue": "q", "s3_scratch": gscratch, "aws_region": "us-west-2", "code_package": False}})
        single = "51" * 20
        for r in range(0, 5):
            for subset in itertools.combinations(range(4), r):
                for order in (list(subset), list(reversed(subset))):
                    n += 1
                    ex = AWSBatchExecutor("batch", Mock(), conf["batch"])
                    prefix = ex.job_name_prefix if hasattr(ex, "job_name_prefix") else "redun-job"
                    ex.get_jobs = Mock(return_value=[{"jobId": "ARR", "jobName": get_batch_job_name(prefix, array_hash, array=True)},
                                                     {"jobId": "SINGLE", "jobName": get_batch_job_name(prefix, single)}])
                    ex.get_array_child_jobs = Mock(return_value=[{"jobId": f"ARR:{i}", "arrayProperties": {"index": i}} for i in order])
                    ex.gather_inflight_jobs()
                    want = {hashes[i]: f"ARR:{i}" for i in subset}
                    want[single] = "SINGLE"
                    if dict(ex.preexisting_batch_jobs) != want:
                        w = dict(case="gather_inflight_jobs", in_flight_children=order, paired={k[:12]: v for k, v in ex.preexisting_batch_jobs.items()}, expected={k[:12]: v for k, v in want.items()})
                        break
                if w:
                    break
            if w:
                break
finally:
    os.chdir(cwd)
    shutil.rmtree(root, ignore_errors=True)
finish(w is not None, witness=w, evaluations=n, samples=samples,
       bound="7 environments for the index lookup; 2 tasks (one raising for odd inputs) x array sizes 1..4 x 4 index variables, elements run in reverse order; 3 single jobs; job reuniting for every subset of 4 array children in two orders plus a single job")
