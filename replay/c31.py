"""C31 replay / bounded check: record / read round trips on real sqlite backends with and without a value store and a FileCache type."""
import sys, os, tempfile, shutil, pickle
sys.path.insert(0, os.path.dirname(os.path.abspath(__file__)))
from common import *
req = read_request()
from redun.backends.db import RedunBackendDb, RedunDatabaseError, Value
from redun.value import FileCache, get_type_registry

root = tempfile.mkdtemp(prefix="c31_")
import atexit as _atexit, shutil as _shutil
_atexit.register(lambda: _shutil.rmtree(root, ignore_errors=True))     # nothing is left under /tmp
n = 0
w = None
samples = []


class Blob:
    def __init__(self, data):
        self.data = data

    def __eq__(self, other):
        return isinstance(other, Blob) and other.data == self.data


class BlobType(FileCache):
    type = Blob
    type_name = "c31.Blob"
    base_path = os.path.join(root, "filecache")


def backend(tag, **cfg):
    conf = {"db_uri": "sqlite:///" + os.path.join(root, tag + ".db")}
    conf.update({k: str(v) for k, v in cfg.items()})
    b = RedunBackendDb(config=conf)
    b.load()
    return b


VALUES = [0, "", "x", "a" * 50, list(range(40)), {"k": [1, 2, {"z": None}]}, b"\x00\x01", ("t", 1.5), "é" * 10, Blob("payload"), Blob("q" * 300)]
CONFIGS = {
    "db-only": {},
    "store-all": {"value_store_path": os.path.join(root, "vs_all"), "value_store_min_size": 0},
    "store-large": {"value_store_path": os.path.join(root, "vs_large"), "value_store_min_size": 200},
}
reg = get_type_registry()
try:
    for cname, cfg in CONFIGS.items():
        b = backend(cname, **cfg)
        for v in VALUES:
            n += 1
            try:
                h = b.record_value(v)
            except Exception as e:
                w = dict(case=f"{cname} record {v!r:.40}", observed=f"raised {type(e).__name__}: {e}")
                break
            expect_hash = reg.get_hash(v)
            got, ok = b.get_value(h)
            if h != expect_hash or not ok or got != v or reg.get_hash(got) != h:
                w = dict(case=f"{cname} roundtrip {v!r:.40}", key=h, value_hash=expect_hash, read_ok=ok, read_back=repr(got)[:60])
                break
            # recording again changes nothing and reads the same
            if b.record_value(v) != h or b.get_value(h)[0] != v:
                w = dict(case=f"{cname} re-record {v!r:.40}")
                break
            if len(samples) < 3:
                samples.append(dict(config=cname, value=repr(v)[:30], key=h[:10]))
        if w:
            break
        # offloaded bytes missing => absent, not another value
        if "value_store_path" in cfg:
            n += 1
            v = "offloaded-" + "y" * 400
            h = b.record_value(v)
            row = b.session.query(Value).filter_by(value_hash=h).one()
            if len(row.value) != 0:
                w = dict(case=f"{cname}: large value not offloaded", in_db=len(row.value))
                break
            p = b.value_store.get_value_path(h)
            if open(p, "rb").read() != pickle.dumps(v, protocol=3) and reg.get_hash(pickle.loads(open(p, "rb").read())) != h:
                w = dict(case=f"{cname}: offloaded bytes are not the value's serialisation")
                break
            # put never overwrites
            b.value_store.put(h, b"OTHER")
            if b.get_value(h) != (v, True):
                w = dict(case=f"{cname}: second put overwrote the stored bytes", read=repr(b.get_value(h))[:80])
                break
            os.remove(p)
            got = b.get_value(h)
            if got != (None, False):
                w = dict(case=f"{cname}: offloaded bytes deleted", read=repr(got)[:80], expected="(None, False)")
                break
            # recording the value again makes it readable again
            n += 1
            if b.record_value(v) != h or b.get_value(h) != (v, True):
                w = dict(case=f"{cname}: value recorded again after its offloaded bytes were lost", read=repr(b.get_value(h))[:80], expected="the value")
                break
        # FileCache file deleted => absent
        n += 1
        v = Blob("to-delete-" + cname)
        h = b.record_value(v)
        row = b.session.query(Value).filter_by(value_hash=h).one()
        data, has = b._get_value_data(row)
        fname = data.decode("utf8")
        if b.get_value(h) != (v, True):
            w = dict(case=f"{cname}: FileCache roundtrip")
            break
        os.remove(fname)
        got = b.get_value(h)
        if got != (None, False):
            w = dict(case=f"{cname}: FileCache file deleted", read=repr(got)[:80], expected="(None, False)")
            break
    if w is None:
        # too large => rejected, nothing stored, nothing truncated
        for cname, cfg in CONFIGS.items():
            n += 1
            b = backend(cname + "-max", max_value_size=100, **cfg)
            big = "z" * 500
            try:
                h = b.record_value(big)
                w = dict(case=f"{cname}: value above max_value_size accepted", key=h)
                break
            except RedunDatabaseError:
                pass
            if b.session.query(Value).filter_by(value_hash=reg.get_hash(big)).count() != 0:
                w = dict(case=f"{cname}: rejected value left a row behind")
                break
            small = "s" * 20
            if b.get_value(b.record_value(small)) != (small, True):
                w = dict(case=f"{cname}: value below max_value_size")
                break
finally:
    shutil.rmtree(root, ignore_errors=True)
finish(w is not None, witness=w, evaluations=n, samples=samples,
       bound="11 values (scalars, containers, bytes, FileCache type) x 3 storage configurations (database only, value store for everything, value store above 200 bytes), "
             "re-recording, deleted offloaded bytes, deleted FileCache files, second put, max_value_size rejection")
