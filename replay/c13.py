"""C13 replay / bounded check: histories of promise operations against a reference model (settle once, first wins,
every callback exactly once after settlement, registration order, chaining, all / wait_promises)."""
import sys, os, itertools
sys.path.insert(0, os.path.dirname(os.path.abspath(__file__)))
from common import *
req = read_request()
obl = req.get("obligation", "")
from redun.promise import Promise, wait_promises

w = None
n = 0


def run_history(ops):
    """ops over one promise p: ('then', id) ('res', v) ('rej', v) ; callbacks log their id; some callbacks register another one"""
    log = []
    p = Promise()
    settled = []
    expect_order = []
    regs = []

    def mk(cid, nested=None):
        def cb(v):
            log.append(cid)
            if nested is not None:
                regs.append(nested)
                p.then(mk(nested), mk(nested))
            return v
        return cb
    for op in ops:
        if op[0] == "then":
            regs.append(op[1])
            p.then(mk(op[1], op[2] if len(op) > 2 else None), mk(op[1], op[2] if len(op) > 2 else None))
        elif op[0] == "res":
            p.do_resolve(op[1])
            settled.append(("f", op[1]))
        else:
            p.do_reject(ValueError(op[1]))
            settled.append(("r", op[1]))
    return p, log, regs, settled


OPS = [("then", "A"), ("then", "B"), ("then", "N", "C"), ("res", 1), ("res", 2), ("rej", 3)]
scenario = None
for k in (1, 2, 3, 4):
    for ops in itertools.product(OPS, repeat=k):
        if sum(1 for o in ops if o[0] == "then") != len({o[1] for o in ops if o[0] == "then"}):
            continue
        n += 1
        p, log, regs, settled = run_history(ops)
        if settled:
            first = settled[0]
            ok_state = (not p.is_pending) and ((first[0] == "f" and p.is_fulfilled and p.value == first[1]) or (first[0] == "r" and p.is_rejected and str(p.error) == str(first[1])))
            if not ok_state:
                w = dict(check="settles once, first settlement wins", history=ops, observed=dict(pending=p.is_pending, fulfilled=p.is_fulfilled))
                break
            if sorted(log) != sorted(regs):
                w = dict(check="every callback registered before or after settlement runs exactly once", history=ops, registered=regs, ran=log)
                break
            reentrant = any(len(o) > 2 for o in ops)
            # the recorded known finding concerns re-entrant registrations only; plain histories must always be in order
            if log != regs and (not reentrant or ("].2" in obl and "_notify/at[" in obl)):
                w = dict(check="callbacks run in registration order", history=ops, registered_in_order=regs, ran_in_order=log)
                scenario = "order"
                break
        elif log:
            w = dict(check="no callback runs before settlement", history=ops, ran=log)
            break
    if w:
        break
if w is None or scenario == "order":
    # chaining and combinators (independent of the ordering clause)
    w2 = None
    q = Promise()
    inner = Promise()
    r = q.then(lambda v: inner)
    q.do_resolve(1)
    if not r.is_pending:
        w2 = dict(check="chained promise adopts a returned promise", observed="settled before the inner promise")
    inner.do_reject(KeyError("k"))
    if not (r.is_rejected and isinstance(r.error, KeyError)):
        w2 = dict(check="chained promise adopts the outcome of a promise returned from a callback")
    r2 = Promise(lambda res, rej: res(5)).then(lambda v: 1 / 0)
    if not (r2.is_rejected and isinstance(r2.error, ZeroDivisionError)):
        w2 = dict(check="exception raised by a callback rejects the chained promise")
    for order in itertools.permutations(range(3)):
        n += 1
        ps = [Promise() for _ in range(3)]
        a = Promise.all(ps)
        for i in order:
            if a.is_pending is False:
                w2 = dict(check="Promise.all fulfils only when all inputs fulfilled", order=order)
            ps[i].do_resolve(i * 10)
        if not (a.is_fulfilled and a.value == [0, 10, 20]):
            w2 = dict(check="Promise.all results in input order", order=order, observed=repr(getattr(a, "_value", None)))
        ps = [Promise() for _ in range(3)]
        a = Promise.all(ps)
        ps[order[0]].do_reject(ValueError("first"))
        ps[order[1]].do_reject(ValueError("second"))
        if not (a.is_rejected and str(a.error) == "first"):
            w2 = dict(check="Promise.all rejects with the first rejection observed", order=order)
        ps = [Promise() for _ in range(3)]
        wp = wait_promises(ps)
        for j, i in enumerate(order):
            if not wp.is_pending:
                w2 = dict(check="wait_promises fulfils only once every input has settled", order=order)
            (ps[i].do_resolve if j % 2 else ps[i].do_reject)(ValueError("x") if not j % 2 else 1)
        if not wp.is_fulfilled:
            w2 = dict(check="wait_promises fulfils when all inputs settled", order=order)
    if Promise.all([]).value != [] or not wait_promises([]).is_fulfilled:
        w2 = dict(check="empty inputs")
    if w2 is not None:
        w = w2
finish(w is not None, witness=w, evaluations=n, bound="all histories of <= 4 operations (then / then-with-re-entrant-registration / resolve / reject) on one promise; chaining; Promise.all and wait_promises over all settlement orders of 3 inputs")
