"""C17 replay / bounded check: generated task definitions and mutations of name, namespace, body, version, includes, options."""
import sys, os, itertools
sys.path.insert(0, os.path.dirname(os.path.abspath(__file__)))
from common import *
req = read_request()
obl = req.get("obligation", "")
from redun import task
from redun.task import Task, wraps_task

w = None
n = 0


def mk(name="f", ns="c17r", body="1", version=None, includes=None, base_opts=None, over=None):
    src = f"def {name}():\n    return {body}\n"
    env = {}
    exec(src, env)
    kw = {}
    if includes is not None:
        kw["hash_includes"] = includes
    t = Task(env[name], name=name, namespace=ns, version=version, source=src, task_options_base=base_opts or {}, **kw)
    if over:
        t = t.options(**over)
    return t


if "same hash_includes data" in obl or "same call-time option overrides" in obl:
    t1 = mk(version="1", includes=[{"memory": 2}])
    t2 = mk(version="1", over={"memory": 2})
    n += 1
    if t1.hash == t2.hash:
        w = dict(check="hash_includes data and option overrides are not separated in the pre-image", task1="hash_includes=[{'memory': 2}], no overrides", task2="no includes, .options(memory=2)", common_hash=t1.hash)
else:
    base = dict(name="f", ns="c17r", body="1", version=None, includes=None, over=None)
    variants = {"name": dict(name="g"), "namespace": dict(ns="other"), "body (unversioned)": dict(body="2"), "includes": dict(includes=[1]), "includes2": dict(includes=[1, 2]),
                "overrides": dict(over={"memory": 2}), "overrides2": dict(over={"memory": 3})}
    h0 = mk(**base).hash
    seen = {"base": h0}
    for label, ch in variants.items():
        n += 1
        h = mk(**{**base, **ch}).hash
        if h in seen.values():
            w = dict(check="hash must change", changed=label, collides_with=[k for k, v in seen.items() if v == h])
            break
        seen[label] = h
    if w is None:
        n += 4
        if mk(version="1", body="1").hash != mk(version="1", body="2").hash:
            w = dict(check="versioned task: hash must not depend on the body")
        elif mk(version="1").hash == mk(version="2").hash:
            w = dict(check="version bump must change the hash")
        elif mk(base_opts={"memory": 1}).hash != mk(base_opts={"memory": 9, "cache": False}).hash:
            w = dict(check="definition-time options must not affect the hash")
        elif mk(includes=[1, 2, "x"]).hash != mk(includes=["x", 2, 1]).hash:
            w = dict(check="order of hash_includes must not matter")
    if w is None:
        n += 2

        @task(namespace="c17r", name="deco_a")
        def deco_a():
            return 1

        src_plain = "def deco_b():\n    return 1\n"
        from redun.utils import get_func_source
        if "@task" in get_func_source(deco_a.func):
            w = dict(check="decorator lines must be trimmed from the hashed source", source=get_func_source(deco_a.func))
        @task(namespace="c17r", name="pinner")
        def pinner_a(x):
            return 1

        @task(namespace="c17r", name="pinner")
        def pinner_b(x):
            return 2
        p1, p2, p3 = pinner_a.partial(1), pinner_b.partial(1), pinner_a.partial(2)
        if p1.hash == p2.hash or p1.hash == p3.hash:
            w = dict(check="partial task hash reflects the inner task and the bound arguments")
if w is None and not ("same hash_includes data" in obl or "same call-time option overrides" in obl):
    # a call-time override is part of the identity even when it restates the definition-time value, and the
    # definition-time value never is
    n += 3
    if mk(base_opts={"memory": 4}, over={"memory": 4}).hash == mk(base_opts={"memory": 4}).hash:
        w = dict(check="an override equal to the definition-time value must still change the hash", task="@task(memory=4) vs .options(memory=4)")
    elif mk(base_opts={"memory": 4}, over={"memory": 4}).hash != mk(base_opts={"memory": 9}, over={"memory": 4}).hash:
        w = dict(check="definition-time options must not affect the hash of a task with overrides")
    elif mk(over={"vcpus": 2}).hash == mk(over={"vcpus": 2, "memory": 4}).hash:
        w = dict(check="every override key takes part in the hash")
if w is None and not ("same hash_includes data" in obl or "same call-time option overrides" in obl):
    # decorator layouts: the same function under differently written decorators (one line, several lines, other
    # definition-time options, stacked decorators) has one hash; loaded from real module files so that inspect works
    import importlib.util, tempfile, shutil
    d = tempfile.mkdtemp(prefix="c17_")
    BODY = "def layout(x):\n    y = x + 1\n    return y\n"
    DECOS = ["@task(namespace='c17l')\n",
             "@task(namespace='c17l', memory=1)\n",
             "@task(\n    namespace='c17l',\n    memory=2,\n)\n",
             "@task(\n    namespace='c17l',\n    executor='default',\n    vcpus=3\n)\n",
             "@task(namespace='c17l',\n      cache=False)\n"]
    hs = []
    try:
        for i, deco in enumerate(DECOS):
            n += 1
            fn = os.path.join(d, f"c17_layout_{i}.py")
            with open(fn, "w") as fh:
                fh.write("from redun import task\n\n\n" + deco + BODY)
            spec = importlib.util.spec_from_file_location(f"c17_layout_{i}", fn)
            m = importlib.util.module_from_spec(spec)
            spec.loader.exec_module(m)
            hs.append((deco, m.layout.hash, m.layout.source))
        if len({h for _, h, _ in hs}) != 1:
            w = dict(check="the layout and the definition-time options of the decorator must not affect the task hash",
                     hashes=[(d_.replace("\n", "\\n"), h[:10]) for d_, h, _ in hs], sources=[s_ for _, _, s_ in hs][:3])
    finally:
        shutil.rmtree(d, ignore_errors=True)
finish(w is not None, witness=w, evaluations=n, bound="5 decorator layouts of one function loaded from module files, overrides equal to definition-time values, 8 single-component mutations of a generated task definition, versioned/unversioned, option/include orderings, decorator trimming, partial tasks")
