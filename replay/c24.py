"""C24 bounded check: tag command histories on a real in-memory backend against a reference key-value model."""
import sys, os, itertools, random
sys.path.insert(0, os.path.dirname(os.path.abspath(__file__)))
from common import *
req = read_request()
from redun.backends.db import RedunBackendDb, Tag, TagEdit
from redun.backends.base import TagEntity

KEYS = ["k1", "k2"]
VALS = [1, "x"]
PAIRS = [(k, v) for k in KEYS for v in VALS]
OPS = [("add", p) for p in PAIRS] + [("update", p) for p in PAIRS] + [("rm", p) for p in PAIRS] + [("rmkey", k) for k in KEYS]
n = 0
nontrivial = set()
w = None
samples = []


def apply_model(model, ent, op):
    cur = model.setdefault(ent, set())
    kind, arg = op
    if kind == "add":
        cur.add(arg)
    elif kind == "update":
        model[ent] = {p for p in cur if p[0] != arg[0]} | {arg}
    elif kind == "rm":
        cur.discard(arg)
    elif kind == "rmkey":
        model[ent] = {p for p in cur if p[0] != arg}


def apply_real(b, ent, op):
    kind, arg = op
    if kind == "add":
        b.record_tags(TagEntity.Value, ent, [arg], new=True)
    elif kind == "update":
        b.record_tags(TagEntity.Value, ent, [arg], update=True)
    elif kind == "rm":
        b.delete_tags(ent, [arg], [])
    elif kind == "rmkey":
        b.delete_tags(ent, [], [arg])


def current(b, ent):
    tags = b.get_tags([ent]).get(ent)
    out = set()
    if tags:
        for k, vs in tags.items():
            for v in (vs if isinstance(vs, list) else [vs]):
                out.add((k, v))
    return out


def acyclic(b):
    edges = {}
    for e in b.session.query(TagEdit).all():
        edges.setdefault(e.parent_id, []).append(e.child_id)
    state = {}

    def visit(x):
        if state.get(x) == 1:
            return False
        if state.get(x) == 2:
            return True
        state[x] = 1
        for y in edges.get(x, []):
            if not visit(y):
                return False
        state[x] = 2
        return True
    return all(visit(x) for x in list(edges))


_backend = [None, 0]


def backend():
    # one backend for many histories: every history uses its own entity ids, and tag rows are keyed by entity
    if _backend[0] is None or _backend[1] >= 400:
        b = RedunBackendDb(db_uri="sqlite:///:memory:")
        with silence():
            b.load()
        _backend[0], _backend[1] = b, 0
    _backend[1] += 1
    return _backend[0]


_hist_no = [0]


def run(hist):
    global n
    b = backend()
    _hist_no[0] += 1
    ren = lambda e: f"h{_hist_no[0]}{e}"
    model = {}
    for step, (ent0, op) in enumerate(hist):
        ent = ren(ent0)
        before = set(model.get(ent, set()))
        apply_model(model, ent, op)
        try:
            apply_real(b, ent, op)
        except Exception as e:
            return dict(history=hist[: step + 1], observed=f"raised {type(e).__name__}: {e}")
        n += 1
        if op[0] != "add" and before != model.get(ent, set()):
            nontrivial.add(tuple(hist[: step + 1]))
        for e2 in {ren(h[0]) for h in hist}:
            got, want = current(b, e2), model.get(e2, set())
            if got != want:
                return dict(history=hist[: step + 1], entity=e2, current_tags=sorted(map(str, got)), model=sorted(map(str, want)))
    if _backend[1] % 50 == 0 or len(hist) >= 5:
        if not acyclic(b):
            return dict(history=hist, observed="the tag-edit graph has a cycle (checked over all histories run on this backend so far)")
    return None


maxlen = int(os.environ.get("C24_LEN", "3"))
for L in range(1, maxlen + 1):
    for ops in itertools.product(OPS, repeat=L):
        w = run([("e1", op) for op in ops])
        if w:
            break
    if w:
        break
if w is None:
    rnd = random.Random(int(os.environ.get("VERIF_SEED", "0")) + 24)
    for _ in range(int(os.environ.get("C24_RANDOM", "120"))):
        hist = [(rnd.choice(["e1", "e2"]), rnd.choice(OPS)) for _ in range(rnd.choice([5, 6, 7]))]
        w = run(hist)
        if w:
            break
    samples.append([f"{e}:{op[0]}:{op[1]}" for e, op in hist])
samples.append(["e1:add:('k1', 1)", "e1:rm:('k1', 1)", "e1:add:('k1', 1)"])
finish(w is not None, witness=w, evaluations=n, distinct=len(nontrivial), samples=samples,
       bound=f"all histories of <= {maxlen} commands from 14 (add / update / rm pair over 2 keys x 2 values, rm key) on one entity; {os.environ.get('C24_RANDOM', '120')} seeded random histories of 5..7 commands on two entities")
