"""C24 bounded check: tag command histories on a real in-memory backend against a reference key-value model."""
import sys, os, itertools, random
sys.path.insert(0, os.path.dirname(os.path.abspath(__file__)))
from common import *
req = read_request()
from redun.backends.db import RedunBackendDb, Tag, TagEdit
from redun.backends.base import TagEntity

MODE = os.environ.get("C24_MODE", "")
KEYS = ["k1", "k2"]
VALS = [1, "x"] if not MODE else [None, 1]          # the null modes use JSON null as a tag value
PAIRS = [(k, v) for k in KEYS for v in VALS]
OPS = [("add", p) for p in PAIRS] + [("update", p) for p in PAIRS] + [("rm", p) for p in PAIRS if not (MODE == "null-ok" and p[1] is None)] + [("rmkey", k) for k in KEYS]
# commands with several arguments, as the tag commands accept them (`redun tag rm ID k1=1 k2="x"`, `redun tag add ID k1=1 k2="x"`, `redun tag rm ID k1=1 k2`)
MULTI = [("add*", (("k1", 1), ("k2", "x"))), ("add*", (("k1", "x"), ("k2", 1))), ("update*", (("k1", 1), ("k2", 1))), ("rm*", (("k1", 1), ("k2", "x"))), ("rm*", (("k1", "x"), ("k2", 1))),
         ("rmmix", (("k1", 1), "k2"))]
n = 0
nontrivial = set()
w = None
samples = []


def apply_model(model, ent, op):
    cur = model.setdefault(ent, set())
    kind, arg = op
    if kind == "add":
        cur.add(arg)
    elif kind == "update":
        model[ent] = {p for p in cur if p[0] != arg[0]} | {arg}
    elif kind == "rm":
        cur.discard(arg)
    elif kind == "rmkey":
        model[ent] = {p for p in cur if p[0] != arg}
    elif kind == "add*":
        cur.update(arg)
    elif kind == "update*":
        model[ent] = {p for p in cur if p[0] not in {a[0] for a in arg}} | set(arg)
    elif kind == "rm*":
        cur.difference_update(arg)
    elif kind == "rmmix":
        model[ent] = {p for p in cur if p != arg[0] and p[0] != arg[1]}


def apply_real(b, ent, op):
    kind, arg = op
    if kind == "add":
        b.record_tags(TagEntity.Value, ent, [arg], new=True)
    elif kind == "update":
        b.record_tags(TagEntity.Value, ent, [arg], update=True)
    elif kind == "rm":
        b.delete_tags(ent, [arg], [])
    elif kind == "rmkey":
        b.delete_tags(ent, [], [arg])
    elif kind == "add*":
        b.record_tags(TagEntity.Value, ent, list(arg), new=True)
    elif kind == "update*":
        b.record_tags(TagEntity.Value, ent, list(arg), update=True)
    elif kind == "rm*":
        b.delete_tags(ent, list(arg), [])
    elif kind == "rmmix":
        b.delete_tags(ent, [arg[0]], [arg[1]])


def current(b, ent):
    tags = b.get_tags([ent]).get(ent)
    out = set()
    if tags:
        for k, vs in tags.items():
            for v in (vs if isinstance(vs, list) else [vs]):
                out.add((k, v))
    return out


def acyclic(b):
    edges = {}
    for e in b.session.query(TagEdit).all():
        edges.setdefault(e.parent_id, []).append(e.child_id)
    state = {}

    def visit(x):
        if state.get(x) == 1:
            return False
        if state.get(x) == 2:
            return True
        state[x] = 1
        for y in edges.get(x, []):
            if not visit(y):
                return False
        state[x] = 2
        return True
    return all(visit(x) for x in list(edges))


_backend = [None, 0]


def backend():
    # one backend for many histories: every history uses its own entity ids, and tag rows are keyed by entity
    if _backend[0] is None or _backend[1] >= 400:
        b = RedunBackendDb(db_uri="sqlite:///:memory:")
        with silence():
            b.load()
        _backend[0], _backend[1] = b, 0
    _backend[1] += 1
    return _backend[0]


_hist_no = [0]


def run(hist):
    global n
    b = backend()
    _hist_no[0] += 1
    ren = lambda e: f"h{_hist_no[0]}{e}"
    model = {}
    for step, (ent0, op) in enumerate(hist):
        ent = ren(ent0)
        before = set(model.get(ent, set()))
        apply_model(model, ent, op)
        try:
            apply_real(b, ent, op)
        except Exception as e:
            return dict(history=hist[: step + 1], observed=f"raised {type(e).__name__}: {e}")
        n += 1
        if op[0] != "add" and before != model.get(ent, set()):
            nontrivial.add(tuple(hist[: step + 1]))
        for e2 in {ren(h[0]) for h in hist}:
            got, want = current(b, e2), model.get(e2, set())
            if got != want:
                return dict(history=hist[: step + 1], entity=e2, current_tags=sorted(map(str, got)), model=sorted(map(str, want)))
    if _backend[1] % 50 == 0 or len(hist) >= 5:
        if not acyclic(b):
            return dict(history=hist, observed="the tag-edit graph has a cycle (checked over all histories run on this backend so far)")
    return None


maxlen = int(os.environ.get("C24_LEN", "3"))
if MODE == "null-rm":
    # removal of a pair whose value is JSON null, in the histories where the pair is current
    maxlen = 0
    for k in KEYS:
        for prefix in ([("add", (k, None))], [("update", (k, None))], [("add", (k, 1)), ("add", (k, None))], [("add", (k, None)), ("rmkey", "k2" if k == "k1" else "k1")]):
            w = w or run([("e1", op) for op in prefix + [("rm", (k, None))]])
    finish(w is not None, witness=w, evaluations=n, distinct=len(nontrivial), samples=[["e1:add:('k1', None)", "e1:rm:('k1', None)"]],
           bound="8 histories that end with the removal of a current pair whose value is JSON null")
for L in range(1, maxlen + 1):
    for ops in itertools.product(OPS, repeat=L):
        w = run([("e1", op) for op in ops])
        if w:
            break
    if w:
        break
# commands with several arguments: after every state reachable by two single adds, and in the random histories
if MODE:
    MULTI = []
if w is None:
    for a1, a2 in itertools.product([o for o in OPS if o[0] == "add"], repeat=2):
        for m in MULTI:
            for tail in [()] + [(o,) for o in OPS if o[0] in ("add", "rm")]:
                w = run([("e1", a1), ("e1", a2), ("e1", m)] + [("e1", t) for t in tail])
                if w:
                    break
            if w:
                break
        if w:
            break
if w is None:
    rnd = random.Random(int(os.environ.get("VERIF_SEED", "0")) + 24)
    for _ in range(int(os.environ.get("C24_RANDOM", "120"))):
        hist = [(rnd.choice(["e1", "e2"]), rnd.choice(OPS + MULTI)) for _ in range(rnd.choice([5, 6, 7]))]
        w = run(hist)
        if w:
            break
    samples.append([f"{e}:{op[0]}:{op[1]}" for e, op in hist])
samples.append(["e1:add:('k1', 1)", "e1:rm:('k1', 1)", "e1:add:('k1', 1)"])
finish(w is not None, witness=w, evaluations=n, distinct=len(nontrivial), samples=samples,
       bound=("JSON null as a value (every command except the removal of a null-valued pair): " if MODE else "") + f"all histories of <= {maxlen} commands from {len(OPS)} (add / update / rm pair over 2 keys x 2 values, rm key) on one entity; 6 commands with several arguments (add / update / rm of two pairs, rm of a pair and a key) after every pair of adds, alone and followed by one add / rm; {os.environ.get('C24_RANDOM', '120')} seeded random histories of 5..7 commands (single and multi-argument) on two entities")
