"""C07 replay / bounded check: the same workflows under different resource limits and completion orders must record the same call graph."""
import sys, os, threading, time
sys.path.insert(0, os.path.dirname(os.path.abspath(__file__)))
from common import *
req = read_request()
from redun import task, Scheduler, Handle
from redun.config import Config
from redun.backends.db import CallNode, Argument, Handle as HandleRow
from redun.executors.base import Executor, register_executor

redun_namespace = "c07"


class Conn(Handle):
    def __init__(self, name, namespace=None):
        pass


@task(limits=["r"])
def use(h, i):
    return i


@task(limits=["r"])
def inc(x):
    return x + 1


@task(limits={"r": 2})
def heavy(x):
    return x * 10


@task()
def share_handle(k):
    h = Conn("h")
    return [use(h, i) for i in range(k)]


@task()
def chain(k):
    x = 0
    for _ in range(k):
        x = inc(x)
    return x


@task()
def mixed():
    h = Conn("m")
    return [use(h, 0), heavy(inc(1)), use(h, 1), inc(5)]


@task()
def one_a():
    return 1


@task()
def one_b():
    return 1


@task()
def dup_f(x):
    return x + 100


@task()
def dup_g(x):
    return x + 200


@task()
def dups():
    # the same calls reached through different expressions: whether the later one meets a finished call (cache) or a running one (collapsed job) is timing
    return [dup_f(1), dup_g(1), dup_f(one_a()), dup_g(one_b())]


@register_executor("c07_ordered")
class OrderedExecutor(Executor):
    """runs task functions inline but reports completions in a controllable order (batches reversed or interleaved)"""
    def __init__(self, name, scheduler=None, config=None):
        super().__init__(name, scheduler=scheduler)
        self.mode = (config or {}).get("mode", "fifo")
        self.waiting = []

    def submit(self, job):
        self.waiting.append(job)
        self._scheduler.events_queue.put(self.flush)

    def flush(self):
        jobs, self.waiting = self.waiting, []
        if self.mode == "reverse":
            jobs = list(reversed(jobs))
        elif self.mode == "interleave":
            jobs = jobs[1::2] + jobs[0::2]
        for job in jobs:
            try:
                result = job.task.func(*job.args[0], **job.args[1])
                self._scheduler.done_job(job, result)
            except Exception as e:
                self._scheduler.reject_job(job, e)


class ManualExecutor(Executor):
    """holds submitted jobs and completes exactly one of them, chosen by a priority list of task names, each time the scheduler is idle"""
    def __init__(self, name, order):
        super().__init__(name)
        self.order, self.waiting = order, []

    def submit(self, job):
        self.waiting.append(job)

    def release_next(self):
        if not self.waiting:
            return
        self.waiting.sort(key=lambda job: self.order.index(job.task.name))
        job = self.waiting.pop(0)
        try:
            self._scheduler.done_job(job, job.task.func(*job.args[0], **job.args[1]))
        except Exception as e:
            self._scheduler.reject_job(job, e)


def run(expr_fn, limit, mode):
    cfg = {"executors.default": {"type": "c07_ordered", "mode": mode}}
    if limit is not None:
        cfg["limits"] = {"r": str(limit)}
    s = quiet_scheduler(cfg)
    if isinstance(mode, tuple):
        # one completion per idle tick of the event loop, in the prescribed priority order
        ex = ManualExecutor("default", ["dups"] + list(mode))
        s.add_executor(ex)
        s.job_status_interval = 0.02
        s.log_job_statuses = ex.release_next
    with silence():
        val = s.run(expr_fn())
    sess = s.backend.session
    return dict(value=val, call_hashes=sorted(c.call_hash for c in sess.query(CallNode).all()), args_hashes=sorted({c.args_hash for c in sess.query(CallNode).all()}),
                handle_states=sorted(h.hash for h in sess.query(HandleRow).all()), argument_values=sorted({a.value_hash for a in sess.query(Argument).all()}))


import signal, itertools


def _alarm(sig, frm):
    raise TimeoutError()


signal.signal(signal.SIGALRM, _alarm)
WORKFLOWS = {"share_handle(3)": lambda: share_handle(3), "chain(3)": lambda: chain(3), "mixed": lambda: mixed(), "share_handle(2)": lambda: share_handle(2), "dups": lambda: dups()}
n = 0
w = None
samples = []
for name, fn in WORKFLOWS.items():
    ref = None
    perms = list(itertools.permutations(["one_a", "one_b", "dup_f", "dup_g"])) if name == "dups" else []
    if os.environ.get("VERIF_TIER", "quick") != "thorough":
        perms = perms[::4]
    for limit in (3, 2, 1, None):
        for mode in ("fifo", "reverse", "interleave") + (tuple(perms) if limit == 3 else ()):
            if name == "mixed" and limit in (1, None):
                continue    # heavy needs two units
            n += 1
            try:
                signal.alarm(60)
                got = run(fn, limit, mode)
                signal.alarm(0)
            except TimeoutError:
                w = dict(workflow=name, limit=limit, order=mode, observed="the execution did not finish within 60 s")
                break
            except Exception as e:
                signal.alarm(0)
                w = dict(workflow=name, limit=limit, order=mode, observed=f"raised {type(e).__name__}: {e}")
                break
            if ref is None:
                ref = (limit, mode, got)
                continue
            for key in ("value", "call_hashes", "args_hashes", "handle_states", "argument_values"):
                if got[key] != ref[2][key]:
                    w = dict(workflow=name, differs=key, configuration=dict(limit=limit, order=mode), reference=dict(limit=ref[0], order=ref[1]),
                             here=[str(x)[:10] for x in got[key]] if isinstance(got[key], list) else got[key],
                             there=[str(x)[:10] for x in ref[2][key]] if isinstance(ref[2][key], list) else ref[2][key])
                    break
            if w:
                break
        if w:
            break
    if w:
        break
    samples.append(dict(workflow=name, call_nodes=len(ref[2]["call_hashes"]), handle_states=len(ref[2]["handle_states"])))
finish(w is not None, witness=w, evaluations=n, samples=samples,
       bound="5 workflows (fan-out over a shared handle, a chain, mixed limits, equal calls reached through different expressions) x limits {3, 2, 1, not configured (= 1)} x completion orders {fifo, reversed, interleaved} on a controllable in-process executor; the duplicate-call workflow also under 6 (thorough: 24) one-at-a-time completion orders")
