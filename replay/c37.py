"""C37 replay / bounded check: all define / redefine / rename / wrap sequences up to a bound on the real TaskRegistry."""
import sys, os, itertools
sys.path.insert(0, os.path.dirname(os.path.abspath(__file__)))
from common import *
req = read_request()
from redun.task import Task, TaskRegistry, wraps_task, task as task_deco, get_task_registry
RT = sys.modules["redun.task"]


def mk(name, ns, body):
    src = f"def {name}():\n    return {body}\n"
    env = {}
    exec(src, env)
    f = env[name]
    t = Task(f, name=name, namespace=ns, source=src)
    return t


def check_inv(reg):
    held = {}
    for n, t in reg._tasks.items():
        if t.fullname != n:
            return f"task stored under {n!r} has fullname {t.fullname!r}"
        held[t.hash] = held.get(t.hash, 0) + 1
    try:
        hs = reg.task_hashes
    except AssertionError as e:
        return f"task_hashes assertion failed: {e}"
    if hs != set(held):
        return f"task_hashes {sorted(hs)} != hashes of held tasks {sorted(held)}"
    if dict(reg._task_hash_counts) != held:
        return f"hash counts {dict(reg._task_hash_counts)} != histogram {held}"
    return None


def sequences(depth):
    names = ["a", "b"]
    spaces = ["", "n"]
    bodies = [1, 2]
    ops = [("add", n, s, b) for n in names for s in spaces for b in bodies] + [("rename", n, s, s2, n2) for n in names for s in spaces for s2 in ["n", "m"] for n2 in ["a", "c"]]
    for d in range(1, depth + 1):
        yield from itertools.product(ops, repeat=d)


def run_sequences(depth):
    count = 0
    for seq in sequences(depth):
        reg = TaskRegistry()
        for op in seq:
            count += 1
            if op[0] == "add":
                reg.add(mk(op[1], op[2], op[3]))
            else:
                old = Task._format_fullname(op[2], op[1])
                if old not in reg._tasks:
                    continue
                t = reg.rename(old, op[3], op[4])
                if reg._tasks.get(Task._format_fullname(op[3], op[4])) is not t:
                    return dict(sequence=seq, observed="renamed task not found under its new full name"), count
            err = check_inv(reg)
            if err:
                return dict(sequence=seq, observed=err), count
    return None, count


def wrap_chain():
    """wraps_task: visible name kept by the wrapper, inner task moved to <ns>.<wrapper>.<name>, nested twice"""
    saved = RT._task_registry
    RT._task_registry = TaskRegistry()
    try:
        def deco(label):
            @wraps_task(wrapper_name=label)
            def w(inner):
                def f(*a, **k):
                    return inner.func(*a, **k)
                return f
            return w

        def base(x):
            return x
        t0 = task_deco(name="f", namespace="ns")(base)
        t1 = deco("w1")(t0)
        reg = get_task_registry()
        if reg.get("ns.f") is not t1 or reg.get("ns.w1.f") is not t0:
            return dict(observed=f"after one wrap: registry names {sorted(reg._tasks)}")
        t2 = deco("w2")(t1)
        names = sorted(reg._tasks)
        if reg.get("ns.f") is not t2 or t0.fullname not in reg._tasks or t1.fullname not in reg._tasks or len(names) != 3:
            return dict(observed=f"after two wraps: registry names {names}, t0={t0.fullname}, t1={t1.fullname}")
        err = check_inv(reg)
        if err:
            return dict(observed="after wraps: " + err)
    finally:
        RT._task_registry = saved
    return None


depth = int(os.environ.get("C37_DEPTH", "3"))
w, n = run_sequences(depth)
if w is None:
    w = wrap_chain()
finish(w is not None, witness=w, evaluations=n, bound=f"all op sequences of length <= {depth} over 2 names x 2 namespaces x 2 bodies (add) and renames; plus a doubly nested wraps_task chain")
