"""C15 replay / bounded check: generated task signatures (positional-only, positional, variadic, keyword-only, **kwargs,
config args) and argument assignments; the real hash_args_eval must separate calls that differ in a non-config argument
and identify calls that differ only in config values, keyword order, explicit defaults or JobInfo placeholders."""
import sys, os, itertools, inspect
sys.path.insert(0, os.path.dirname(os.path.abspath(__file__)))
from common import *
req = read_request()
from redun.task import Task, hash_args_eval
from redun.value import get_type_registry
from redun.scheduler import get_arg_defaults, JobInfo
from redun.hashing import hash_struct

reg = get_type_registry()
SIGS = [
    "a, b=2, c=3", "a, /, b, c=3", "a, /, b=2, *, c=3", "a, *rest, c=3", "a, b=2, *rest", "a, b=2, **kw", "*, a, b=2, c=3", "a, /, *rest, c=3, **kw",
]
n = 0
w = None


def mk(sig, config):
    env = {}
    exec(f"def f({sig}):\n    return 0\n", env)
    return Task(env["f"], name="f", namespace="c15replay", version="1", source="x", task_options_base={"config_args": config})


def key(task, args, kwargs):
    kw = {**get_arg_defaults(task, args, kwargs), **kwargs}
    return hash_args_eval(reg, task, args, kw)[0]


def bound(task, args, kwargs):
    ba = inspect.signature(task.func).bind(*args, **kwargs)
    ba.apply_defaults()
    return dict(ba.arguments)


for sig in SIGS:
    names = [p for p in inspect.signature(mk(sig, []).func).parameters]
    for config in [[], [names[-1]], [names[1]] if len(names) > 1 else [], ["c"], ["b"]]:
        if any(c not in names for c in config):
            continue
        task = mk(sig, config)
        params = inspect.signature(task.func).parameters
        calls = []
        for args, kwargs in [((1, 5), {}), ((1, 6), {}), ((1,), {"c": 7}), ((1,), {"c": 8}), ((1, 5, 9), {}), ((1, 5, 10), {}), ((), {"a": 1, "b": 5}), ((), {"b": 5, "a": 1}),
                             ((1,), {"b": 2}), ((1,), {}), ((1, 2), {}), ((1,), {"c": 3}), ((1, 5), {"c": JobInfo()}), ((1, 5), {"c": 3})]:
            try:
                b = bound(task, args, kwargs)
            except TypeError:
                continue
            calls.append((args, kwargs, b))
        for (a1, k1, b1), (a2, k2, b2) in itertools.combinations(calls, 2):
            n += 1
            def shape(args, kwargs, b):
                """reference: positional values bound to kept positional parameters + kept variadic tail; keyword view = explicit
                keywords plus defaults of unbound parameters (a defaulted parameter passed by keyword with its default is the same call)"""
                posnames = [nm for nm, p in params.items() if p.kind in (inspect.Parameter.POSITIONAL_ONLY, inspect.Parameter.POSITIONAL_OR_KEYWORD)]
                varname = next((nm for nm, p in params.items() if p.kind == inspect.Parameter.VAR_POSITIONAL), None)
                pos = [v for nm, v in zip(posnames, args) if nm not in config and not isinstance(v, JobInfo)]
                if varname not in config:
                    pos += list(args[len(posnames):])
                bound_pos = set(posnames[: len(args)])
                kw = {nm: p.default for nm, p in params.items() if p.default is not p.empty and nm not in bound_pos and nm not in kwargs}
                kw.update(kwargs)
                kw = {k_: v for k_, v in kw.items() if k_ not in config and not isinstance(v, JobInfo)}
                return (tuple(pos), tuple(sorted(kw.items())))
            same_expected = shape(a1, k1, b1) == shape(a2, k2, b2)
            jobinfo_involved = any(isinstance(v, JobInfo) for v in list(b1.values()) + list(b2.values()))
            h1, h2 = key(task, a1, k1), key(task, a2, k2)
            if same_expected and h1 != h2 and not jobinfo_involved:
                w = dict(check="calls that differ only in config values / keyword order / explicit defaults must share the key", signature=sig, config_args=config, call1=[a1, k1], call2=[a2, k2])
            if not same_expected and h1 == h2 and not jobinfo_involved:
                w = dict(check="calls that differ in a non-config argument must get different keys", signature=sig, config_args=config, call1=[a1, k1], call2=[a2, k2], bound1=repr(b1), bound2=repr(b2))
            if w:
                break
        if w:
            break
    if w:
        break
if w is None:
    n += 1
    tags = set()
    import redun.hashing as Hm
    if Hm.hash_eval(reg, "t", [1], {})[0] == Hm.hash_call_node("t", Hm.hash_arguments(reg, [1], {}), "r", []):
        w = dict(check="record kinds must not collide")
finish(w is not None, witness=w, evaluations=n, bound="8 signature shapes x 5 config-arg choices x all pairs of 14 calls")
