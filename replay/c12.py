"""C12 replay: failing leaves at several depths / inside containers; run() must raise the same type+message,
failing job and ancestors recorded FAILED, and a second execution must execute the failing task again."""
import sys, os
sys.path.insert(0, os.path.dirname(os.path.abspath(__file__)))
from common import *
req = read_request()
from redun import task
from redun.backends.db import Job as DbJob
ns = "c12replay"
counter = {"n": 0}


@task(namespace=ns)
def boom(msg):
    counter["n"] += 1
    raise ValueError(msg)


@task(namespace=ns)
def mid(msg, depth):
    if depth == 0:
        return boom(msg)
    return [1, mid(msg, depth - 1)]


@task(namespace=ns)
def ok(x):
    return x


@task(namespace=ns)
def top(msg, depth):
    return {"a": ok(1), "b": mid(msg, depth)}


w = None
n = 0
for depth in (0, 1, 2):
    s = quiet_scheduler()
    for attempt in (1, 2):
        n += 1
        before = counter["n"]
        err = None
        try:
            with silence():
                s.run(top(f"m{depth}", depth))
        except BaseException as e:
            err = e
        if not isinstance(err, ValueError) or str(err) != f"m{depth}":
            w = dict(depth=depth, attempt=attempt, observed=f"run raised {type(err).__name__}: {err}")
            break
        if counter["n"] != before + 1:
            w = dict(depth=depth, attempt=attempt, observed=f"failing task executed {counter['n'] - before} times in this execution (expected 1: failures are never replayed from the backend cache)")
            break
        jobs = s.backend.session.query(DbJob).all()
        exec_id = max(jobs, key=lambda j: j.start_time).execution_id
        statuses = {j.task.fullname: j.status for j in jobs if j.execution_id == exec_id}
        bad = {k: v for k, v in statuses.items() if k.split(".")[-1] in ("boom", "mid", "top") and v != "FAILED"}
        if bad:
            w = dict(depth=depth, attempt=attempt, observed=f"jobs on the failing path not recorded FAILED: {bad}")
            break
    if w:
        break
if w is None:
    import threading

    class Unpicklable(Exception):
        def __init__(self, msg):
            super().__init__(msg)
            self.lock = threading.Lock()

    @task(namespace=ns)
    def boom2():
        raise Unpicklable("locked")

    @task(namespace=ns)
    def top2():
        return [boom2()]

    s = quiet_scheduler()
    n += 1
    err = None
    try:
        with silence():
            s.run(top2())
    except BaseException as e:
        err = e
    if type(err).__name__ != "Unpicklable" or str(err) != "locked":
        w = dict(scenario="task raises an exception whose payload cannot be pickled", observed=f"run raised {type(err).__name__}: {err}")
    else:
        jobs = s.backend.session.query(DbJob).all()
        bad = {j.task.fullname: j.status for j in jobs if j.task.fullname.split(".")[-1] in ("boom2", "top2") and j.status != "FAILED"}
        if bad:
            w = dict(scenario="unpicklable error", observed=f"jobs on the failing path not recorded FAILED: {bad}")
if w is None:
    # one failing expression used several times in one job: guarding one use (catch) must not swallow the failure of the others
    from redun.scheduler import catch

    @task(namespace=ns)
    def recover(err):
        return "recovered"

    @task(namespace=ns)
    def pair(a, b):
        return [a, b]

    def shapes(x):
        return {"[x, x]": lambda: [x, x], "pair(x, x)": lambda: pair(x, x), "[catch(x), x]": lambda: [catch(x, ValueError, recover), x],
                "[x, catch(x)]": lambda: [x, catch(x, ValueError, recover)], "pair(catch(x), x)": lambda: pair(catch(x, ValueError, recover), x),
                "[catch(x), catch(x)]": lambda: [catch(x, ValueError, recover), catch(x, ValueError, recover)]}

    for label in list(shapes(None)):
        @task(namespace=ns, name="dup_" + str(abs(hash(label)) % 10**6))
        def dup_main(label=label):
            x = boom("dup")
            return shapes(x)[label]()
        s = quiet_scheduler()
        n += 1
        err, res = None, None
        try:
            with silence():
                res = s.run(dup_main())
        except BaseException as e:
            err = e
        all_guarded = label == "[catch(x), catch(x)]"
        if all_guarded:
            if err is not None or res != ["recovered", "recovered"]:
                w = dict(scenario=label, observed=f"expected ['recovered', 'recovered'], got {res!r} / {type(err).__name__}: {err}")
                break
        elif not isinstance(err, ValueError) or str(err) != "dup":
            w = dict(scenario="a failing expression used twice in one job: " + label, observed=f"run returned {res!r} / raised {type(err).__name__}: {err}", expected="ValueError: dup")
            break
finish(w is not None, witness=w, evaluations=n, bound="failing leaf at depth 0..2 inside dict/list containers, two executions each; an unpicklable error; 6 shapes of a failing expression used twice in one job with and without catch")
