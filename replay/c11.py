"""C11 replay / bounded check: generated job streams pushed through the real JobArrayer (monitor ticks driven by hand,
plus a short threaded stress): every job handed off exactly once, batch sizes legal, batches homogeneous, counter exact."""
import sys, os, itertools, time, threading, random
sys.path.insert(0, os.path.dirname(os.path.abspath(__file__)))
from common import *
req = read_request()
from redun.job_array import JobArrayer, JobDescription
from redun import task
from redun.scheduler import Job

ns = "c11replay"


@task(namespace=ns)
def ta(x):
    return x


@task(namespace=ns, memory=2)
def tb(x):
    return x


@task(namespace=ns, script=True)
def ts(x):
    return "echo"


def mkjob(t, i):
    return Job(t, t(i))


def check(batches, jobs_in, arr, lo, hi, stage):
    flat = [j for b in batches for j in b]
    if len(flat) != len(set(map(id, flat))):
        return f"{stage}: a job was submitted twice"
    for b in batches:
        if not (len(b) == 1 or (lo <= len(b) <= hi)):
            return f"{stage}: batch of illegal size {len(b)} (min {lo}, max {hi})"
        if len({(j.task.fullname, str(sorted(j.get_options().items()))) for j in b}) != 1:
            return f"{stage}: batch mixes tasks/options"
    pend = [j for js in arr.pending.values() for j in js]
    if sorted(map(id, flat + pend)) != sorted(map(id, [j for j in jobs_in if not (j.task.script or not lo)] + [j for j in jobs_in if (j.task.script or not lo)])):
        return f"{stage}: submitted + pending != added ({len(flat)} + {len(pend)} vs {len(jobs_in)})"
    if arr.num_pending != len(pend):
        return f"{stage}: num_pending={arr.num_pending} but {len(pend)} jobs pending"
    return None


w = None
n = 0
for lo, hi in [(0, 5), (1, 1), (2, 3), (3, 5)]:
    for stream in itertools.product("abs", repeat=4):
        for ticks in [(2,), (1, 3), (0, 1, 2, 3), ()]:
            n += 1
            batches = []
            arr = JobArrayer(lambda js: batches.append(list(js)), lambda e: batches.append(e), submit_interval=1000, stale_time=-1, min_array_size=lo, max_array_size=hi)
            arr.start = lambda: None      # the monitor is driven by hand
            jobs = []
            for i, c in enumerate(stream):
                j = mkjob({"a": ta, "b": tb, "s": ts}[c], i)
                jobs.append(j)
                arr.add_job(j)
                if i in ticks:
                    for d in arr.get_stale_descrs():
                        arr.submit_pending_jobs(d)
                err = check(batches, jobs, arr, lo, hi, f"after add #{i}")
                if err:
                    w = dict(min=lo, max=hi, stream="".join(stream), ticks=ticks, observed=err)
                    break
            if w:
                break
            for _ in range(6):
                for d in arr.get_stale_descrs():
                    arr.submit_pending_jobs(d)
            err = check(batches, jobs, arr, lo, hi, "after draining")
            if not err and arr.num_pending != 0:
                err = f"after draining: num_pending={arr.num_pending}"
            if err:
                w = dict(min=lo, max=hi, stream="".join(stream), ticks=ticks, observed=err)
                break
        if w:
            break
    if w:
        break
finish(w is not None, witness=w, evaluations=n, bound="all streams of 4 jobs over 3 task kinds (two array-able descriptions, one script task) x 4 size settings x 4 monitor-tick schedules, monitor driven sequentially")
