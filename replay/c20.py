"""C20 replay / bounded check: whole recorded call graphs of generated workflows against the observed job tree."""
import sys, os, itertools
sys.path.insert(0, os.path.dirname(os.path.abspath(__file__)))
from common import *
req = read_request()
from redun import task, Scheduler
from redun.scheduler import catch, apply_tags, Job as SJob
import hashlib


def _benc(x):
    if isinstance(x, str):
        b = x.encode("utf8")
        return str(len(b)).encode() + b":" + b
    if isinstance(x, list):
        return b"l" + b"".join(_benc(i) for i in x) + b"e"
    raise TypeError(x)


def hash_call_node(task_hash, args_hash, result_hash, children):
    """independent re-computation: sha512 over the canonical (bencode) form of ['CallNode', task, args, result, sorted(children)], 40 hex digits"""
    return hashlib.sha512(_benc(["CallNode", task_hash, args_hash, result_hash, sorted(children)])).hexdigest()[:40]
from redun.backends.db import CallNode, CallEdge, Job, Execution, Value, Tag, Argument
from redun.value import get_type_registry
from redun.backends.base import TagEntity

NS = "c20"
n = 0
w = None
samples = []


@task(namespace=NS)
def leaf(x):
    return x + 1


@task(namespace=NS)
def add(a, b):
    return a + b


@task(namespace=NS)
def boom(x):
    raise ValueError("boom %r" % (x,))


@task(namespace=NS)
def recover(err):
    return -1


@task(namespace=NS)
def fan(k):
    return [leaf(i) for i in range(k)] + [leaf(0)]


@task(namespace=NS)
def nest(d):
    if d == 0:
        return leaf(d)
    return add(nest(d - 1), leaf(d))


@task(namespace=NS)
def guarded(x):
    return catch(boom(x), ValueError, recover)


@task(namespace=NS, prov=False)
def hidden(x):
    return leaf(x + 100)


@task(namespace=NS)
def with_hidden(x):
    return add(hidden(x), leaf(x))


@task(namespace=NS, tags=[("kind", "tagged-task")])
def tagged(x):
    v = apply_tags(x * 2, [("vtag", "on-value")], job_tags=[("jtag", "on-job")], execution_tags=[("etag", "on-exec")])
    return v


@task(namespace=NS)
def outer_fail(x):
    return add(leaf(x), boom(x))


@task(namespace=NS)
def one():
    return 1


@task(namespace=NS)
def twins():
    # two child jobs with one call hash, reached through different expressions
    return [leaf(1), leaf(one())]


@task(namespace=NS)
def tagged_twice():
    # the same tagged call through two different expressions: the second job is served with a known call hash
    return [leaf.options(tags=[("otag", "from-options")])(9), leaf.options(tags=[("otag", "from-options")])(add(4, 5))]


WORKFLOWS = [
    ("twins", lambda: twins(), False),
    ("tagged-twice", lambda: tagged_twice(), False),
    ("leaf", lambda: leaf(1), False),
    ("nest3", lambda: nest(3), False),
    ("fan3", lambda: fan(3), False),
    ("guarded", lambda: guarded(5), False),
    ("with_hidden", lambda: with_hidden(2), False),
    ("tagged", lambda: tagged(4), False),
    ("options-tags", lambda: leaf.options(tags=[("otag", "from-options")])(9), False),
    ("outer_fail", lambda: outer_fail(3), True),
    ("nest3-again(cached)", lambda: nest(3), False),
    ("fan2-after-fan3", lambda: fan(2), False),
]


def check_graph(s, finished, label):
    """compare the backend's rows with the jobs observed at finalisation time"""
    sess = s.backend.session
    reg = get_type_registry()
    nodes = {c.call_hash: c for c in sess.query(CallNode).all()}
    edges = {}
    for e in sess.query(CallEdge).all():
        edges.setdefault(e.parent_id, []).append(e)
    jobs = {j.id: j for j in sess.query(Job).all()}
    for rec in finished:
        if not rec["prov"]:
            continue
        jid, ch = rec["id"], rec["call_hash"]
        if ch is None or ch not in nodes:
            return dict(case=label, job=rec["name"], observed="a job that finished with provenance has no call node", call_hash=ch)
        c = nodes[ch]
        if c.task_hash != rec["task_hash"] or c.args_hash != rec["args_hash"]:
            return dict(case=label, job=rec["name"], observed="call node task/args hash differ from the job's", row=(c.task_hash, c.args_hash), job_hashes=(rec["task_hash"], rec["args_hash"]))
        if not rec["cached"]:
            expect = hash_call_node(c.task_hash, c.args_hash, c.value_hash, rec["children"])
            if expect != ch:
                return dict(case=label, job=rec["name"], observed="call hash is not the hash of (task hash, args hash, result hash, sorted child call hashes)", call_hash=ch, recomputed=expect)
            es = sorted(edges.get(ch, []), key=lambda e: e.call_order)
            want = [(i, h) for i, h in enumerate(rec["children"]) if h in nodes]
            # a call node recorded by an earlier identical call keeps the edges of that recording (same hash => same children multiset)
            first = not any(r2["call_hash"] == ch for r2 in finished if r2 is not rec and finished.index(r2) < finished.index(rec))
            if first and len(set(rec["children"])) == len(rec["children"]) and [(e.call_order, e.child_id) for e in es] != want:
                return dict(case=label, job=rec["name"], observed="child edges are not (position in the child list, child call hash)", edges=[(e.call_order, e.child_id[:8]) for e in es], children=[(i, h[:8]) for i, h in want])
            if sorted(e.child_id for e in es) != sorted(h for _, h in want):
                return dict(case=label, job=rec["name"], observed="child edges do not mirror the recorded children", edges=[(e.call_order, e.child_id[:8]) for e in es], children=[(i, h[:8]) for i, h in want])
        j = jobs.get(jid)
        if j is None:
            return dict(case=label, job=rec["name"], observed="no job row")
        if j.call_hash != ch or j.parent_id != rec["parent"] or j.task_hash != rec["task_hash"] or j.end_time is None:
            return dict(case=label, job=rec["name"], observed="job row does not mirror the job", row=(j.call_hash, j.parent_id), expected=(ch, rec["parent"]))
    for ex in sess.query(Execution).all():
        roots = [r for r in finished if r["parent"] is None and r["exec"] == ex.id]
        if roots and ex.job_id != roots[0]["id"]:
            return dict(case=label, observed="execution root job is not the parentless job", execution=ex.id, job_id=ex.job_id, root=roots[0]["id"])
    for v in sess.query(Value).all():
        val, ok = s.backend.get_value(v.value_hash)
        if not ok:
            continue
        try:
            h = reg.get_hash(val)
        except Exception:
            continue
        if h != v.value_hash and not type(val).__name__.startswith("Error"):
            return dict(case=label, observed="a recorded value deserialises to a value with another hash", key=v.value_hash, value=repr(val)[:60], hash=h)
    return None


def check_tags(s, finished):
    sess = s.backend.session
    tags = [(t.entity_type, t.entity_id, t.key, t.value) for t in sess.query(Tag).filter(Tag.is_current.is_(True)).all()]
    reg = get_type_registry()
    by_name = {}
    for r in finished:
        by_name.setdefault(r["name"], []).append(r)
    tj = by_name.get(f"{NS}.tagged", [])
    if tj:
        r = tj[0]
        want = [(TagEntity.Value, reg.get_hash(8), "vtag", "on-value"), (TagEntity.Job, r["id"], "jtag", "on-job"), (TagEntity.Execution, r["exec"], "etag", "on-exec"),
                (TagEntity.Task, r["task_hash"], "kind", "tagged-task")]
        for wnt in want:
            if wnt not in tags:
                return dict(case="tags", observed="tag not attached to the intended entity", expected=repr(wnt), similar=[repr(t) for t in tags if t[2] == wnt[2]])
    oj = [r for r in by_name.get(f"{NS}.leaf", []) if r.get("opt_tags")]
    for r in oj:
        if (TagEntity.Job, r["id"], "otag", "from-options") not in tags:
            return dict(case="tags", observed="call-time tags option not attached to the job", job=r["id"])
    return None


def run_all(order):
    global n, w
    s = quiet_scheduler()
    finished = []
    orig_resolve, orig_reject = SJob.resolve, SJob.reject

    def note(job):
        # observed just before the job's state is cleared (Job.resolve / Job.reject end with Job.clear)
        finished.append(dict(id=job.id, name=job.task.fullname, call_hash=job.call_hash, task_hash=job.task.hash, args_hash=job.args_hash,
                             children=[c.call_hash for c in job.child_jobs if c.call_hash], parent=job.parent_job.id if job.parent_job else None,
                             prov=job.recording_provenance(), cached=job.was_cached, exec=job.execution.id if job.execution else None,
                             opt_tags=bool(job.get_option("tags", []))))

    def spy_resolve(self, result):
        note(self)
        return orig_resolve(self, result)

    def spy_reject(self, error):
        note(self)
        return orig_reject(self, error)
    SJob.resolve, SJob.reject = spy_resolve, spy_reject
    try:
        for idx in order:
            label, mk, fails = WORKFLOWS[idx]
            n += 1
            try:
                with silence():
                    s.run(mk())
                if fails:
                    return dict(case=label, observed="expected the workflow to raise")
            except ValueError:
                if not fails:
                    return dict(case=label, observed="workflow raised unexpectedly")
            bad = check_graph(s, finished, label)
            if bad:
                return bad
        return check_tags(s, finished)
    finally:
        SJob.resolve, SJob.reject = orig_resolve, orig_reject


orders = [list(range(len(WORKFLOWS))), [10, 3, 4, 11, 5, 9, 6, 7, 8, 2, 0, 1], [9, 5, 1, 6, 2, 3, 10, 7, 8, 4, 11, 0]]
for o in orders:
    w = run_all(o)
    if w:
        break
    samples.append(dict(order=o))
finish(w is not None, witness=w, evaluations=n, samples=samples[:2],
       bound="12 workflows (two children with one call hash, a tagged call served twice, leaf, nesting depth 3, fan-out with a duplicate call, failure under catch, no-provenance subtree, value/job/execution/task tags, tags option, failing run, cached re-run) "
             "in 3 orders on one in-memory backend each; graph compared with the jobs observed at finalisation")
