"""C21 replay / bounded check: generated dataflow programs through the real scheduler and backend; the Argument / ArgumentResult rows of the
consuming call are compared with a reference dataflow computed from the program text.  Every program is run twice, the second time after
redefining a producer task, so that the consumer's argument expressions come back from the cache (unpickled)."""
import sys, os, itertools, collections, logging
sys.path.insert(0, os.path.dirname(os.path.abspath(__file__)))
from common import *
req = read_request()
from redun import task, cond, Scheduler
from redun.backends.db import CallNode
from redun.config import Config

logging.getLogger("redun").setLevel(logging.CRITICAL)
NT = collections.namedtuple("NT", ["x", "y"])
NS = "c21"
PA = [10]


def define_pa(value, version):
    @task(name="pa", namespace=NS, version=version)
    def pa():
        return value
    return pa


pa = define_pa(10, "1")


@task(name="pb", namespace=NS)
def pb():
    return 3


@task(name="pc", namespace=NS)
def pc():
    return {"k": 5, "l": [6, 7]}


@task(name="pt", namespace=NS)
def pt():
    return NT(1, 2)


@task(name="pred", namespace=NS)
def pred(b):
    return b


@task(name="use", namespace=NS)
def use(x, y=0, d=7):
    return {"x": x, "y": y, "d": d}


# ---- a small term language: (kind, ...) ; build(t) gives the redun expression, val(t, a) its value, ups(t) the reference upstream task names
VALS = {"pb": 3, "pc": {"k": 5, "l": [6, 7]}, "pt": NT(1, 2)}
TASKS = {"pa": lambda: pa, "pb": lambda: pb, "pc": lambda: pc, "pt": lambda: pt}


def build(t):
    k = t[0]
    if k == "P":
        return TASKS[t[1]]()()
    if k == "C":
        return t[1]
    if k == "item":
        return build(t[1])[t[2]]
    if k == "attr":
        return getattr(build(t[1]), t[2])
    if k == "add":
        return build(t[1]) + build(t[2])
    if k == "list":
        return [build(x) for x in t[1:]]
    if k == "dict":
        return {"z": build(t[1])}
    if k == "tuple":
        return (build(t[1]), build(t[2]))
    if k == "cond":
        return cond(pred(t[1]), build(t[2]), build(t[3]))
    raise ValueError(t)


def val(t, a):
    k = t[0]
    if k == "P":
        return a if t[1] == "pa" else VALS[t[1]]
    if k == "C":
        return t[1]
    if k == "item":
        return val(t[1], a)[t[2]]
    if k == "attr":
        return getattr(val(t[1], a), t[2])
    if k == "add":
        return val(t[1], a) + val(t[2], a)
    if k == "list":
        return [val(x, a) for x in t[1:]]
    if k == "dict":
        return {"z": val(t[1], a)}
    if k == "tuple":
        return (val(t[1], a), val(t[2], a))
    if k == "cond":
        return val(t[2], a) if t[1] else val(t[3], a)


def ups(t):
    k = t[0]
    if k == "P":
        return {NS + "." + t[1]}
    if k == "C":
        return set()
    if k in ("item", "attr", "dict"):
        return ups(t[1])
    if k in ("add", "tuple"):
        return ups(t[1]) | ups(t[2])
    if k == "list":
        return set().union(*[ups(x) for x in t[1:]])
    if k == "cond":
        return {NS + ".pred"} | (ups(t[2]) if t[1] else ups(t[3]))


def uses_pa(t):
    return NS + ".pa" in ups(t)


A, B, Cc, Tt = ("P", "pa"), ("P", "pb"), ("P", "pc"), ("P", "pt")
ATOMS = [A, B, ("item", Cc, "k"), ("attr", Tt, "x"), ("C", 4)]
LEVEL1 = ATOMS + [("add", A, B), ("add", A, ("C", 1)), ("add", ("item", Cc, "k"), A), ("list", A, B), ("list", A, A), ("dict", A), ("tuple", ("attr", Tt, "y"), A),
                  ("cond", True, A, B), ("cond", False, A, B), ("cond", False, B, A), ("list", A, ("cond", False, A, B)), ("list", ("cond", False, A, B), A),
                  ("list", ("cond", True, ("add", A, B), ("C", 0)), ("dict", ("item", Cc, "k"))), ("add", ("cond", True, A, B), ("attr", Tt, "x")),
                  ("cond", True, ("list", A, ("dict", B)), ("C", 0)), ("item", ("cond", True, Cc, Cc), "k"), ("list", ("item", Cc, "l"), ("add", A, A))]
SHAPES = ["x", "x,y", "x,y=", "x=,y=", "y=,x="]
n = 0
w = None
samples = []
counter = itertools.count()


def expected_rows(shape, tx, ty, a):
    rows = {}
    if shape == "x":
        rows[(0, None)] = (val(tx, a), ups(tx))
        rows[(None, "y")] = (0, set())
    elif shape == "x,y":
        rows[(0, None)] = (val(tx, a), ups(tx))
        rows[(1, None)] = (val(ty, a), ups(ty))
    elif shape == "x,y=":
        rows[(0, None)] = (val(tx, a), ups(tx))
        rows[(None, "y")] = (val(ty, a), ups(ty))
    else:       # both as keywords, written in either order
        rows[(None, "x")] = (val(tx, a), ups(tx))
        rows[(None, "y")] = (val(ty, a), ups(ty))
    rows[(None, "d")] = (7, set())     # the defaulted parameter: recorded as a keyword argument
    return rows


def call_use(shape, tx, ty):
    if shape == "x":
        return use(build(tx))
    if shape == "x,y":
        return use(build(tx), build(ty))
    if shape == "x,y=":
        return use(build(tx), y=build(ty))
    if shape == "y=,x=":
        return use(y=build(ty), x=build(tx))      # keywords written in non-alphabetical order
    return use(x=build(tx), y=build(ty))


def observe(session, result):
    nodes = [nd for nd in session.query(CallNode).filter(CallNode.task_name == NS + ".use").all() if nd.value.value_parsed == result]
    if len(nodes) != 1:
        return None
    return {(arg.arg_position, arg.arg_key): (arg.value_parsed, {u.task_name for u in arg.upstream}) for arg in nodes[0].arguments}


def check(session, shape, tx, ty, a, run):
    want = expected_rows(shape, tx, ty, a)
    result = {"x": want.get((0, None), want.get((None, "x")))[0], "y": want.get((1, None), want.get((None, "y")))[0], "d": 7}
    got = observe(session, result)
    prog = f"use({shape}) with x = {tx}" + (f", y = {ty}" if shape != "x" else "")
    if got is None:
        return dict(program=prog, run=run, observed="no single call node of the consumer with the expected result")
    if set(got) != set(want):
        return dict(program=prog, run=run, observed="the recorded arguments (position, key) differ", got=sorted(map(str, got)), expected=sorted(map(str, want)))
    for k in want:
        if got[k][0] != want[k][0]:
            return dict(program=prog, run=run, observed=f"argument {k}: recorded value differs from the value the task received", got=repr(got[k][0]), expected=repr(want[k][0]))
        if got[k][1] != want[k][1]:
            return dict(program=prog, run=run, observed=f"argument {k}: upstream call nodes differ from the reference dataflow", got=sorted(got[k][1]), expected=sorted(want[k][1]))
    return None


if os.environ.get("C21_DEEP"):
    # thorough tier: every pair of level-1 terms combined by a list, an operator (where both are numbers) and cond
    numeric = [t for t in LEVEL1 if isinstance(val(t, 10), int) and not isinstance(val(t, 10), bool)]
    LEVEL1 = LEVEL1 + [("list", a, b) for a in LEVEL1 for b in LEVEL1[::3]] + [("add", a, b) for a in numeric for b in numeric] + [("cond", flag, a, b) for flag in (True, False) for a in LEVEL1[::2] for b in LEVEL1[1::4]]
programs = [("x", tx, None) for tx in LEVEL1] + [(sh, tx, ty) for sh in SHAPES[1:] for tx, ty in [(A, B), (("add", A, B), ("cond", False, A, B)), (("item", Cc, "k"), ("list", A, A)),
                                                                                               (("cond", True, A, B), ("dict", A)), (("C", 1), A)]]
for shape, tx, ty in programs:
    if w:
        break
    n += 1
    i = next(counter)
    pa = define_pa(10, "1")

    @task(name=f"main{i}", namespace=NS)
    def main(shape=shape, tx=tx, ty=ty):
        return call_use(shape, tx, ty)
    s = Scheduler(config=Config({"backend": {"db_uri": "sqlite:///:memory:"}}))
    s.load()
    s.logger = logging.getLogger("redun")
    try:
        with silence():
            s.run(main())
        w = check(s.backend.session, shape, tx, ty, 10, "first run")
        if w is None and (uses_pa(tx) or (ty is not None and uses_pa(ty))):
            # second run: the producer changed, main's result expression comes back from the cache (unpickled), the consumer is a new call node
            pa = define_pa(-10, "2")
            with silence():
                s.run(main())
            w = check(s.backend.session, shape, tx, ty, -10, "second run (argument expressions unpickled from the cached result of main)")
    except Exception as e:
        w = dict(program=f"use({shape}) x={tx} y={ty}", observed=f"raised {type(e).__name__}: {e}")
    if w is None and len(samples) < 2 and tx[0] == "cond":
        samples.append(dict(program=f"use({shape}) x={tx}", upstream=sorted(ups(tx))))

finish(w is not None, witness=w, evaluations=n, samples=samples,
       bound=f"{len(programs)} programs: {len(LEVEL1)} argument terms over direct results, getitem, getattr, operators, lists / dicts / tuples, cond (taken and untaken branches, equal calls inside and outside), "
             "5 call shapes (positional, keywords in either order, defaults), each run twice when it depends on the redefined producer")
