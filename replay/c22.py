"""C22 replay / bounded check (retry half): a single transient OperationalError is injected at every database commit position of a recording
run (the commit does not happen; the error reaches db_retry, which rolls back and retries).  Each faulted run must return what the clean run
returns and leave the same records behind -- nothing lost, nothing duplicated.  (The crash half of C22 shares C03's driver: replay/c03.py.)"""
import sys, os, logging, traceback
sys.path.insert(0, os.path.dirname(os.path.abspath(__file__)))
from common import *
req = read_request()
import sqlalchemy.orm
from sqlalchemy.exc import OperationalError
from redun import task, Scheduler, File, Handle
from redun.config import Config
from redun.scheduler import catch
from redun.backends.db import CallNode, Job, Value, Execution, Argument, ArgumentResult, CallEdge, Subvalue, Task as TaskRow, File as FileRow, CallSubtreeTask, Evaluation, Handle as HandleRow, HandleEdge

logging.getLogger("redun").setLevel(logging.CRITICAL)
NS = "c22t"
import tempfile
tmp = tempfile.mkdtemp(prefix="c22_")
import atexit, shutil
atexit.register(lambda: shutil.rmtree(tmp, ignore_errors=True))     # nothing is left under /tmp


@task(namespace=NS)
def inner(x):
    return x + 1


@task(namespace=NS)
def middle(x):
    return [inner(x), inner(x + 1)]


@task(namespace=NS)
def outer(x):
    return {"r": middle(x)}


for _name in ("a.txt", "b.txt"):
    with open(os.path.join(tmp, _name), "w") as _out:
        _out.write(_name)        # written once: a File hash depends on the modification time, every run must see the same files


@task(namespace=NS)
def write(name):
    return File(os.path.join(tmp, name))


@task(namespace=NS)
def with_files():
    return [write("a.txt"), {"b": write("b.txt")}]


@task(namespace=NS)
def nested_only():
    # files that are never the result of a task of their own: their File rows are only ever written as subvalues
    return {"files": [File(os.path.join(tmp, "a.txt")), File(os.path.join(tmp, "b.txt"))], "n": 2}


class Conn(Handle):
    def __init__(self, name, uri):
        self.uri = uri
        self.instance = uri


@task(namespace=NS)
def open_conn(uri):
    # the handle is created inside the task: the backend first sees it when the returned (advanced) handle is recorded
    return Conn("conn", uri)


@task(namespace=NS)
def boom(x):
    raise ValueError("boom %d" % x)


@task(namespace=NS)
def recover(err):
    return "recovered"


@task(namespace=NS)
def guarded():
    return [catch(boom(1), ValueError, recover), inner(5)]


orig = sqlalchemy.orm.Session.commit
state = {"n": 0, "fail_at": 0, "failed": False, "where": None}


def commit(self):
    state["n"] += 1
    if state["fail_at"] and state["n"] == state["fail_at"] and not state["failed"]:
        state["failed"] = True
        state["where"] = [f.name for f in traceback.extract_stack() if "backends/db" in f.filename][-4:]
        raise OperationalError("COMMIT", {}, Exception("transient: connection lost before the commit"))
    orig(self)


def snapshot(sess):
    sess.rollback()
    sess.expire_all()
    return dict(call_nodes=sorted(c.call_hash for c in sess.query(CallNode)), values=sorted(v.value_hash for v in sess.query(Value)),
                subvalues=sorted((s.parent_value_hash, s.value_hash) for s in sess.query(Subvalue)), files=sorted(f.value_hash for f in sess.query(FileRow)),
                tasks=sorted(t.hash for t in sess.query(TaskRow)),
                jobs=sorted((j.task_hash, j.call_hash or "", bool(j.cached), j.parent_id is None, j.end_time is not None) for j in sess.query(Job)),
                executions=sess.query(Execution).count(), executions_with_job=sess.query(Execution).filter(Execution.job_id != None).count(),     # noqa: E711
                arguments=sorted(a.arg_hash for a in sess.query(Argument)), argument_results=sorted((a.arg_hash, a.result_call_hash) for a in sess.query(ArgumentResult)),
                call_edges=sorted((e.parent_id, e.child_id, e.call_order) for e in sess.query(CallEdge)),
                handles=sorted((h.hash, h.fullname, bool(h.is_valid)) for h in sess.query(HandleRow)), handle_edges=sorted((e.parent_id, e.child_id) for e in sess.query(HandleEdge)),
                subtree_tasks=sorted((s.call_hash, s.task_hash) for s in sess.query(CallSubtreeTask)), evaluations=sorted(e.eval_hash for e in sess.query(Evaluation)))


def run(make, fail_at):
    s = Scheduler(config=Config({"backend": {"db_uri": "sqlite:///:memory:"}}))
    s.load()
    s.backend._db_retries_backoff = 0
    s.logger = s.backend.logger = logging.getLogger("redun")
    state.update(n=0, fail_at=fail_at, failed=False, where=None)
    sqlalchemy.orm.Session.commit = commit
    try:
        with silence():
            r, err = s.run(make()), None
    except BaseException as e:
        r, err = None, f"{type(e).__name__}: {str(e)[:200]}"
    finally:
        sqlalchemy.orm.Session.commit = orig
    try:
        snap = snapshot(s.backend.session)
    except Exception as e2:
        snap = {"snapshot-error": str(e2)[:120]}
    return r, err, state["n"], snap


n = 0
w = None
samples = []
WORKLOADS = {"outer(1): nested containers of task results": lambda: outer(1), "with_files(): file results inside containers": lambda: with_files(),
             "nested_only(): files that only occur inside a container result": lambda: nested_only(),
             "open_conn(): a handle created inside a task and returned as the final result": lambda: open_conn("db://example"),
             "guarded(): a failing task under catch next to a succeeding one": lambda: guarded()}
for name, make in WORKLOADS.items():
    if w:
        break
    r0, e0, total, snap0 = run(make, 0)
    if e0:
        w = dict(workload=name, observed="the clean run failed: " + e0)
        break
    hit = 0
    for k in range(1, total + 4):
        r, e, cnt, snap = run(make, k)
        if not state["failed"]:
            continue        # this run had fewer commits (thread timing): no fault was injected
        n += 1
        hit += 1
        diffs = {key: dict(lost=[str(x)[:60] for x in sorted(set(map(str, snap0[key])) - set(map(str, snap.get(key, []))))][:3] if isinstance(snap0[key], list) else snap0[key],
                           extra=[str(x)[:60] for x in sorted(set(map(str, snap.get(key, []))) - set(map(str, snap0[key])))][:3] if isinstance(snap0[key], list) else snap.get(key))
                 for key in snap0 if snap.get(key) != snap0[key]}
        same_result = (r.__handle__.hash == r0.__handle__.hash) if isinstance(r, Handle) and isinstance(r0, Handle) else repr(r) == repr(r0)
        if e or not same_result or diffs:
            w = dict(workload=name, fault="one transient OperationalError instead of commit #%d" % k, commit_of=state["where"], error=e, result=repr(r), clean_result=repr(r0), records_that_differ=diffs)
            break
    samples.append(dict(workload=name, commits=total, fault_positions=hit))

finish(w is not None, witness=w, evaluations=n, samples=samples,
       bound="5 workloads (nested containers with subvalues, file results, files that only occur inside a container, a handle created inside a task, a failing task under catch) x one transient OperationalError at every commit position of the recording run (in-memory sqlite, retries without delay)")
