"""C28 replay: dry runs of small workflows (empty / partially cached backend, script task, limits, unknown executor)
with every executor's submit/submit_script and every task function instrumented: nothing may be called."""
import sys, os
sys.path.insert(0, os.path.dirname(os.path.abspath(__file__)))
from common import *
req = read_request()
from redun import task, script
from redun.scheduler import DryRunResult, catch, cond

calls = []
ns = "c28replay"


@task(namespace=ns)
def leaf(x):
    calls.append(("func", "leaf", x))
    return x + 1


@task(namespace=ns, limits=["r"])
def limited(x):
    calls.append(("func", "limited", x))
    return x * 2


@task(namespace=ns)
def sh():
    return script("echo hi")


@task(namespace=ns)
def main(n):
    return [leaf(n), limited(leaf(n)), cond(True, leaf(n + 1), 0)]


@task(namespace=ns)
def main_script():
    return [sh(), leaf(7)]


def instrument(s):
    for name, ex in s.executors.items():
        for m in ("submit", "submit_script"):
            orig = getattr(ex, m)
            def wrapped(job, *a, _m=m, _n=name, _o=orig, **k):
                calls.append((_m, _n, job.task.fullname))
                return _o(job, *a, **k)
            setattr(ex, m, wrapped)


w = None
n = 0
for label, prep, wf in [("empty backend", None, lambda: main(1)),
                        ("partially cached backend", lambda s: s.run(leaf(1)), lambda: main(1)),
                        ("fully cached then edited arg", lambda s: s.run(main(1)), lambda: main(2)),
                        ("script task", None, lambda: main_script())]:
    s = quiet_scheduler({"limits": {"r": "1"}})
    with silence():
        if prep:
            prep(s)
    instrument(s)
    del calls[:]
    n += 1
    try:
        with silence():
            s.run(wf(), dryrun=True)
    except DryRunResult:
        pass
    if calls:
        w = dict(scenario=label, observed_calls_during_dry_run=calls[:5])
        break
finish(w is not None, witness=w, evaluations=n, bound="4 dry-run scenarios")
