"""C18 replay / bounded check: generated expressions of all four kinds; equal hashes only for the same call; pickle round trip."""
import sys, os, itertools, pickle
sys.path.insert(0, os.path.dirname(os.path.abspath(__file__)))
from common import *
req = read_request()
from redun import task
from redun.scheduler import cond
from redun.expression import TaskExpression, SchedulerExpression, SimpleExpression, ValueExpression

ns = "c18replay"


@task(namespace=ns)
def f(a, b=1):
    return a


@task(namespace=ns)
def g(a, b=1):
    return a


exprs = []
for t in (f, g):
    for args in ((1,), (2,), (1, 2)):
        for opts in ({}, {"cache": False}, {"memory": 2}):
            for exp in ({}, {"memory": 2}):
                tt = t.options(**opts) if opts else t
                tt = tt.export_options(**exp) if exp else tt
                exprs.append((("task", t.fullname, args, tuple(sorted(opts.items())), tuple(sorted(exp.items()))), tt(*args)))
for opts in ({}, {"cache_scope": "NONE"}, {"limits": ["x"]}):
    for args in ((True, 1, 2), (False, 1, 2)):
        c = cond.options(**opts) if opts else cond
        exprs.append((("sched", "cond", args, tuple(sorted((k, str(v)) for k, v in opts.items())), ()), c(*args)))
base = f(1)
exprs.append((("simple", "getitem", (0,)), base[0]))
exprs.append((("simple", "getitem", (1,)), base[1]))
exprs.append((("simple", "add", (1,)), base + 1))
# forward and reflected operators on the same lazy operand and constant denote different calls
import operator as _op
for nm, fn in (("sub", _op.sub), ("truediv", _op.truediv), ("add", _op.add), ("mul", _op.mul), ("and", _op.and_), ("or", _op.or_)):
    exprs.append((("simple", nm, ("x", 10)), fn(base, 10)))
    exprs.append((("simple", "r" + nm, (10, "x")), fn(10, base)))
# enum-valued and export options survive serialisation unchanged
from redun.task import CacheScope, CacheCheckValid
exprs.append((("task-enum", "cache_scope"), f.options(cache_scope=CacheScope.CSE)(1)))
exprs.append((("task-enum", "check_valid"), f.options(check_valid=CacheCheckValid.SHALLOW)(1)))
exprs.append((("task-enum", "export"), f.export_options(cache_scope=CacheScope.NONE)(1)))
exprs.append((("sched-enum", "cond"), cond.options(cache_scope=CacheScope.CSE)(True, 1, 2)))
exprs.append((("value", 1), ValueExpression(1)))
exprs.append((("value", 2), ValueExpression(2)))
w = None
n = 0
for (k1, e1), (k2, e2) in itertools.combinations(exprs, 2):
    n += 1
    # export_options(**kw) also sets the option, so compare the effective identity
    def ident(e):
        d = e.__dict__     # expressions turn unknown attribute reads into lazy getattr expressions
        return (type(e).__name__, d.get("task_name", d.get("func_name")), repr(d["args"]) if "args" in d else repr(d.get("value")), repr(sorted(d.get("kwargs", {}).items())),
                repr(sorted(d.get("_options", {}).items(), key=str)), repr(sorted(d.get("_export_options", set()))))
    if e1.get_hash() == e2.get_hash() and ident(e1) != ident(e2):
        w = dict(check="equal hash for different calls", a=ident(e1), b=ident(e2))
        break
if w is None:
    for k, e in exprs:
        n += 1
        is_task = isinstance(e, TaskExpression)
        if is_task:
            e.call_hash = "x" * 40
        e2 = pickle.loads(pickle.dumps(e))
        typed = lambda d: sorted((k, type(v).__name__, repr(v)) for k, v in d.items())
        if e2.get_hash() != e.get_hash() or (is_task and e2.call_hash is not None) or (is_task and (typed(e2._options) != typed(e._options) or e2._export_options != e._export_options)):
            w = dict(check="pickle round trip preserves hash/options and clears call_hash", expression=repr(e), call_hash_after=repr(e2.__dict__.get("call_hash")))
            break
finish(w is not None, witness=w, evaluations=n, bound="all pairs of 65 generated expressions (forward and reflected forms of the 6 lazy binary operators, enum-valued options;  (2 tasks x 3 argument lists x 3 option sets x 2 export sets; cond with 3 option sets; operators; values); pickle round trip of each")
