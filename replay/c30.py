"""C30 shares the replay / bounded driver of C04."""
import os, runpy
runpy.run_path(os.path.join(os.path.dirname(os.path.abspath(__file__)), "c04.py"), run_name="__main__")
