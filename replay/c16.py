"""C16 replay / bounded check: hashes of values under several PYTHONHASHSEED values (fresh interpreters) and insertion orders."""
import sys, os, json, subprocess
sys.path.insert(0, os.path.dirname(os.path.abspath(__file__)))
from common import *
req = read_request()
obl = req.get("obligation", "")
REPO = os.environ.get("VERIF_REPO", "/repo")

CHILD = r'''
import sys, json
sys.path.insert(0, %r)
from redun.value import get_type_registry
from redun.backends.db import RedunBackendDb
import logging
logging.getLogger("redun").setLevel(logging.CRITICAL)
reg = get_type_registry()
b = RedunBackendDb(db_uri="sqlite:///:memory:")
b.load()


def shrunk(items, extra):
    s = set(items) | set(extra)
    for x in extra:
        s.discard(x)
    return s


FREE = {
    "int": 7, "str": "text", "float": 1.5, "none": None, "list": [1, "a", [2.5, None]], "tuple": (1, ("x", 2)), "dict": {"b": 1, "a": [1, 2]}, "bytes": b"\x00\x01",
}
words = ["alpha", "beta", "gamma", "delta", "epsilon", "zeta"]
SETS = {
    "set-str": [set(words), set(reversed(words)), shrunk(words, ["x%%d" %% i for i in range(40)])],
    "set-int-colliding": [set([0, 8, 16]), set([16, 8, 0]), shrunk([0, 8, 16], range(100, 140))],
    "set-tuple": [set([("a", 1), ("b", 2), ("c", 3)]), set([("c", 3), ("a", 1), ("b", 2)])],
    "set-empty": [set(), set([1]) - {1}],
}
NESTED = {
    "list-of-set": [set(words)], "frozenset": frozenset(words), "dict-with-set": {"k": set(words)}, "set-of-frozensets": {frozenset(words[:3]), frozenset(words[3:])},
    "tuple-with-frozenset": (1, frozenset(words)),
}
out = {"free": {}, "sets": {}, "nested": {}, "recorded": {}}
for k, v in FREE.items():
    out["free"][k] = reg.get_hash(v)
    out["recorded"][k] = b.record_value(v)
for k, vs in SETS.items():
    out["sets"][k] = [reg.get_hash(v) for v in vs]
    out["recorded"][k] = [b.record_value(v) for v in vs]
for k, v in NESTED.items():
    out["nested"][k] = reg.get_hash(v)
print(json.dumps(out))
''' % REPO


def run(seed):
    env = dict(os.environ, PYTHONHASHSEED=str(seed))
    p = subprocess.run(["/venv/bin/python", "-c", CHILD], capture_output=True, text=True, env=env, timeout=300)
    line = [l for l in p.stdout.strip().split("\n") if l.startswith("{")]
    if not line:
        raise RuntimeError(p.stderr[-800:])
    return json.loads(line[-1])


seeds = [1, 2, 3, 12345]
res = {s: run(s) for s in seeds}
n = 0
w = None
nested_diff = {}
for k in res[seeds[0]]["nested"]:
    hs = {res[s]["nested"][k] for s in seeds}
    if len(hs) > 1:
        nested_diff[k] = sorted(h[:10] for h in hs)
if "of any kind" in obl or "any kind" in obl:
    # the general obligations: replay = the nested hash-ordered containers whose hash varies with the seed
    finish(bool(nested_diff), witness=dict(values_whose_hash_depends_on_PYTHONHASHSEED=nested_diff, seeds=seeds), evaluations=len(seeds) * 5,
           bound="5 values with sets / frozensets nested inside, 4 hash seeds")
for k in res[seeds[0]]["free"]:
    n += 1
    hs = {res[s]["free"][k] for s in seeds} | {res[s]["recorded"][k] for s in seeds}
    if len(hs) != 1:
        w = dict(value=k, observed="hash of a value without sets inside differs between processes or between argument hashing and recording", hashes=sorted(hs))
        break
if w is None:
    for k in res[seeds[0]]["sets"]:
        n += 1
        hs = set()
        for s in seeds:
            hs |= set(res[s]["sets"][k]) | set(res[s]["recorded"][k])
        if len(hs) != 1:
            w = dict(value=k, observed="a top-level set hashes differently depending on insertion order, resize history, hash seed, or between argument hashing and recording",
                     per_seed={s: [h[:10] for h in res[s]["sets"][k]] for s in seeds}, recorded={s: [h[:10] for h in res[s]["recorded"][k]] for s in seeds})
            break
finish(w is not None, witness=w, evaluations=n * len(seeds), samples=[dict(nested_values_varying_with_seed=sorted(nested_diff))],
       bound="8 set-free values, 4 families of top-level sets (string / colliding int / tuple elements, several insertion orders, shrunk from larger sets, empty) hashed by the registry and recorded by the backend, "
             "4 hash seeds in fresh interpreters; nested sets / frozensets are listed, not judged here")
