"""C23 replay / bounded check: repositories built by generated execution histories (nested calls, list results with subvalues, files, cached
executions, tags with updates and deletions) are transferred -- iter_record_ids / get_records / JSON lines / put_records, the steps of
redun push / pull / export / import -- into fresh and into already populated repositories.  The destination is compared with an independent
ownership walk over the source's tables (plain ORM queries)."""
import sys, os, json, itertools, logging, tempfile
sys.path.insert(0, os.path.dirname(os.path.abspath(__file__)))
from common import *
req = read_request()
from redun import Scheduler, task, apply_tags, File
from redun.config import Config
from redun.backends.base import TagEntity
from redun.backends.db import (Execution, Job, CallNode, CallEdge, Argument, ArgumentResult, Value, File as FileRow, Task as TaskRow, Subvalue, Tag, TagEdit, CallSubtreeTask, RedunBackendDb)

logging.getLogger("redun").setLevel(logging.CRITICAL)
NS = "c23"
tmp = tempfile.mkdtemp(prefix="c23_")
import atexit, shutil
atexit.register(lambda: shutil.rmtree(tmp, ignore_errors=True))     # nothing is left under /tmp


@task(namespace=NS)
def leaf(x):
    return x + 1


@task(namespace=NS)
def pair(x):
    return [leaf(x), {"k": leaf(x + 10)}]


@task(namespace=NS, check_valid="shallow")
def shallow_main(n):
    return [pair(i) for i in range(n)]


@task(namespace=NS)
def total(xs, scale=2):
    return sum(xs) * scale


@task(namespace=NS)
def fan(n):
    return total([leaf(i) for i in range(n)])


@task(namespace=NS)
def write(path, text):
    f = File(path)
    f.write(text)
    return f


@task(namespace=NS)
def files():
    return [write(os.path.join(tmp, "a.txt"), "a"), write(os.path.join(tmp, "b.txt"), "b")]


@task(namespace=NS, tags=[("env", "prod")])
def tagged():
    return apply_tags(10, [("user", "alice"), ("release", "final")])


def new_scheduler():
    s = Scheduler(config=Config({"backend": {"db_uri": "sqlite:///:memory:"}}))
    s.load()
    s.logger = logging.getLogger("redun")
    return s


def transfer(src, dest, roots):
    ids = list(src.iter_record_ids(roots))
    lines = [json.dumps(r) for r in src.get_records(ids)]
    return dest.put_records(json.loads(x) for x in lines), ids


def sync(src, dest, roots=None):
    """redun push / pull: the client's own _sync_records (without ids: every execution of the source)"""
    from redun.cli import RedunClient
    return RedunClient()._sync_records(src, dest, roots)


# ---- independent reference: rows owned by a set of roots (spec of the property: executions, jobs, call nodes with arguments and child edges,
#      values with file and task details and subvalue links, tags with their whole edit history)
def owned(sess, roots):
    seen, todo = set(), [("?", r) for r in roots]
    while todo:
        kind, i = todo.pop()
        if i is None or (kind, i) in seen:
            continue
        if kind == "?":
            for k, model, col in (("Execution", Execution, Execution.id), ("Job", Job, Job.id), ("CallNode", CallNode, CallNode.call_hash), ("Value", Value, Value.value_hash), ("Tag", Tag, Tag.tag_hash)):
                if sess.query(model).filter(col == i).count():
                    todo.append((k, i))
            continue
        seen.add((kind, i))
        if kind == "Execution":
            e = sess.query(Execution).filter(Execution.id == i).one()
            todo.append(("Job", e.job_id))
        elif kind == "Job":
            j = sess.query(Job).filter(Job.id == i).one()
            todo += [("Value", j.task_hash), ("CallNode", j.call_hash)] + [("Job", c.id) for c in sess.query(Job).filter(Job.parent_id == i)]
        elif kind == "CallNode":
            c = sess.query(CallNode).filter(CallNode.call_hash == i).one_or_none()
            if c is None:
                seen.discard((kind, i))
                continue
            todo += [("Value", c.task_hash), ("Value", c.value_hash)]
            for a in sess.query(Argument).filter(Argument.call_hash == i):
                todo.append(("Value", a.value_hash))
                todo += [("CallNode", r.result_call_hash) for r in sess.query(ArgumentResult).filter(ArgumentResult.arg_hash == a.arg_hash)]
            todo += [("CallNode", e.child_id) for e in sess.query(CallEdge).filter(CallEdge.parent_id == i)]
            todo += [("Value", t.task_hash) for t in sess.query(CallSubtreeTask).filter(CallSubtreeTask.call_hash == i)]
        elif kind == "Value":
            if not sess.query(Value).filter(Value.value_hash == i).count():
                seen.discard((kind, i))
                continue
            todo += [("Value", s.value_hash) for s in sess.query(Subvalue).filter(Subvalue.parent_value_hash == i)]
        elif kind == "Tag":
            todo += [("Tag", e.parent_id) for e in sess.query(TagEdit).filter(TagEdit.child_id == i)] + [("Tag", e.child_id) for e in sess.query(TagEdit).filter(TagEdit.parent_id == i)]
        # tags of any entity
        todo += [("Tag", t.tag_hash) for t in sess.query(Tag).filter(Tag.entity_id == i)]
    return seen


def cols(row, names):
    return tuple(str(getattr(row, n)) for n in names)


def snapshot(sess, own):
    """the rows the owned records consist of, as comparable tuples"""
    sess.expire_all()
    out = set()
    for kind, i in own:
        if kind == "Execution":
            for e in sess.query(Execution).filter(Execution.id == i):
                out.add(("Execution",) + cols(e, ["id", "args", "job_id"]))
        elif kind == "Job":
            for j in sess.query(Job).filter(Job.id == i):
                out.add(("Job",) + cols(j, ["id", "start_time", "end_time", "task_hash", "cached", "call_hash", "parent_id", "execution_id"]))
        elif kind == "CallNode":
            for c in sess.query(CallNode).filter(CallNode.call_hash == i):
                out.add(("CallNode",) + cols(c, ["call_hash", "task_name", "task_hash", "args_hash", "value_hash", "timestamp"]))
            for a in sess.query(Argument).filter(Argument.call_hash == i):
                out.add(("Argument",) + cols(a, ["arg_hash", "call_hash", "value_hash", "arg_position", "arg_key"]))
                for r in sess.query(ArgumentResult).filter(ArgumentResult.arg_hash == a.arg_hash):
                    out.add(("ArgumentResult",) + cols(r, ["arg_hash", "result_call_hash"]))
            # child edges in call order (positions, not the raw call_order numbers: the record format carries the ordered child list)
            for rank, e in enumerate(sorted(sess.query(CallEdge).filter(CallEdge.parent_id == i), key=lambda e: e.call_order)):
                out.add(("CallEdge",) + cols(e, ["parent_id", "child_id"]) + (str(rank),))
            # the task set shallow cache validity is decided from
            for t in sess.query(CallSubtreeTask).filter(CallSubtreeTask.call_hash == i):
                out.add(("CallSubtreeTask",) + cols(t, ["call_hash", "task_hash"]))
        elif kind == "Value":
            for v in sess.query(Value).filter(Value.value_hash == i):
                out.add(("Value",) + cols(v, ["value_hash", "type", "format"]) + (bytes(v.value or b"").hex()[:64],))
            for f in sess.query(FileRow).filter(FileRow.value_hash == i):
                out.add(("File",) + cols(f, ["value_hash", "path"]))
            for t in sess.query(TaskRow).filter(TaskRow.hash == i):
                out.add(("Task",) + cols(t, ["hash", "name", "namespace", "source"]))
            for s in sess.query(Subvalue).filter(Subvalue.parent_value_hash == i):
                out.add(("Subvalue",) + cols(s, ["value_hash", "parent_value_hash"]))
        elif kind == "Tag":
            for t in sess.query(Tag).filter(Tag.tag_hash == i):
                out.add(("Tag",) + cols(t, ["tag_hash", "entity_type", "entity_id", "key", "value", "is_current"]))
            for e in sess.query(TagEdit).filter(TagEdit.child_id == i):
                out.add(("TagEdit",) + cols(e, ["parent_id", "child_id"]))
    return out


def all_rows(sess):
    sess.expire_all()
    return sum(sess.query(m).count() for m in (Execution, Job, CallNode, Argument, ArgumentResult, CallEdge, CallSubtreeTask, Value, FileRow, TaskRow, Subvalue, Tag, TagEdit))


def executions(sess):
    return [e.id for e in sess.query(Execution).join(Job, Execution.job_id == Job.id).order_by(Job.start_time).all()]


n = 0
w = None
samples = []


def compare(src, dest, roots, what):
    own = owned(src.session, roots)
    a, b = snapshot(src.session, own), snapshot(dest.session, own)
    if a != b:
        miss, extra = sorted(a - b)[:4], sorted(b - a)[:4]
        return dict(scenario=what, observed="the destination does not hold the same rows as the source for the transferred records", roots=[str(r)[:12] for r in roots],
                    missing_or_different_in_destination=[str(x)[:160] for x in miss], only_in_destination=[str(x)[:160] for x in extra])
    return None


def history(name):
    s = new_scheduler()
    with silence():
        if name == "fan":
            s.run(fan(3))
            s.run(fan(4))
        elif name == "shallow-cached":
            s.run(shallow_main(2))
            s.run(shallow_main(2))      # served from the cache in one step: call nodes below have no jobs in this execution
        elif name == "files":
            s.run(files())
        elif name == "tags":
            s.run(tagged(), tags=[("project", "acme"), ("stage", "draft")])
        elif name == "three-fans":
            s.run(fan(2))
            s.run(fan(5))
            s.run(fan(3))
        elif name == "mixed":
            s.run(tagged(), tags=[("project", "acme")])
            s.run(files())
            s.run(shallow_main(3))
            s.run(shallow_main(3))
            s.run(fan(4))
    return s


try:
    DEEP = bool(os.environ.get("C23_DEEP"))
    for name in ("fan", "shallow-cached", "files", "tags") + (("three-fans", "mixed") if DEEP else ()):
        if w:
            break
        s = history(name)
        src = s.backend
        ex = executions(src.session)
        root_sets = [[e] for e in ex] + ([ex] if len(ex) > 1 else [])
        if DEEP and len(ex) > 2:
            root_sets = [list(c) for r in range(1, len(ex) + 1) for c in itertools.combinations(ex, r)][:40]      # thorough tier: every subset of the executions as roots
        for roots in root_sets:
            n += 1
            dest = new_scheduler().backend
            added, ids = transfer(src, dest, roots)
            w = compare(src, dest, roots, f"history '{name}', fresh destination, roots = executions {[ex.index(r) for r in roots]}")
            if w:
                break
            if len(ids) != len(set(ids)):
                w = dict(scenario=name, observed="iter_record_ids yields a record id more than once")
                break
            before = all_rows(dest.session)
            again, _ = transfer(src, dest, roots)
            if again != 0 or all_rows(dest.session) != before:
                w = dict(scenario=f"history '{name}', repeated transfer", observed="repeating the transfer added records", put_records_returned=again, rows_before=before, rows_after=all_rows(dest.session))
                break
            if len(samples) < 3:
                samples.append(dict(history=name, roots=len(roots), records=len(ids), rows=before))
        if w or name != "tags":
            continue
        # ---- incremental transfer after tag edits in the source: an update and two deletions
        n += 1
        dest = new_scheduler().backend
        sync(src, dest)
        value_hash = src.session.query(Value).join(Tag, Tag.entity_id == Value.value_hash).first().value_hash
        src.update_tags(TagEntity.Execution, ex[0], ["project"], [("project", "skunk")])
        src.delete_tags(ex[0], [("stage", "draft")])
        src.delete_tags(value_hash, [("release", "final")])
        sync(src, dest)
        w = compare(src, dest, ex, "history 'tags', second push (RedunClient._sync_records without ids) after the source updated one tag and deleted two")
        if w is None and dict(dest.get_tags([ex[0], value_hash])) != dict(src.get_tags([ex[0], value_hash])):
            w = dict(scenario="history 'tags', incremental transfer", observed="current tags differ", source=repr(dict(src.get_tags([ex[0], value_hash]))), destination=repr(dict(dest.get_tags([ex[0], value_hash]))))
        if w is None:
            n += 1
            dest2 = new_scheduler().backend
            transfer(src, dest2, ex)
            w = compare(src, dest2, ex, "history 'tags', one-shot transfer of a source whose tags were updated and deleted")
            if w is None and dict(dest2.get_tags([ex[0], value_hash])) != dict(src.get_tags([ex[0], value_hash])):
                w = dict(scenario="history 'tags', one-shot transfer", observed="current tags differ", source=repr(dict(src.get_tags([ex[0], value_hash]))), destination=repr(dict(dest2.get_tags([ex[0], value_hash]))))
    # ---- a call node recorded through the backend API with an explicit subtree task set that does not list its own task
    if w is None:
        n += 1
        s = new_scheduler()
        src = s.backend
        src.record_value(leaf)
        src.record_value(pair)
        result_hash = src.record_value(5)
        child = src.record_call_node(task_name=leaf.fullname, task_hash=leaf.hash, args_hash="c23-args-1", expr_args=((), {}), eval_args=((), {}), result_hash=result_hash,
                                     child_call_hashes=[], subtree_tasks=set())
        parent = src.record_call_node(task_name=pair.fullname, task_hash=pair.hash, args_hash="c23-args-2", expr_args=((), {}), eval_args=((), {}), result_hash=result_hash,
                                      child_call_hashes=[child], subtree_tasks={leaf})
        dest = new_scheduler().backend
        transfer(src, dest, [parent])
        w = compare(src, dest, [parent], "two call nodes recorded through RedunBackendDb.record_call_node with explicit subtree task sets (none lists the node's own task), root = the parent call node")
    # ---- cache safety: after a transfer the destination must not serve what the source's caching rules refuse
    if w is None:
        n += 1

        def define_leaf(delta, version):
            @task(name="leaf", namespace=NS, version=version)
            def leaf(x):
                return x + delta
            return leaf
        leaf = define_leaf(1, "1")
        s = new_scheduler()
        with silence():
            s.run(shallow_main(2))
        dest_s = new_scheduler()
        transfer(s.backend, dest_s.backend, executions(s.backend.session))
        leaf = define_leaf(100, "2")            # the code of a task below the shallowly checked task changes
        with silence():
            here, there = s.run(shallow_main(2)), dest_s.run(shallow_main(2))
        leaf = define_leaf(1, "1")
        if here != there:
            w = dict(scenario="shallow_main(2) recorded, transferred, then the task 'leaf' beneath it is redefined", observed="the destination's cache serves a result the source refuses",
                     source_returns=repr(here), destination_returns=repr(there))
except Exception as e:
    import traceback
    w = dict(observed=f"raised {type(e).__name__}: {e}", trace=traceback.format_exc()[-800:])

finish(w is not None, witness=w, evaluations=n, samples=samples,
       bound=("thorough: 6 histories incl. three executions with every subset as roots and a repository mixing tags, files, cached and fan-out executions; " if os.environ.get("C23_DEEP") else "") + "4 histories (two fan-out executions; an execution served from the cache in one step; file results; tags then an update and two deletions) x root sets {each execution, all} x "
             "{fresh destination, repeated transfer, incremental transfer after tag edits, one-shot transfer of the edited source}, records sent through JSON lines; one call graph recorded through the backend API with explicit subtree task sets; one cache-safety scenario (a task beneath a shallowly checked task is redefined after the transfer)")
