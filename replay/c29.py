"""C29 replay / bounded check: wrapper reproduces command text byte for byte (executed through sh with a `cat` shebang),
terminator never equals a command line, staging command order in script(), staging no-op only for equal paths."""
import sys, os, itertools, subprocess, tempfile
sys.path.insert(0, os.path.dirname(os.path.abspath(__file__)))
from common import *
req = read_request()
from redun.scripting import get_command_eof, get_wrapped_command, prepare_command, script
from redun.file import File, StagingFile

w = None
n = 0
LINES = ["EOF", "EOF1", "EOF2", "echo 'q' \"$X\"", "", "x <<EOF", " EOF"]
cat = "#!/bin/cat"
for k in (1, 2, 3):
    for body in itertools.product(LINES, repeat=k):
        n += 1
        command = "\n".join((cat,) + body)
        eof = get_command_eof(command)
        if eof in command.split("\n") or not eof.startswith("EOF"):
            w = dict(function="get_command_eof", command=command, observed=eof)
            break
        if k <= 2 or n % 7 == 0:
            out = subprocess.run(["sh", "-c", get_wrapped_command(command)], capture_output=True)
            if out.stdout != command.encode() + b"\n" or out.returncode != 0:
                w = dict(function="get_wrapped_command", command=command, expected_stdout=command + "\n", observed_stdout=out.stdout.decode(errors="replace"), stderr=out.stderr.decode(errors="replace")[:200])
                break
    if w:
        break
if w is None:
    from textwrap import dedent
    for cmd, shell in [("\n   echo hi\n   echo there\n", "#!/bin/sh\n"), ("#!/usr/bin/env python\nprint(1)", "#!/bin/sh"), ("  #!/bin/bash\n  ls\n", "#!/bin/sh -e\n\n")]:
        n += 1
        d = dedent(cmd).strip()
        want = d if d.startswith("#!") else shell.rstrip("\n") + "\n" + d
        if prepare_command(cmd, shell) != want:
            w = dict(function="prepare_command", command=cmd, shell=shell, expected=want, observed=prepare_command(cmd, shell))
if w is None:
    cwd = os.getcwd()
    for local, remote in [("a.txt", "a.txt"), ("a.txt", "/data/a.txt"), ("a.txt", os.path.join(cwd, "a.txt")), ("./a.txt", "a.txt"), ("out/b", "s3://bucket/b")]:
        n += 1
        sf = StagingFile(File(local), File(remote))
        st, un = sf.render_stage(), sf.render_unstage()
        if local == remote:
            ok = st == "" and un == ""
        else:
            ok = st == File(remote).shell_copy_to(local) and un == File(local).shell_copy_to(remote)
        if not ok:
            w = dict(function="StagingFile.render_stage/unstage", local=local, remote=remote, stage=st, unstage=un)
            break
if w is None:
    for tempdir in (False, True):
        n += 1
        ins = [File("/data/in1").stage("in1"), [File("/data/in2").stage("in2")]]
        outs = [File("/data/out1").stage("out1"), File("same"), File("-")]
        e = script("cat in1 in2 > out1", inputs=ins, outputs=outs, tempdir=tempdir)
        full = e.args[0]
        parts = full.split("\n")
        wrapped = get_wrapped_command(prepare_command("cat in1 in2 > out1"))
        i_w = full.find(wrapped)
        stage1, stage2 = ins[0].render_stage(), ins[1][0].render_stage()
        un1 = outs[0].render_unstage()
        ok = i_w >= 0 and 0 <= full.find(stage1) < i_w and 0 <= full.find(stage2) < i_w and full.find(un1) > i_w + len(wrapped) - 1
        if tempdir:
            ok = ok and parts[0].startswith("cd ")
        if not ok:
            w = dict(function="script", tempdir=tempdir, observed_command=full[:400])
            break
finish(w is not None, witness=w, evaluations=n, bound="command bodies of <= 3 lines over 7 line shapes (terminator look-alikes, quotes, dollar signs); 3 prepare_command cases; 5 staging pairs; script() with nested inputs/outputs, tempdir on/off")
