"""C33 replay: build job rows of every shape of the finite row domain with the real ORM models in an in-memory
SQLite backend, then compare the real CallGraphQuery status filters with the real Job.status / Execution.status."""
import sys, os, itertools, datetime
sys.path.insert(0, os.path.dirname(os.path.abspath(__file__)))
from common import *
req = read_request()
from redun.backends.db import RedunBackendDb, Job, CallNode, Value, Execution, Task
from redun.backends.db.query import CallGraphQuery

backend = RedunBackendDb(db_uri="sqlite:///:memory:")
with silence():
    backend.load()
s = backend.session
now = datetime.datetime(2024, 1, 1, tzinfo=datetime.timezone.utc)
s.add(Value(value_hash="t" * 40, type="redun.Task", format="x", value=b""))
s.add(Task(hash="t" * 40, name="f", namespace="", source=""))
s.add(Value(value_hash="e" * 40, type="redun.ErrorValue", format="x", value=b""))
s.add(Value(value_hash="v" * 40, type="builtins.int", format="x", value=b""))
shapes = []
i = 0
for end, cached, vtype in itertools.product([None, now], [False, True], [None, "err", "ok"]):
    i += 1
    jid = f"job{i:02d}"
    ch = None
    if vtype:
        ch = f"{i:040d}"
        s.add(CallNode(call_hash=ch, task_name="f", task_hash="t" * 40, args_hash="a" * 40, value_hash=("e" if vtype == "err" else "v") * 40))
    ex = Execution(id=f"ex{i:02d}", args="[]", job_id=jid)
    s.add(ex)
    s.add(Job(id=jid, start_time=now, end_time=end, cached=cached, call_hash=ch, task_hash="t" * 40, execution_id=ex.id))
    reachable = (end is None and cached is False and vtype is None) or (end is not None and vtype is not None)
    shapes.append((jid, dict(end_time=bool(end), cached=cached, value=vtype, reachable=reachable)))
s.commit()

mism = []
n = 0
for status in ["RUNNING", "CACHED", "FAILED", "DONE"]:
    got = {j.id for j in CallGraphQuery(s).filter_types(["Job"]).filter_job_statuses([status]).all() if isinstance(j, Job)}
    for jid, shape in shapes:
        n += 1
        job = s.get(Job, jid) if hasattr(s, "get") else s.query(Job).get(jid)
        job._status = None
        shown = job.status
        if (jid in got) != (shown == status) and shape["reachable"]:
            mism.append(dict(kind="job", filter=status, row=shape, displayed=shown, returned_by_filter=jid in got))
for status in ["RUNNING", "FAILED", "DONE"]:
    got = {e.id for e in CallGraphQuery(s).filter_types(["Execution"]).filter_execution_statuses([status]).all() if isinstance(e, Execution)}
    for jid, shape in shapes:
        n += 1
        ex = s.query(Execution).filter_by(job_id=jid).one()
        ex._status = None
        ex.job._status = None
        shown = ex.status
        if (ex.id in got) != (shown == status) and shape["reachable"]:
            mism.append(dict(kind="execution", filter=status, root_job_row=shape, displayed=shown, returned_by_filter=ex.id in got))
# multi-job executions: the execution filters look at the execution's root job only, not at any job of the execution
from redun.backends.db import Job as _J
k = 0
for root_shape, child_shape in itertools.product([(now, False, "ok"), (now, False, "err"), (None, False, None), (now, True, "ok")], repeat=2):
    k += 1
    exid = f"mx{k:02d}"
    ids = []
    for role, (end, cached, vtype) in (("root", root_shape), ("child", child_shape)):
        jid = f"{exid}-{role}"
        ch = None
        if vtype:
            ch = f"{k:038d}{'r' if role == 'root' else 'c'}0"
            s.add(CallNode(call_hash=ch, task_name="f", task_hash="t" * 40, args_hash="a" * 40, value_hash=("e" if vtype == "err" else "v") * 40))
        ids.append(jid)
        s.add(_J(id=jid, start_time=now, end_time=end, cached=cached, call_hash=ch, task_hash="t" * 40, execution_id=exid, parent_id=(ids[0] if role == "child" else None)))
    s.add(Execution(id=exid, args="[]", job_id=ids[0]))
s.commit()
for status in ["RUNNING", "FAILED", "DONE"]:
    got = {e.id for e in CallGraphQuery(s).filter_types(["Execution"]).filter_execution_statuses([status]).all() if isinstance(e, Execution)}
    for ex in s.query(Execution).filter(Execution.id.like("mx%")).all():
        n += 1
        ex._status = None
        ex.job._status = None
        shown = ex.status
        if (ex.id in got) != (shown == status):
            mism.append(dict(kind="execution with a child job", filter=status, execution=ex.id, displayed=shown, returned_by_filter=ex.id in got,
                             jobs=[(j.id, bool(j.end_time), j.cached) for j in s.query(_J).filter_by(execution_id=ex.id).all()]))
finish(bool(mism), witness=mism[:3], evaluations=n, bound="16 two-job executions (root x child status), complete finite row domain (end_time x cached x value type), reachable shapes only")
