"""C34 replay / bounded check: format_tag_value never fails and parse_tag_value(format_tag_value(v)) == v on all
strings up to length 4 over a tricky alphabet plus nested JSON values."""
import sys, os, itertools, math
sys.path.insert(0, os.path.dirname(os.path.abspath(__file__)))
from common import *
req = read_request()
from redun.tags import format_tag_value, parse_tag_value, format_tag_key_value, parse_tag_key_value

ALPHA = ["[", "]", "{", "}", '"', "1", ".", "e", "-", "a", ",", " ", "\n", "_", "t", ":"]
w = None
n = 0


def check(v):
    try:
        f = format_tag_value(v)
    except Exception as e:
        return dict(value=v, observed=f"format_tag_value raised {type(e).__name__}: {e}")
    try:
        p = parse_tag_value(f)
    except Exception as e:
        return dict(value=v, displayed=f, observed=f"parse_tag_value raised {type(e).__name__}: {e}")
    if p != v or type(p) is not type(v):
        return dict(value=v, displayed=f, reparsed=p)
    return None


maxlen = int(os.environ.get("C34_LEN", "3"))
for k in range(0, maxlen + 1):
    for chars in itertools.product(ALPHA, repeat=k):
        n += 1
        w = check("".join(chars))
        if w:
            break
    if w:
        break
if w is None:
    for s in ["true", "false", "null", "nan", "inf", "-inf", "1e5", "0x10", "1_0", "١٢", " 12", "12 ", "1.", ".5", "+3", "--1", "True", "None", "NaN", "Infinity", '"abc"', "[abc", "{a", '"', "[1]", '{"a": 1}', "a=b", "a,b"]:
        n += 1
        w = check(s)
        if w:
            break
if w is None:
    for v in [0, -1, 10**30, 1.5, -0.0, 1e22, 1e-7, True, False, None, [], {}, [1, "a", None], {"b": [1, {"c": "x y"}], "a": 1.5}, ["[", '"'], {"k": "v,w"}]:
        n += 1
        w = check(v)
        if w:
            break
finish(w is not None, witness=w, evaluations=n, bound=f"all strings of length <= {maxlen} over a 16-character alphabet (brackets, quote, digits, dot, e, minus, comma, space, newline, underscore), 28 look-alike strings, 16 JSON values")
