"""C14 replay / bounded check: all structures up to a size bound -- encoding injective up to (str ~ utf-8 bytes, list ~ tuple),
decode(encode(v)) is the original, dict key order irrelevant, bools (also nested) rejected."""
import sys, os, itertools
sys.path.insert(0, os.path.dirname(os.path.abspath(__file__)))
from common import *
req = read_request()
from redun.bcoding import bencode, bdecode
from redun.hashing import hash_struct

LEAVES = [0, -1, 10, "", "a", "é", "0:", "éé0:", b"", b"a", b"\xc3\xa9", b"\xc3\xa9\xc3\xa90:", b"\xff"]


def canon(v):
    if isinstance(v, bool):
        return ("bool", v)
    if isinstance(v, int):
        return ("i", v)
    if isinstance(v, str):
        return ("b", v.encode())
    if isinstance(v, bytes):
        return ("b", v)
    if isinstance(v, (list, tuple)):
        return ("l", tuple(canon(x) for x in v))
    if isinstance(v, dict):
        return ("d", tuple(sorted((canon(k), canon(x)) for k, x in v.items())))
    return ("?", repr(v))


def structures(depth):
    vals = list(LEAVES)
    if depth == 0:
        return vals
    sub = structures(depth - 1)
    small = sub[: 16]
    out = list(sub)
    out.append([])
    out.append({})
    for a in small:
        out.append([a])
        out.append((a,))
        out.append({"a": a})
    for a, b in itertools.product(small[:9], repeat=2):
        out.append([a, b])
        out.append({"a": a, "b": b})
        out.append({"b": b, "a": a})
    return out


depth = int(os.environ.get("C14_DEPTH", "2"))
w = None
n = 0
seen = {}
for v in structures(depth):
    n += 1
    try:
        e = bencode(v)
    except Exception as ex:
        w = dict(check="encodable value rejected", value=repr(v), observed=f"{type(ex).__name__}: {ex}")
        break
    c = canon(v)
    if e in seen and seen[e][0] != c:
        w = dict(check="injectivity", a=repr(seen[e][1]), b=repr(v), common_encoding=repr(e))
        break
    seen.setdefault(e, (c, v))
    try:
        d = bdecode(e)
    except Exception as ex:
        w = dict(check="decode(encode(v))", value=repr(v), encoding=repr(e), observed=f"{type(ex).__name__}: {ex}")
        break
    if canon(d) != c:
        w = dict(check="decode(encode(v)) == v", value=repr(v), encoding=repr(e), decoded=repr(d))
        break
if w is None:
    for bad in [True, False, [True], [1, [False]], {"a": True}, {"a": [True]}, (True,), 1.5, [None], {"a": None}]:
        n += 1
        try:
            e = bencode(bad)
            w = dict(check="non-encodable value must be rejected", value=repr(bad), observed_encoding=repr(e))
            break
        except TypeError:
            pass
        except Exception as ex:
            w = dict(check="non-encodable value must be rejected with TypeError", value=repr(bad), observed=f"{type(ex).__name__}")
            break
if w is None:
    n += 1
    if hash_struct(["Eval", {"cache": 1}]) != hash_struct(["Eval", dict([("cache", 1)])]) or bencode({"b": 1, "a": 2}) != bencode({"a": 2, "b": 1}):
        w = dict(check="mapping key order never matters")
finish(w is not None, witness=w, evaluations=n, distinct=len(seen), bound=f"all structures of nesting depth <= {depth} over 13 leaves (ints, unicode/ascii strings, byte strings incl. invalid utf-8) with lists, tuples and dicts of width <= 2")
