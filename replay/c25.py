"""C25 replay / bounded check: advance / rollback histories on a real sqlite backend against a reference lineage model, plus a workflow
in which a cached result holding a rolled-back handle state must not be replayed."""
import sys, os, itertools, random
sys.path.insert(0, os.path.dirname(os.path.abspath(__file__)))
from common import *
req = read_request()
from redun import Handle, task
from redun.backends.db import RedunBackendDb

redun_namespace = "c25"


class Conn(Handle):
    def __init__(self, name, uri="db", namespace=None):
        self.uri = uri


n = 0
w = None
samples = []


class Model:
    """reference lineage: states by hash, derivation edges; rollback(s) invalidates every state derived from s (transitively);
    deriving a state (again) makes it and the states it was derived from valid"""
    def __init__(self):
        self.valid, self.kids, self.name = {}, {}, {}

    def advance(self, parent, child, name):
        for h in (parent, child):
            self.valid[h] = True
            self.name[h] = name
        self.kids.setdefault(parent, set()).add(child)

    def rollback(self, h):
        todo, seen = list(self.kids.get(h, ())), set()
        while todo:
            x = todo.pop()
            if x in seen:
                continue
            seen.add(x)
            todo.extend(self.kids.get(x, ()))
        for x in seen:
            self.valid[x] = False

    def is_valid(self, h):
        return bool(self.valid.get(h, False))


def run_history(hist):
    """hist: list of ops over a growing list of states; returns a witness or None"""
    global n
    b = RedunBackendDb(db_uri="sqlite:///:memory:")
    with silence():
        b.load()
    m = Model()
    states = [Conn("a"), Conn("b")]
    parent_of = {}
    for step, op in enumerate(hist):
        kind, idx, arg = op
        if idx >= len(states):
            return None
        s = states[idx]
        name = s.__handle__.fullname
        if kind == "call":
            c = s.apply_call(f"callhash{arg:034d}")
        elif kind == "fork":
            c = s.fork(f"k{arg}")
        if kind in ("call", "fork"):
            b.advance_handle([s], c)
            m.advance(s.__handle__.hash, c.__handle__.hash, name)
            if all(x.__handle__.hash != c.__handle__.hash for x in states):
                states.append(c)
        else:
            b.rollback_handle(s)
            m.rollback(s.__handle__.hash)
        n += 1
        for j, x in enumerate(states):
            got, want = bool(b.is_valid_handle(x)), m.is_valid(x.__handle__.hash)
            if got != want:
                return dict(history=hist[: step + 1], state_index=j, backend_says_valid=got, model_says_valid=want)
    return None


def ops(nstates):
    for i in range(nstates):
        yield ("call", i, 1)
        yield ("call", i, 2)
        yield ("fork", i, 1)
        yield ("rollback", i, 0)


def histories(length, nstates=2):
    if length == 0:
        yield []
        return
    for op in ops(nstates):
        grows = op[0] != "rollback"
        for rest in histories(length - 1, nstates + (1 if grows else 0)):
            yield [op] + rest


maxlen = int(os.environ.get("C25_LEN", "2"))
for L in range(1, maxlen + 1):
    for h in histories(L):
        w = run_history(h)
        if w:
            break
    if w:
        break
if w is None:
    rnd = random.Random(int(os.environ.get("VERIF_SEED", "0")) + 25)
    for _ in range(int(os.environ.get("C25_RANDOM", "60"))):
        h, ns = [], 2
        for _ in range(rnd.choice([5, 6, 7])):
            op = rnd.choice(list(ops(ns)))
            h.append(op)
            if op[0] != "rollback":
                ns += 1
        w = run_history(h)
        if w:
            break
    samples.append(dict(history=h))
if w is None:
    # workflow level: a cached result that holds a rolled-back state is executed again, not replayed
    s = quiet_scheduler()
    calls = []

    @task()
    def step1(conn):
        calls.append("step1")
        return conn

    def make_step2(version):
        @task(name="step2", version=version)
        def step2(conn):
            calls.append("step2-" + version)
            return conn
        return step2

    def make_flow(step2):
        @task(name="flow")
        def flow():
            return step2(step1(Conn("wf")))
        return flow

    n += 1
    with silence():
        s.run(make_flow(make_step2("v1"))())
        calls.clear()
        s.run(make_flow(make_step2("v2"))())       # branches off after step1: the v1 end state is rolled back
        second = list(calls)
        calls.clear()
        s.run(make_flow(make_step2("v1"))())       # the v1 result is cached but holds an invalidated state
        third = list(calls)
    if second != ["step2-v2"] or third != ["step2-v1"]:
        w = dict(case="workflow with a handle: v1, v2, v1 again", second_run_calls=second, third_run_calls=third,
                 expected="['step2-v2'] then ['step2-v1'] (the cached v1 result holds a rolled-back state and must not be replayed)")
finish(w is not None, witness=w, evaluations=n, samples=samples[:2],
       bound=f"all histories of <= {maxlen} operations over (apply call 1/2, fork, roll back) x states of two handle names, {os.environ.get('C25_RANDOM', '60')} seeded random histories of 5..7 operations, one 3-run workflow")
