"""C03/C22 replay / fault enumeration: kill the scheduler process right after the k-th database commit (every k) while it
records a check_valid='shallow' workflow; then run again in a fresh process with the inner task's version bumped.
A stale replay of the old result is a violation (the recorded subtree of the shallow call node must include the inner task)."""
import sys, os, subprocess, tempfile, json, shutil
sys.path.insert(0, os.path.dirname(os.path.abspath(__file__)))
from common import *
req = read_request()

CHILD = r'''
import sys, os
sys.path.insert(0, os.environ.get("VERIF_REPO", "/repo"))
phase, dbdir, kill_at = sys.argv[1], sys.argv[2], int(sys.argv[3])
import sqlalchemy.orm
count = {"n": 0}
orig = sqlalchemy.orm.Session.commit
def commit(self):
    orig(self)
    count["n"] += 1
    if kill_at and count["n"] == kill_at:
        os._exit(17)
from redun import task, Scheduler
from redun.config import Config
ver = "1" if phase == "1" else "2"
@task(namespace="c03r", version=ver)
def inner(x):
    return "inner-v%s-%d" % (ver, x)
@task(namespace="c03r", version="1")
def middle(x):
    return inner(x)
@task(namespace="c03r", version="1", check_valid="shallow")
def outer(x):
    return [middle(x)]
import logging
logging.getLogger("redun").setLevel(logging.CRITICAL)
s = Scheduler(config=Config({"backend": {"db_uri": "sqlite:///" + os.path.join(dbdir, "redun.db")}}))
s.load()
sqlalchemy.orm.Session.commit = commit      # crash points: every commit after the backend is loaded (schema creation is not the subject)
r = s.run(outer(1))
print("RESULT", r, "COMMITS", count["n"])
'''
tmp = tempfile.mkdtemp(prefix="c03r_", dir=os.path.join(os.path.dirname(os.path.dirname(os.path.abspath(__file__))), ".work"))
script = os.path.join(tmp, "child.py")
open(script, "w").write(CHILD)


def run(phase, dbdir, kill_at):
    p = subprocess.run(["/venv/bin/python", script, phase, dbdir, str(kill_at)], capture_output=True, text=True, timeout=300)
    return p.returncode, p.stdout


w = None
n = 0
try:
    d0 = os.path.join(tmp, "clean")
    os.makedirs(d0)
    rc, out = run("1", d0, 0)
    total = int(out.strip().split("COMMITS")[-1]) if "COMMITS" in out else 0
    if rc != 0 or total == 0:
        w = dict(observed="clean run failed: " + out[-300:])
    stride = int(os.environ.get("C03_STRIDE", "1"))
    for k in range(1, total + 1, stride):
        if w:
            break
        n += 1
        d = os.path.join(tmp, f"k{k}")
        os.makedirs(d)
        rc, out = run("1", d, k)
        rc2, out2 = run("2", d, 0)
        if "RESULT" not in out2:
            w = dict(crash_after_commit=k, of=total, observed="recovery run failed: " + out2[-300:])
        elif "inner-v1" in out2:
            w = dict(crash_after_commit=k, of=total, scenario="process killed after commit #%d while recording outer(check_valid=shallow) -> middle -> inner; then inner's version bumped" % k,
                     expected="['inner-v2-1']", observed=out2.strip().split("RESULT")[-1].split("COMMITS")[0].strip())
        shutil.rmtree(d, ignore_errors=True)
    # crash family 2: a child without provenance below the shallow task (its task is only known from the parent's subtree rows)
    if w is None:
        CHILD2 = CHILD.replace('namespace="c03r"', 'namespace="c03p"').replace("""@task(namespace="c03p", version="1")
def middle(x):
    return inner(x)""", """@task(namespace="c03p", version=ver, prov=False)
def middle(x):
    return inner(x + (0 if ver == "1" else 10))""").replace("""@task(namespace="c03p", version=ver)
def inner(x):
    return "inner-v%s-%d" % (ver, x)""", """@task(namespace="c03p", version="1")
def inner(x):
    return "inner-%d" % x""")
        script3 = os.path.join(tmp, "child2.py")
        open(script3, "w").write(CHILD2)

        def run2(phase, dbdir, kill_at):
            p = subprocess.run(["/venv/bin/python", script3, phase, dbdir, str(kill_at)], capture_output=True, text=True, timeout=300)
            return p.returncode, p.stdout
        d0 = os.path.join(tmp, "clean2")
        os.makedirs(d0)
        rc, out = run2("1", d0, 0)
        total2 = int(out.strip().split("COMMITS")[-1]) if "COMMITS" in out else 0
        if rc != 0 or total2 == 0 or "inner-1" not in out:
            w = dict(observed="clean run of the no-provenance workflow failed: " + out[-300:])
        for k in range(1, total2 + 1, stride):
            if w:
                break
            n += 1
            d = os.path.join(tmp, f"p{k}")
            os.makedirs(d)
            run2("1", d, k)
            rc2, out2 = run2("2", d, 0)
            if "RESULT" not in out2:
                w = dict(crash_after_commit=k, of=total2, observed="recovery run failed: " + out2[-300:])
            elif "inner-11" not in out2:
                w = dict(crash_after_commit=k, of=total2, scenario="process killed after commit #%d while recording outer(check_valid=shallow) -> middle(prov=False) -> inner; then middle edited to call inner(x + 10)" % k,
                         expected="['inner-11']", observed=out2.strip().split("RESULT")[-1].split("COMMITS")[0].strip())
            shutil.rmtree(d, ignore_errors=True)
    # second scenario family (no crash): a final result served by same-execution CSE under a second, shallow parent
    if w is None:
        CSE = r"""
import sys, os
sys.path.insert(0, os.environ.get("VERIF_REPO", "/repo"))
from redun import task, Scheduler
from redun.config import Config
from redun.scheduler import catch_all
import logging; logging.getLogger("redun").setLevel(logging.CRITICAL)
ver, dbdir = sys.argv[1], sys.argv[2]
@task(namespace="c03s", version=ver)
def C(x): return "C%s-%d" % (ver, x)
@task(namespace="c03s", version="1")
def A(x): return C(x)
@task(namespace="c03s", version="1")
def P1(x): return A(x)
@task(namespace="c03s", version="1", check_valid="shallow")
def P2(x, dep): return A(x)
@task(namespace="c03s", version="1")
def main():
    r1 = P1(1)
    return [r1, P2(1, r1)]
s = Scheduler(config=Config({"backend": {"db_uri": "sqlite:///" + os.path.join(dbdir, "redun.db")}})); s.load()
print("RESULT", s.run(main()) if ver == "1" else s.run(P2(1, "C1-1")))
"""
        script2 = os.path.join(tmp, "cse.py")
        open(script2, "w").write(CSE)
        d = os.path.join(tmp, "cse")
        os.makedirs(d)
        n += 1
        subprocess.run(["/venv/bin/python", script2, "1", d], capture_output=True, text=True, timeout=300)
        p2 = subprocess.run(["/venv/bin/python", script2, "2", d], capture_output=True, text=True, timeout=300)
        if "C1-1" in p2.stdout.split("RESULT")[-1]:
            w = dict(scenario="main -> P1 -> A(1) -> C, then in the same execution P2(check_valid=shallow) -> A(1) served by CSE; C's version bumped; P2 called again",
                     expected="C2-1", observed=p2.stdout.split("RESULT")[-1].strip())
finally:
    shutil.rmtree(tmp, ignore_errors=True)
finish(w is not None, witness=w, evaluations=n, distinct=n, bound="process death after each of the database commits of one recording run of a 3-task shallow workflow (and of its variant with a no-provenance child), followed by an edited recovery run")
