"""C35 replay / bounded check: generated configurations through get_config_dict and back."""
import sys, os, itertools
sys.path.insert(0, os.path.dirname(os.path.abspath(__file__)))
from common import *
req = read_request()
from redun.config import Config
from redun.cli import get_config_dir
from configparser import SectionProxy

local = get_config_dir()
VALUES = ["plain", "a b", "x$$y", "$$", "pre${x}post", "100%", local + "/db", "sqlite:///" + local + "/r.db", "$${not_a_ref}", ""]
SECTIONS = ["a", "a.b", "b", "a.b.c"]
n = 0
w = None
samples = []


def flatten(cfg, path=""):
    out = {}
    for key in cfg.keys():
        obj = cfg[key]
        p = f"{path}.{key}" if path else key
        if isinstance(obj, SectionProxy):
            out[p] = {k: v for k, v in obj.items()}
        else:
            out.update(flatten(obj, p))
    return out


def build(secs, vals):
    text = ""
    vi = iter(vals)
    for s in secs:
        text += f"[{s}]\nx = ref\n"
        for opt in ("k1", "k2")[: len(vals) // len(secs)]:
            text += f"{opt} = {next(vi)}\n"
    c = Config()
    c.read_string(text)
    return c, text


for ns in (1, 2):
    for secs in itertools.combinations(SECTIONS, ns):
        for nopt in (1, 2):
            for vals in itertools.product(VALUES, repeat=ns * nopt):
                if w:
                    break
                n += 1
                try:
                    c, text = build(list(secs), list(vals))
                    before = flatten(c)
                except Exception:
                    continue    # not a readable configuration in the first place
                try:
                    d = c.get_config_dict()
                    c2 = Config(config_dict=d)
                    after = flatten(c2)
                except Exception as e:
                    w = dict(ini=text, observed=f"round trip raised {type(e).__name__}: {e}")
                    break
                if before != after:
                    diff = {s: {k: (before.get(s, {}).get(k), after.get(s, {}).get(k)) for k in set(before.get(s, {})) | set(after.get(s, {})) if before.get(s, {}).get(k) != after.get(s, {}).get(k)}
                            for s in set(before) | set(after)}
                    w = dict(ini=text, observed="sections / effective values differ after the round trip", differences={s: v for s, v in diff.items() if v} or dict(sections=(sorted(before), sorted(after))))
                    break
                # replacing the config dir rewrites exactly the values that contain it
                try:
                    d2 = c.get_config_dict(replace_config_dir="/elsewhere")
                    after2 = flatten(Config(config_dict=d2))
                except Exception as e:
                    w = dict(ini=text, observed=f"round trip with replace_config_dir raised {type(e).__name__}: {e}")
                    break
                for s, opts in before.items():
                    for k, v in opts.items():
                        want = v.replace(local, "/elsewhere")
                        if after2.get(s, {}).get(k) != want:
                            w = dict(ini=text, observed="replace_config_dir changed the wrong values", section=s, option=k, value=v, got=after2.get(s, {}).get(k), expected=want)
                if len(samples) < 2 and "$" in text:
                    samples.append(dict(ini=text))
            if w:
                break
        if w:
            break
    if w:
        break
finish(w is not None, witness=w, evaluations=n, samples=samples,
       bound="all configurations with 1-2 sections from {a, a.b, b, a.b.c} x 1-2 options x 10 values (literal dollars, references, local config dir, spaces, percent, empty), read from INI text")
