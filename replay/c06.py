"""C06 replay / bounded check on the real scheduler.

A deterministic executor holds every submitted job; each time the scheduler's event queue runs dry, one held
job (chosen by an explicit completion schedule) is run inline and reported back through done_job/reject_job --
exactly what an executor thread does, but in an order the driver controls.  All completion orders of small
programs with repeated calls are enumerated.  Monitored on every run:
  * a call (task, arguments, context) whose job did not opt out (cache_scope=NONE / prov=False) is handed to
    the executor at most once per execution;
  * every such duplicate call receives the same result or the same error;
  * the registration invariant of contracts/c06.py (R/U over Scheduler._pending_jobs and the held jobs) is evaluated
    after every scheduler event and reported as a diagnostic note only (a broken invariant is not yet a broken property).
"""
import sys, os, itertools, queue, random
sys.path.insert(0, os.path.dirname(os.path.abspath(__file__)))
from common import *

req = read_request()
obl = req.get("obligation", "")

from redun import task, Scheduler
from redun.executors.base import Executor, register_executor
from redun.scheduler import catch, CacheScope, CacheResult, ErrorValue


def opted_out(job):
    if job.get_option("cache_scope", CacheScope.BACKEND, as_type=CacheScope) == CacheScope.NONE:
        return True
    allowed = job.get_option("allowed_cache_results", None)
    if allowed is not None and CacheResult.CSE not in allowed:
        return True
    return not job.recording_provenance()


class Held(Executor):
    """submit = hold the job; run_one = what an executor worker does for one job"""

    def __init__(self, name="default", scheduler=None, config=None):
        super().__init__(name, scheduler, config)
        self.held, self.log_, self.produced = [], [], {}

    def submit(self, job):
        key = (job.task.fullname, job.eval_hash, job.context_hash)
        self.log_.append((key, opted_out(job)))
        self.held.append(job)

    submit_script = submit

    def run_one(self, idx):
        job = self.held.pop(idx % len(self.held))
        args, kwargs = job.args
        key = (job.task.fullname, job.eval_hash, job.context_hash)
        try:
            result = job.task.func(*args, **kwargs)
        except Exception as e:
            self.produced.setdefault(key, set()).add(("error", repr(e)))
            self._scheduler.reject_job(job, e)
        else:
            self.produced.setdefault(key, set()).add(("ok", repr(result)))
            self._scheduler.done_job(job, result)


class DrivenQueue(queue.Queue):
    """the scheduler's event queue; when it runs dry the next completion of the schedule is delivered"""

    def __init__(self, ex, schedule, check):
        super().__init__()
        self.ex, self.schedule, self.pos, self.check, self.choice_sizes = ex, schedule, 0, check, []

    def get(self, block=True, timeout=None):
        self.check()
        if self.empty() and self.ex.held:
            self.choice_sizes.append(len(self.ex.held))
            idx = self.schedule[self.pos] if self.pos < len(self.schedule) else 0
            self.pos += 1
            self.ex.run_one(idx)
        return super().get(block=False) if not self.empty() else super().get(block, 0.01)


COUNT = {"n": 0}


def programs():
    ns = "c06replay"

    @task(namespace=ns)
    def f(x):
        COUNT["n"] += 1
        return ("f", x, COUNT["n"])

    @task(namespace=ns)
    def g(dep):
        return f(1)

    @task(namespace=ns)
    def gl(dep):
        return f.options(limits=["r"])(1)

    @task(namespace=ns)
    def h(dep):
        return [f(1), f(1)]

    @task(namespace=ns)
    def boom(x):
        COUNT["n"] += 1
        raise ValueError(f"boom{COUNT['n']}")

    @task(namespace=ns)
    def rec(err):
        return ("err", str(err))

    @task(namespace=ns)
    def slow(x):
        return x

    @task(namespace=ns)
    def main(*xs):
        return list(xs)

    noprov = lambda: f.options(prov=False)(1)
    nocache = lambda: f.options(cache_scope="NONE")(1)
    cseonly = lambda: f.options(cache_scope="CSE")(1)
    nocse = lambda: f.options(allowed_cache_results={CacheResult.SINGLE, CacheResult.ULTIMATE})(1)
    ctx = lambda: f.update_context({"k": 1})(1)
    # (name, expression builder, {limits config})
    yield "two plain duplicates", lambda: main(f(1), f(1)), {}
    yield "duplicate created after the first finished", lambda: main(f(1), g(slow(0))), {}
    yield "no-provenance twin then late duplicate", lambda: main(f(1), noprov(), g(noprov())), {}
    yield "no-provenance twin first", lambda: main(noprov(), f(1), g(slow(0))), {}
    yield "cache_scope=NONE twin then late duplicate", lambda: main(f(1), nocache(), g(nocache())), {}
    yield "CSE-excluded twin then late duplicate", lambda: main(f(1), nocse(), g(nocse())), {}
    yield "CSE-scope twin", lambda: main(f(1), cseonly(), g(slow(0))), {}
    yield "same call under another context", lambda: main(f(1), ctx(), f(1), ctx()), {}
    yield "duplicates inside one parent and across parents", lambda: main(h(slow(0)), f(1), h(slow(1))), {}
    yield "failing duplicates under catch", lambda: main(catch(boom(1), ValueError, rec), catch(boom(1), ValueError, rec), catch(g(slow(0)), ValueError, rec)), {}
    yield "failing call, late duplicate", lambda: main(catch(boom(1), ValueError, rec), catch(main(slow(0), boom(1)), ValueError, rec)), {}
    yield "duplicates holding a resource limit together", lambda: main(f.options(limits=["r"])(1), gl(slow(1)), gl(slow(2))), {"limits": {"r": "2"}}
    yield "duplicates waiting for a resource limit", lambda: main(f.options(limits=["r"])(1), gl(slow(1)), slow.options(limits=["r"])(0), gl(slow(2))), {"limits": {"r": "1"}}


def invariant(s, ex):
    """R and U of contracts/c06.py on the concrete state (jobs held by the executor = submitted, not finalized)"""
    bad = []
    for j in ex.held:
        if not opted_out(j) and s._pending_jobs.get((j.eval_hash, j.context_hash)) is not j:
            # a job without provenance is opted out by the property statement; cache_scope=NONE / CSE-excluded by the code
            bad.append(f"R: running job {j.task.fullname}{j.args[0]} (eval_hash {j.eval_hash[:8]}) is not the registered job of its call")
    for k, j in s._pending_jobs.items():
        if k != (j.eval_hash, j.context_hash):
            bad.append("U: registration key differs from the job's own key")
    return bad


def run(name, build, cfg, schedule):
    COUNT["n"] = 0
    s = quiet_scheduler(cfg)
    ex = Held("default", s)
    s.executors = {"default": ex}
    inv_errors = []
    q = DrivenQueue(ex, schedule, lambda: inv_errors.extend(invariant(s, ex)))
    s.events_queue = q
    outcomes = {}
    real_exec = s._exec_job_main_thread

    def exec_and_watch(job, eval_args):
        real_exec(job, eval_args)
        if job.eval_hash and not opted_out(job):
            key = (job.task.fullname, job.eval_hash, job.context_hash)
            job.result_promise.then(lambda v: outcomes.setdefault(key, []).append(("ok", repr(v))),
                                    lambda e: outcomes.setdefault(key, []).append(("error", repr(e))))
    s._exec_job_main_thread = exec_and_watch
    try:
        with silence():
            result = s.run(build())
    except BaseException as e:
        result = ("raised", type(e).__name__, str(e))
    errors = []
    runs = {}
    for key, out in ex.log_:
        if not out:
            runs[key] = runs.get(key, 0) + 1
    for key, n in runs.items():
        if n > 1:
            errors.append(f"call {key[0]} eval_hash={key[1][:8]} context={key[2]} handed to the executor {n} times (no opt-out)")
    # leaf tasks only (their return value is the job's final result).  A duplicate must receive an outcome that a run of this
    # call produced; with at most one run that did not opt out (checked above) all duplicates then share it.  A run by an
    # opted-out twin is a legitimate second run, and its recorded outcome is a legitimate outcome of the same call.
    for key, outs in outcomes.items():
        if key[0].split(".")[-1] in ("f", "boom"):
            foreign = [o for o in outs if o not in ex.produced.get(key, set())]
            if foreign:
                errors.append(f"duplicate of call {key[0]} eval_hash={key[1][:8]} received {foreign[0]}, which no run of that call produced ({sorted(ex.produced.get(key, set()))[:3]})")
            if sum(1 for k, out in ex.log_ if k == key) <= 1 and len(set(outs)) > 1:
                errors.append(f"duplicates of call {key[0]} eval_hash={key[1][:8]} received different outcomes: {sorted(set(outs))[:3]}")
    return errors, result, q.choice_sizes, len(ex.log_), list(dict.fromkeys(inv_errors))


INV_NOTES = []


def explore(name, build, cfg, cap):
    """enumerate completion orders: DFS over the choice points actually met (sizes of the held list)"""
    n_runs, distinct, witness = 0, set(), None
    stack = [[]]
    while stack and n_runs < cap:
        sched = stack.pop()
        errors, result, sizes, nsub, inv = run(name, build, cfg, sched)
        INV_NOTES.extend(f"{name} / schedule {sched}: {m}" for m in inv)
        n_runs += 1
        distinct.add(tuple(sched + [0] * (len(sizes) - len(sched))))
        if errors:
            witness = dict(program=name, completion_schedule=sched, errors=errors[:4], result=repr(result)[:300], submissions=nsub)
            break
        # extend at the first choice point beyond the given prefix
        for pos in range(len(sched), len(sizes)):
            for alt in range(1, sizes[pos]):
                stack.append(sched + [0] * (pos - len(sched)) + [alt])
    return n_runs, len(distinct), witness, not stack


def main():
    bounded = req.get("bounded")
    thorough = os.environ.get("VERIF_TIER") == "thorough"
    cap = 400 if thorough else 60
    total, distinct, samples, exhaustive = 0, 0, [], True
    for name, build, cfg in programs():
        n, d, w, done = explore(name, build, cfg, cap)
        total += n
        distinct += d
        exhaustive = exhaustive and done
        samples.append({"program": name, "completion_orders_run": n, "all_orders_covered": done})
        if w:
            finish(True, witness=w, evaluations=total, distinct=distinct, invariant_notes=INV_NOTES[:5],
                   bound=f"{len(samples)} programs, completion orders enumerated depth-first (cap {cap} per program)")
    finish(False, evaluations=total, distinct=distinct, samples=samples[:6], exhaustive=exhaustive, invariant_notes=INV_NOTES[:5],
           bound=f"{len(samples)} generated programs with repeated calls (plain, no-provenance, cache_scope NONE/CSE, CSE excluded, contexts, failing, "
                 f"resource limits); every completion order enumerated depth-first up to {cap} orders per program; invariant R/U checked after every scheduler event")


main()
