"""C38 replay / bounded check: expressions evaluated directly and through subrun (thread executor, file-backed sqlite shared by both schedulers)."""
import sys, os, tempfile, shutil
sys.path.insert(0, os.path.dirname(os.path.abspath(__file__)))
from common import *
req = read_request()
from redun import task, Scheduler
from redun.config import Config
from redun.scheduler import subrun, catch
from redun.backends.db import Execution, Job, CallNode, Evaluation
from redun.task import CacheScope

redun_namespace = "c38"
n = 0
w = None
samples = []
calls = []


@task()
def leaf(x):
    calls.append(("leaf", x))
    return x * 2


@task()
def add(a, b):
    return a + b


@task()
def tree(k):
    if k == 0:
        return leaf(1)
    return add(tree(k - 1), leaf(k))


@task()
def boom(x):
    raise ValueError("boom %r" % (x,))


@task()
def outer_boom(x):
    return add(leaf(x), boom(x))


EXPRS = [("value", lambda: 7, False), ("leaf", lambda: leaf(3), False), ("tree2", lambda: tree(2), False), ("list", lambda: [leaf(1), {"k": leaf(2)}], False),
         ("boom", lambda: boom(1), True), ("outer_boom", lambda: outer_boom(2), True)]


def outcome(s, expr):
    try:
        with silence():
            return ("ok", s.run(expr))
    except Exception as e:
        return ("err", type(e).__name__, str(e))


root = tempfile.mkdtemp(prefix="c38_")
import atexit as _atexit, shutil as _shutil
_atexit.register(lambda: _shutil.rmtree(root, ignore_errors=True))     # nothing is left under /tmp
cwd = os.getcwd()
os.chdir(root)
try:
    cfg = {"backend": {"db_uri": "sqlite:///" + os.path.join(root, "redun.db")}, "executors.default": {"type": "local", "mode": "thread"}}
    import logging
    logging.getLogger("redun").setLevel(logging.CRITICAL)
    for label, mk, fails in EXPRS:
        for new_exec in (False, True):
            n += 1
            d = tempfile.mkdtemp(dir=root)
            cfg1 = {"backend": {"db_uri": "sqlite:///" + os.path.join(d, "r.db")}, "executors.default": {"type": "local", "mode": "thread"}}
            s1 = Scheduler(config=Config(config_dict=cfg1)); s1.load()
            direct = outcome(s1, mk())
            d2 = tempfile.mkdtemp(dir=root)
            cfg2 = {"backend": {"db_uri": "sqlite:///" + os.path.join(d2, "r.db")}, "executors.default": {"type": "local", "mode": "thread"}}
            s2 = Scheduler(config=Config(config_dict=cfg2)); s2.load()

            @task(name=f"main_{label}_{int(new_exec)}")
            def main():
                return subrun(mk(), executor="default", new_execution=new_exec)
            via = outcome(s2, main())
            if direct != via:
                w = dict(case=f"{label} new_execution={new_exec}", direct=repr(direct)[:120], through_subrun=repr(via)[:120])
                break
            if (direct[0] == "err") != fails:
                w = dict(case=label, observed="unexpected outcome kind", direct=repr(direct)[:100])
                break
            sess = s2.backend.session
            sess.expire_all()
            execs = sess.query(Execution).all()
            if not new_exec:
                # the sub-execution's jobs hang under the calling job (the subrun root task's job) in the same execution
                if len(execs) != 1:
                    w = dict(case=f"{label} extend", observed="extending the current execution created another execution", executions=len(execs))
                    break
                jobs = sess.query(Job).all()
                root_jobs = [j for j in jobs if j.task.name == "subrun_root_task"]
                if len(root_jobs) != 1:
                    w = dict(case=f"{label} extend", observed="expected one subrun_root_task job", found=len(root_jobs))
                    break
                kids = [j for j in jobs if j.parent_id == root_jobs[0].id]
                if label != "value" and not kids:
                    w = dict(case=f"{label} extend", observed="no job of the sub-execution is recorded under the calling job")
                    break
                if any(j.execution_id != root_jobs[0].execution_id for j in kids):
                    w = dict(case=f"{label} extend", observed="sub-execution job in another execution")
                    break
            else:
                if len(execs) != 2:
                    w = dict(case=f"{label} new execution", observed="expected a second execution", executions=len(execs))
                    break
            if len(samples) < 3:
                samples.append(dict(expr=label, new_execution=new_exec, outcome=repr(via)[:50]))
        if w:
            break
    if w is None:
        # the subrun root task is never served by a single-reduction (Evaluation) entry: a second scheduler run on the same backend whose
        # inner task was changed must re-enter the sub-scheduler (full validity checking happens inside)
        n += 1
        d = tempfile.mkdtemp(dir=root)
        cfgc = {"backend": {"db_uri": "sqlite:///" + os.path.join(d, "r.db")}, "executors.default": {"type": "local", "mode": "thread"}}
        version = ["1"]

        def make_inner():
            @task(name="inner_c38", version=version[0])
            def inner(x):
                return (version[0], x)
            return inner

        @task(name="main_c38_cached", check_valid="full")
        def main_cached(inner):
            return subrun(inner(5), executor="default", check_valid="full")
        s = Scheduler(config=Config(config_dict=cfgc)); s.load()
        r1 = outcome(s, main_cached(make_inner()))
        version[0] = "2"
        s = Scheduler(config=Config(config_dict=cfgc)); s.load()
        r2 = outcome(s, main_cached(make_inner()))
        if r1 != ("ok", ("1", 5)) or r2 != ("ok", ("2", 5)):
            w = dict(case="subrun after the inner task changed", first=repr(r1), second=repr(r2), expected_second="('ok', ('2', 5))")
finally:
    os.chdir(cwd)
    shutil.rmtree(root, ignore_errors=True)
finish(w is not None, witness=w, evaluations=n, samples=samples,
       bound="6 expressions (value, call, nested calls, containers, failing call, failing nested call) x new_execution in {False, True}, thread executor, plus a re-run after the inner task's version changed")
