"""shared helpers for replay drivers (run under /venv/bin/python against /repo)."""
import json, sys, os, io, contextlib, tempfile
sys.path.insert(0, os.environ.get("VERIF_REPO", "/repo"))


def read_request():
    try:
        data = sys.stdin.read()
        return json.loads(data) if data.strip() else {}
    except Exception:
        return {}


def finish(found, **kw):
    out = {"found": bool(found)}
    out.update(kw)
    print(json.dumps(out, default=repr))
    sys.exit(0)


def quiet_scheduler(config=None):
    from redun import Scheduler
    from redun.config import Config
    s = Scheduler(config=Config(config or {}))
    s.load()
    import logging
    logging.getLogger("redun").setLevel(logging.CRITICAL)
    s.logger = logging.getLogger("redun")
    return s


@contextlib.contextmanager
def silence():
    with contextlib.redirect_stderr(io.StringIO()), contextlib.redirect_stdout(io.StringIO()):
        yield
