"""C05 replay / bounded check: the same task called with and without update_context overrides, in either order, in one
execution and across executions, with full and shallow validity checking: results are never shared across contexts."""
import sys, os, itertools
sys.path.insert(0, os.path.dirname(os.path.abspath(__file__)))
from common import *
req = read_request()
from redun import task, get_context
ns = "c05replay"


def build(check_valid):
    kw = {"check_valid": check_valid} if check_valid else {}

    @task(namespace=ns, name="leaf_" + (check_valid or "full"))
    def leaf(v=get_context("a", "none")):
        return v

    @task(namespace=ns, name="mid_" + (check_valid or "full"), **kw)
    def mid():
        return leaf()

    @task(namespace=ns, name="main_" + (check_valid or "full"))
    def main(order):
        calls = {"0": mid(), "A": mid.update_context(a="A")(), "B": mid.update_context(a="B")()}
        return [calls[c] for c in order]
    return mid, main


w = None
n = 0
want = {"0": "none", "A": "A", "B": "B"}
for cv in (None, "shallow"):
    mid, main = build(cv)
    for order in itertools.permutations("0AB", 3):
        n += 1
        s = quiet_scheduler()
        with silence():
            got = s.run(main("".join(order)))
        if got != [want[c] for c in order]:
            w = dict(scenario="one execution", check_valid=cv or "full", call_order=order, expected=[want[c] for c in order], observed=got)
            break
        # across executions on the same backend
        s2 = quiet_scheduler()
        seq = []
        for c in order:
            n += 1
            t = mid if c == "0" else mid.update_context(a=c)
            with silence():
                seq.append(s2.run(t()))
        if seq != [want[c] for c in order]:
            w = dict(scenario="separate executions on one backend", check_valid=cv or "full", call_order=order, expected=[want[c] for c in order], observed=seq)
            break
    if w:
        break
finish(w is not None, witness=w, evaluations=n, bound="all orders of {no context, context A, context B} x {full, shallow} x {one execution, separate executions}")
