"""C08 replay / directed search: run small workflows on the real scheduler with a ghost monitor on
_consume_resources/_release_resources (units held per job, never released twice or without consume,
never above the limit, all returned at the end)."""
import sys, os, itertools
sys.path.insert(0, os.path.dirname(os.path.abspath(__file__)))
from common import *

req = read_request()
obl = req.get("obligation", "")

import redun
from redun import task, Scheduler
from redun.scheduler import catch, Job
import redun.scheduler as S


def unit_level():
    """pointwise arithmetic of the three leaf functions against their spec, small scope"""
    from collections import defaultdict
    s = quiet_scheduler()
    vals = [0, 1, 2]
    for lim_r, used_r, cnt in itertools.product([None, 1, 2], vals, vals):
        s.limits = {} if lim_r is None else {"r": lim_r}
        s.limits_used = defaultdict(int, {"r": used_r, "q": 1})
        jl = {"r": cnt}
        exp = (1 if lim_r is None else lim_r) - used_r - cnt >= 0
        if s._is_job_within_limits(jl) != exp:
            return dict(function="_is_job_within_limits", limits=s.limits, used={"r": used_r}, job_limits=jl, expected=exp)
        s._consume_resources(jl)
        if s.limits_used["r"] != used_r + cnt or s.limits_used["q"] != 1:
            return dict(function="_consume_resources", used_before={"r": used_r, "q": 1}, job_limits=jl, used_after=dict(s.limits_used))
        s._release_resources(jl)
        if s.limits_used["r"] != used_r or s.limits_used["q"] != 1:
            return dict(function="_release_resources", used_before={"r": used_r + cnt, "q": 1}, job_limits=jl, used_after=dict(s.limits_used))
    return None


class Monitor:
    def __init__(self, s):
        self.s, self.errors, self.cur = s, [], None
        self.total = {}
        oc, orl = s._consume_resources, s._release_resources
        mon = self

        def consume(jl):
            oc(jl)
            for k, v in jl.items():
                mon.total[k] = mon.total.get(k, 0) + v
            mon.check("consume")

        def release(jl):
            orl(jl)
            for k, v in jl.items():
                mon.total[k] = mon.total.get(k, 0) - v
            mon.check("release")
        s._consume_resources, s._release_resources = consume, release

    def check(self, where):
        for k, u in self.s.limits_used.items():
            if u < 0:
                self.errors.append(f"{where}: limits_used[{k}]={u} < 0 (units returned that were not held)")
            if u > self.s.limits.get(k, 1):
                self.errors.append(f"{where}: limits_used[{k}]={u} exceeds limit {self.s.limits.get(k, 1)}")


def workflows():
    ns = "c08replay"

    @task(limits={"r": 1}, namespace=ns)
    def boom():
        raise ValueError("boom")

    @task(limits={"r": 1}, namespace=ns)
    def parent():
        return boom()

    @task(limits=["r"], namespace=ns)
    def ok(x):
        return x + 1

    @task(namespace=ns)
    def recover(err):
        return 0

    @task(namespace=ns)
    def main_catch():
        return catch(parent(), ValueError, recover)

    @task(namespace=ns)
    def main_many():
        return [ok(1), ok(2), ok(1), catch(boom(), ValueError, recover)]

    @task(limits={"r": 1}, executor="nope", namespace=ns)
    def bad_exec():
        return 1

    @task(namespace=ns)
    def main_bad():
        return catch(bad_exec(), Exception, recover)

    yield "failing child of a limited task under catch", main_catch, {}, {"limits": {"r": "1"}}
    yield "duplicates + cached + failing, limit 2", main_many, {}, {"limits": {"r": "2"}}
    yield "unknown executor, real run", main_bad, {}, {"limits": {"r": "1"}}
    yield "unknown executor, dry run", bad_exec, {"dryrun": True}, {"limits": {"r": "1"}}
    yield "dry run of limited tasks", main_many, {"dryrun": True}, {"limits": {"r": "1"}}
    yield "unconfigured limit name", main_catch, {}, {}


def scenario_level():
    for name, wf, kw, cfg in workflows():
        s = quiet_scheduler(cfg)
        mon = Monitor(s)
        try:
            with silence():
                s.run(wf(), **kw)
        except BaseException as e:  # workflow errors are fine; accounting is what we watch
            pass
        for k, u in s.limits_used.items():
            if u != 0:
                mon.errors.append(f"end of run: limits_used[{k}]={u} != 0 (units not returned exactly once)")
        if mon.errors:
            return dict(scenario=name, run_kwargs=kw, config=cfg, observed=mon.errors[:4], limits_used=dict(s.limits_used))
    return None


def get_limits_level():
    """Job.get_limits against the documented list / dict forms"""
    from redun.expression import TaskExpression
    for form, want in [({"db": 2, "x": 1}, {"db": 2, "x": 1}), (["db", "x"], {"db": 1, "x": 1}), ({}, {}), ([], {})]:
        @task(limits=form, namespace="c08replay", name="gl%d" % (abs(hash(str(form))) % 1000))
        def t():
            return 1
        job = Job(t, t())
        got = dict(job.get_limits())
        if got != want:
            return dict(function="Job.get_limits", limits_option=form, expected=want, observed=got)
        job2 = Job(t, t.options(limits={"db": 3})())
        if dict(job2.get_limits()) != {"db": 3}:
            return dict(function="Job.get_limits", limits_option="call-time {'db': 3}", expected={"db": 3}, observed=dict(job2.get_limits()))
    return None


w = None
if "get_limits" in obl or not obl:
    w = get_limits_level()
if w is None and any(x in obl for x in ("_is_job_within_limits", "_consume_resources/", "_release_resources/")):
    w = unit_level()
if w is None:
    w = scenario_level()
if w is None:
    w = get_limits_level()
if w is None and not obl:
    w = unit_level()
finish(w is not None, witness=w)
