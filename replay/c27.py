"""C27 replay: small job trees with options set at definition, export (by an ancestor), call time and by the
scheduler; the options each job runs with are compared with the documented precedence."""
import sys, os, itertools
sys.path.insert(0, os.path.dirname(os.path.abspath(__file__)))
from common import *
req = read_request()
from redun import task
from redun.scheduler import get_current_scheduler, Job
ns = "c27replay"
seen = {}
orig = Job.get_options


def probe(self):
    r = orig(self)
    seen[self.task.name + ":" + str(self.expr._options.get("tag", ""))] = (dict(r), set(self.export_options))
    return r


Job.get_options = probe


@task(namespace=ns, a="def", b="def", c="def", d="def")
def child(x):
    return x


@task(namespace=ns, a="pdef")
def parent(x, mode):
    if mode == 0:
        return child(x)
    if mode == 1:
        return child.options(b="call", tag="t")(x)
    return child.options(b="call", c="call", tag="t")(x)


w = None
n = 0
for mode, exp_b, exp_c in itertools.product((0, 1, 2), (None, "exp"), (None, "exp")):
    n += 1
    s = quiet_scheduler()
    seen.clear()
    kw = {}
    if exp_b:
        kw["b"] = exp_b
    if exp_c:
        kw["c"] = exp_c
    p = parent.export_options(**kw) if kw else parent
    with silence():
        s.run(p(n, mode))
    key = "child:" + ("t" if mode else "")
    opts, exported = seen[key]
    want = {"a": "def", "b": "def", "c": "def", "d": "def"}
    for k, v in kw.items():
        want[k] = v                      # exported by the ancestor beats the definition
    if mode >= 1:
        want["b"] = "call"               # call time beats exported
    if mode == 2:
        want["c"] = "call"
    got = {k: opts.get(k) for k in want}
    if got != want:
        w = dict(mode=mode, exported=kw, expected=want, observed=got)
        break
    if not set(kw) <= exported:
        w = dict(mode=mode, exported=kw, observed=f"export names not inherited by the child: {sorted(exported)}")
        break
if w is None:
    # expression-valued options (also nested inside a container) are evaluated before the job uses them
    @task(namespace=ns)
    def two():
        return 2

    @task(namespace=ns)
    def leafopt(x):
        return x

    @task(namespace=ns)
    def top_expr():
        return [leafopt.options(memory=two(), tag="e1")(1), leafopt.options(resources={"memory": two()}, tag="e2")(2)]

    seen.clear()
    n += 1
    s = quiet_scheduler()
    with silence():
        s.run(top_expr())
    from redun.expression import Expression
    from redun.utils import iter_nested_value
    for key in ("leafopt:e1", "leafopt:e2"):
        opts, _ = seen.get(key, ({}, set()))
        leaves = list(iter_nested_value({k: v for k, v in opts.items()}))
        if any(isinstance(v, Expression) for v in leaves):
            w = dict(scenario="expression-valued option", job=key, observed=f"unevaluated expression in the job's options: {opts}")
            break
        if key == "leafopt:e1" and opts.get("memory") != 2:
            w = dict(scenario="expression-valued option", job=key, observed=opts)
            break
if w is None:
    # exported names accumulate DOWN the tree only: an export in one branch must not leak into a sibling branch
    @task(namespace=ns, memory=16)
    def private_child(x):
        return grand(x)

    @task(namespace=ns)
    def grand(x):
        return x

    @task(namespace=ns)
    def exporter(x):
        return grand.options(tag="under-exporter")(x)

    @task(namespace=ns)
    def top_siblings():
        return [exporter.options(tag="exp").export_options(memory=64)(1), private_child.options(tag="priv")(2)]

    seen.clear()
    n += 1
    s = quiet_scheduler()
    with silence():
        s.run(top_siblings())
    for key, (opts, exported) in seen.items():
        if key.startswith("grand:") and not key.endswith("under-exporter") and "memory" in opts:
            w = dict(scenario="export in one branch, private option of the same name in a sibling branch", job=key, observed=f"child inherited a non-exported option: memory={opts['memory']}, export names {sorted(exported)}")
            break
        if key.startswith("private_child") and "memory" in exported:
            w = dict(scenario="export in one branch leaks sideways", job=key, observed=f"export names {sorted(exported)}")
            break
Job.get_options = orig
finish(w is not None, witness=w, evaluations=n, bound="3 call modes x export of b x export of c")
