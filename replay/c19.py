"""C19 replay / bounded check: generated nested values through the real iter_nested_value / map_nested_value, compared with an independent
reference traversal (the specification the contracts state); nested expressions evaluated through the real scheduler."""
import sys, os, itertools, dataclasses, collections
from typing import Any
sys.path.insert(0, os.path.dirname(os.path.abspath(__file__)))
from common import *
req = read_request()
from redun.utils import iter_nested_value, map_nested_value

P = collections.namedtuple("P", ["x", "y"])


@dataclasses.dataclass
class D:
    a: Any
    b: Any = dataclasses.field(init=False, default=None)


@dataclasses.dataclass(frozen=True)
class F:
    a: Any


@dataclasses.dataclass(frozen=True)
class G:
    a: Any
    c: Any = dataclasses.field(init=False, default=None, compare=True)


class Leaf:
    def __init__(self, n):
        self.n = n

    def __repr__(self):
        return f"Leaf({self.n})"


def mkD(a, b):
    d = D(a)
    d.b = b
    return d


def mkG(a, c):
    g = G(a)
    object.__setattr__(g, "c", c)
    return g


def hashable(v):
    try:
        hash(v)
        return True
    except TypeError:
        return False


def gen(depth):
    """values of nesting depth <= depth, width <= 2"""
    leaves = [1, "s", Leaf(0)]
    if depth == 0:
        return leaves
    sub = gen(depth - 1)
    # keep the product small: a few representatives of the lower level
    reps = sub if depth == 1 else sub[:3] + [v for v in sub[3:] if type(v) in (list, tuple, P, set, dict, D, F, G)][:: max(1, len(sub) // 14)]
    out = list(leaves)
    for a in reps:
        out += [[a], (a,), mkD(a, 2), mkD(3, a), F(a), mkG(a, 4), mkG(5, a), {"k": a}]
        if hashable(a):
            out += [{a}, {a: 1}, {a: [a]}]
    for a, b in itertools.product(reps[:6], repeat=2):
        out += [[a, b], (a, b), P(a, b), {"k": a, "l": b}, mkD(a, b), mkG(a, b)]
        if hashable(a) and hashable(b):
            out += [{a, b}, {a: b}]
        if hashable(a):
            out += [{a: b, "z": a}]
    return out


def ref_leaves(v, out):
    """the specification: children of list / tuple / namedtuple / set in order, dict keys then values, every dataclass field; anything else is a leaf"""
    t = type(v)
    if t in (list, tuple, set) or (isinstance(v, tuple) and hasattr(v, "_fields")):
        for x in v:
            ref_leaves(x, out)
    elif t is dict:
        for k in v.keys():
            ref_leaves(k, out)
        for x in v.values():
            ref_leaves(x, out)
    elif dataclasses.is_dataclass(t):
        for f in dataclasses.fields(v):
            ref_leaves(getattr(v, f.name), out)
    else:
        out.append(v)
    return out


def same(a, b):
    """structural equality with identical types at every level (dataclass instances field by field, including non-init fields)"""
    if type(a) is not type(b):
        return False
    t = type(a)
    if t in (list, tuple) or (isinstance(a, tuple) and hasattr(a, "_fields")):
        return len(a) == len(b) and all(same(x, y) for x, y in zip(a, b))
    if t is set:
        return len(a) == len(b) and all(any(same(x, y) for y in b) for x in a)
    if t is dict:
        return len(a) == len(b) and all(same(x, y) for x, y in zip(a.keys(), b.keys())) and all(same(x, y) for x, y in zip(a.values(), b.values()))
    if dataclasses.is_dataclass(t):
        return all(same(getattr(a, f.name), getattr(b, f.name)) for f in dataclasses.fields(a))
    if t is Tagged:
        return a.x is b.x or a.x == b.x
    return a is b or a == b


class Tagged:
    """the image of a leaf under the mapped function"""
    def __init__(self, x):
        self.x = x

    def __hash__(self):
        return hash(("tagged", self.x if hashable(self.x) else id(self.x)))

    def __eq__(self, o):
        return isinstance(o, Tagged) and (self.x is o.x or self.x == o.x)

    def __repr__(self):
        return f"T({self.x!r})"


def ref_map(v):
    t = type(v)
    if t is list:
        return [ref_map(x) for x in v]
    if t is tuple:
        return tuple(ref_map(x) for x in v)
    if isinstance(v, tuple) and hasattr(v, "_fields"):
        return t(*[ref_map(x) for x in v])
    if t is set:
        return {ref_map(x) for x in v}
    if t is dict:
        return {ref_map(k): ref_map(x) for k, x in v.items()}
    if dataclasses.is_dataclass(t):
        r = object.__new__(t)
        for f in dataclasses.fields(v):
            object.__setattr__(r, f.name, ref_map(getattr(v, f.name)))
        return r
    return Tagged(v)


def key(x):
    return (type(x).__name__, x if isinstance(x, (int, str)) else id(x))


n = 0
w = None
samples = []
DEPTH = int(os.environ.get("C19_DEPTH", "3"))
values = gen(DEPTH) + [D, [D, 1], {"k": (G, F)}]       # a dataclass CLASS object is a leaf like any other object
for v in values:
    n += 1
    try:
        want = sorted(map(key, ref_leaves(v, [])))
        got = sorted(map(key, iter_nested_value(v)))
    except Exception as e:
        w = dict(value=repr(v), observed=f"iter_nested_value raised {type(e).__name__}: {e}")
        break
    if want != got:
        w = dict(value=repr(v), observed="iter_nested_value does not yield exactly the leaves", expected=[repr(k) for k in want], got=[repr(k) for k in got])
        break
    calls = []

    def f(x):
        calls.append(x)
        return Tagged(x)
    try:
        m = map_nested_value(f, v)
    except Exception as e:
        w = dict(value=repr(v), observed=f"map_nested_value raised {type(e).__name__}: {e}")
        break
    if sorted(map(key, calls)) != want:
        w = dict(value=repr(v), observed="the leaves map_nested_value applies the function to are not the leaves iter_nested_value yields", visited=[repr(c) for c in calls], leaves=[repr(k) for k in want])
        break
    if not same(m, ref_map(v)):
        w = dict(value=repr(v), observed="map_nested_value does not rebuild the same types / shape with every leaf replaced", got=repr(m), expected=repr(ref_map(v)))
        break
    if len(samples) < 3 and type(v) in (dict, G):
        samples.append(dict(value=repr(v)[:200], mapped=repr(m)[:200]))

# ---- expressions nested in containers are evaluated (real scheduler)
if w is None:
    import logging
    from redun import task
    logging.getLogger("redun").setLevel(logging.CRITICAL)

    @task(namespace="c19", cache=False)
    def inc(x):
        return x + 1

    @task(namespace="c19", cache=False)
    def wrap(v):
        return v

    @task(namespace="c19", cache=False)
    def keyname(s):
        return "key:" + s

    @dataclasses.dataclass
    class H:
        c: Any = dataclasses.field(init=False, default=None)      # a non-init field declared BEFORE an init field
        a: Any = None

    def mkH(a, c):
        h = H(a)
        h.c = c
        return h

    shapes = [lambda: {"a": inc(9), keyname("b"): 2}, lambda: {keyname("k"): inc(1), "z": inc(5), keyname("m"): [inc(7)]}, lambda: mkH(inc(1), inc(20)), lambda: [mkH([inc(1)], (inc(2), inc(3))), inc(4)],
              lambda: [inc(1), [inc(2)]], lambda: (inc(1), {"k": inc(2)}), lambda: P(inc(1), [inc(2), (inc(3),)]), lambda: {"a": {"b": [inc(1)]}},
              lambda: mkD(inc(1), [inc(2)]), lambda: F((inc(1), inc(2))), lambda: [mkD([inc(1)], {"z": inc(2)})], lambda: {"d": F([inc(1)])}, lambda: mkG([inc(1)], (inc(2),))]

    def plain(v):
        return map_plain(v)

    def map_plain(v):
        from redun.expression import Expression
        t = type(v)
        if isinstance(v, Expression):
            return ("key:" + v.args[0]) if v.task_name.endswith("keyname") else v.args[0] + 1
        if t is list:
            return [map_plain(x) for x in v]
        if t is tuple:
            return tuple(map_plain(x) for x in v)
        if isinstance(v, tuple) and hasattr(v, "_fields"):
            return t(*[map_plain(x) for x in v])
        if t is dict:
            return {map_plain(k): map_plain(x) for k, x in v.items()}
        if dataclasses.is_dataclass(t):
            r = object.__new__(t)
            for fld in dataclasses.fields(v):
                object.__setattr__(r, fld.name, map_plain(getattr(v, fld.name)))
            return r
        return v
    for mk in shapes:
        n += 1
        s = quiet_scheduler()
        try:
            with silence():
                got = s.run(wrap(mk()))
        except Exception as e:
            w = dict(value=repr(mk()), observed=f"evaluating a container of expressions raised {type(e).__name__}: {e}")
            break
        if not same(got, plain(mk())):
            w = dict(value=repr(mk()), observed="expressions nested in the container were not all replaced by their results", got=repr(got), expected=repr(plain(mk())))
            break

finish(w is not None, witness=w, evaluations=n, samples=samples,
       bound=f"{len(values)} generated values of depth <= {DEPTH}, width <= 2 over list / tuple / namedtuple / set / dict (container keys) / dataclass (init and non-init fields, frozen or not) and three kinds of leaf; 13 container shapes of task expressions through Scheduler.run (expressions among dict keys and values, a dataclass whose non-init field precedes an init field)")
