"""C04 / C30 replay + bounded check on a real temporary directory (local filesystem).

For every file value class and every external change: is_valid() == (recorded hash == hash of a freshly constructed
object), nothing raises (missing paths included); writers through redun leave the recorded hash equal to a fresh hash;
content-hashed files keep their hash when only the mtime changes; a cached workflow whose output was deleted or altered
re-executes without raising and returns the current state; the class-to-implementation table assumed by the contracts.
"""
import sys, os, time, tempfile, shutil, itertools
sys.path.insert(0, os.path.dirname(os.path.abspath(__file__)))
from common import *
req = read_request()
import redun.file as rf
from redun.file import File, IFile, ContentFile, FileSet, IFileSet, ContentFileSet, Dir, IDir, ContentDir, StagingFile

n = 0
w = None
samples = []
root = tempfile.mkdtemp(prefix="c04_")
import atexit as _atexit, shutil as _shutil
_atexit.register(lambda: _shutil.rmtree(root, ignore_errors=True))     # nothing is left under /tmp


def fresh_hash(cls, arg):
    return cls(arg).hash


def bump(path, data=None, dt=5):
    """rewrite (or only touch) a file and move its mtime so that size/mtime based hashes can see it"""
    if data is not None:
        with open(path, "w") as f:
            f.write(data)
    t = os.stat(path).st_mtime + dt
    os.utime(path, (t, t))


def guard(label, fn):
    global w
    try:
        return True, fn()
    except Exception as e:
        w = w or dict(case=label, observed=f"raised {type(e).__name__}: {e}")
        return False, None


def file_cases():
    global n, w
    changes = ["none", "touch", "same-bytes-rewrite", "other-bytes", "delete", "recreate-same-bytes"]
    for cls in (File, IFile, ContentFile):
        for ch in changes:
            n += 1
            p = os.path.join(root, f"{cls.__name__}_{ch}.txt")
            with open(p, "w") as f:
                f.write("data")
            ok, v = guard(f"{cls.__name__}({ch}).hash", lambda: cls(p))
            if not ok:
                return
            ok, rec = guard(f"{cls.__name__}({ch}).hash", lambda: v.hash)
            if not ok:
                return
            if ch == "touch":
                bump(p)
            elif ch == "same-bytes-rewrite":
                bump(p, "data")
            elif ch == "other-bytes":
                bump(p, "DATA2")
            elif ch == "delete":
                os.remove(p)
            elif ch == "recreate-same-bytes":
                os.remove(p)
                bump_dir = None
                with open(p, "w") as f:
                    f.write("data")
                bump(p)
            ok, now = guard(f"fresh {cls.__name__}({ch}).hash", lambda: fresh_hash(cls, p))
            if not ok:
                return
            ok, valid = guard(f"{cls.__name__}({ch}).is_valid()", lambda: v.is_valid())
            if not ok:
                return
            expect = True if cls is IFile else (rec == now)
            if valid != expect:
                w = dict(case=f"{cls.__name__} change={ch}", recorded=rec, current=now, is_valid=valid, expected=expect)
                return
            if cls is ContentFile and ch in ("touch", "same-bytes-rewrite", "recreate-same-bytes") and rec != now:
                w = dict(case=f"ContentFile change={ch}", observed="content hash changed although the bytes did not", recorded=rec, current=now)
                return
            if cls is ContentFile and ch == "other-bytes" and rec == now:
                w = dict(case="ContentFile other bytes", observed="content hash unchanged although the bytes changed")
                return
            if ch == "delete":
                # deterministic hash of a missing path
                ok, again = guard(f"fresh {cls.__name__}(missing).hash", lambda: fresh_hash(cls, p))
                if not ok:
                    return
                if again != now:
                    w = dict(case=f"{cls.__name__} missing path", observed="two hashes of the same missing path differ", a=now, b=again)
                    return
            if len(samples) < 4:
                samples.append(dict(cls=cls.__name__, change=ch, valid=valid))


def odd_missing_cases():
    """paths that do not exist for another reason than ENOENT: below a regular file, over-long component"""
    global n, w
    plain = os.path.join(root, "plainfile")
    with open(plain, "w") as f:
        f.write("x")
    for cls in (File, IFile, ContentFile):
        for label, p in (("below a regular file", os.path.join(plain, "child.txt")), ("over-long name", os.path.join(root, "n" * 300))):
            n += 1
            ok, h1 = guard(f"{cls.__name__}({label}).hash", lambda: fresh_hash(cls, p))
            if not ok:
                return
            ok, h2 = guard(f"{cls.__name__}({label}).hash", lambda: fresh_hash(cls, p))
            if not ok:
                return
            ok, valid = guard(f"{cls.__name__}({label}).is_valid()", lambda: cls(p).is_valid())
            if not ok:
                return
            if h1 != h2:
                w = dict(case=f"{cls.__name__} {label}", observed="two hashes of the same missing path differ")
                return


def set_cases():
    global n, w
    changes = ["none", "member-touched", "member-rewritten", "member-removed", "member-added", "all-removed"]
    for cls in (FileSet, IFileSet, ContentFileSet, Dir, IDir, ContentDir):
        for ch in changes:
            n += 1
            d = os.path.join(root, f"{cls.__name__}_{ch}")
            os.makedirs(d)
            for nm in ("a", "b"):
                with open(os.path.join(d, nm), "w") as f:
                    f.write(nm)
            arg = d if issubclass(cls, Dir) else os.path.join(d, "*")
            ok, v = guard(f"{cls.__name__}({ch})", lambda: cls(arg))
            if not ok:
                return
            ok, rec = guard(f"{cls.__name__}({ch}).hash", lambda: v.hash)
            if not ok:
                return
            if ch == "member-touched":
                bump(os.path.join(d, "a"))
            elif ch == "member-rewritten":
                bump(os.path.join(d, "a"), "AAA")
            elif ch == "member-removed":
                os.remove(os.path.join(d, "a"))
            elif ch == "member-added":
                with open(os.path.join(d, "c"), "w") as f:
                    f.write("c")
            elif ch == "all-removed":
                shutil.rmtree(d)
            ok, now = guard(f"fresh {cls.__name__}({ch}).hash", lambda: fresh_hash(cls, arg))
            if not ok:
                return
            ok, valid = guard(f"{cls.__name__}({ch}).is_valid()", lambda: v.is_valid())
            if not ok:
                return
            expect = True if cls is IFileSet else (rec == now)
            if valid != expect:
                w = dict(case=f"{cls.__name__} change={ch}", recorded=rec, current=now, is_valid=valid, expected=expect)
                return
            if cls in (FileSet, Dir, ContentFileSet, ContentDir) and ch in ("member-removed", "member-added", "member-rewritten", "all-removed") and rec == now:
                w = dict(case=f"{cls.__name__} change={ch}", observed="hash did not follow the filesystem change")
                return


def writer_cases():
    global n, w
    for cls in (File, ContentFile, IFile):
        # write through redun: the recorded hash is the hash of the file as it is now
        for mode in ("w", "a", "wb", "r+", "x"):
            n += 1
            p = os.path.join(root, f"w_{cls.__name__}_{mode.replace('+', 'p')}.txt")
            if mode in ("a", "r+"):
                with open(p, "w") as f:
                    f.write("old")
            v = cls(p)
            _ = v.hash  # cache a hash of the state before the write
            time.sleep(0.01)
            ok, _r = guard(f"{cls.__name__}.open({mode})", lambda: _write(v, mode))
            if not ok:
                return
            bump_expected = fresh_hash(cls, p)
            if v.hash != bump_expected:
                w = dict(case=f"{cls.__name__}.open('{mode}') then close", recorded=v.hash, current=bump_expected, observed="hash stale after a write through redun")
                return
        # copy_to
        n += 1
        src = cls(os.path.join(root, f"src_{cls.__name__}.txt"))
        src.write("payload")
        dst = cls(os.path.join(root, f"dst_{cls.__name__}.txt"))
        _ = dst.hash
        ok, out = guard(f"{cls.__name__}.copy_to", lambda: src.copy_to(dst))
        if not ok:
            return
        if out.hash != fresh_hash(cls, dst.path) or out is not dst:
            w = dict(case=f"{cls.__name__}.copy_to", recorded=out.hash, current=fresh_hash(cls, dst.path))
            return
        # staging
        n += 1
        local = cls(os.path.join(root, f"stage_local_{cls.__name__}.txt"))
        remote = cls(os.path.join(root, f"stage_remote_{cls.__name__}.txt"))
        remote.write("remote-bytes")
        _ = local.hash
        st = cls.classes.StagingFile(local, remote)
        ok, got = guard("StagingFile.stage", lambda: st.stage())
        if not ok:
            return
        if got.hash != fresh_hash(cls, local.path):
            w = dict(case=f"{cls.__name__} stage", recorded=got.hash, current=fresh_hash(cls, local.path))
            return
        with open(local.path, "w") as f:
            f.write("changed-locally")
        bump(local.path)
        local.update_hash()
        ok, got = guard("StagingFile.unstage", lambda: st.unstage())
        if not ok:
            return
        if got.hash != fresh_hash(cls, remote.path):
            w = dict(case=f"{cls.__name__} unstage", recorded=got.hash, current=fresh_hash(cls, remote.path))
            return
    for cls in (Dir, ContentDir):
        n += 1
        d = cls(os.path.join(root, f"mk_{cls.__name__}"))
        _ = d.hash
        d.mkdir()
        d.file("x").write("x")
        d.update_hash()
        if d.hash != fresh_hash(cls, d.path):
            w = dict(case=f"{cls.__name__} after update_hash", recorded=d.hash, current=fresh_hash(cls, d.path))
            return
        d.rmdir(recursive=True)
        if d.hash != fresh_hash(cls, d.path):
            w = dict(case=f"{cls.__name__}.rmdir", recorded=d.hash, current=fresh_hash(cls, d.path))
            return


def _write(v, mode):
    with v.open(mode) as f:
        f.write(b"new" if "b" in mode else "new")


import dataclasses, collections


@dataclasses.dataclass
class Holder:
    label: str
    file: object


Pair = collections.namedtuple("Pair", ["file", "n"])
SHAPES = {"list+dict+tuple": lambda f: [f, {"k": (f, 1)}], "bare": lambda f: f, "dataclass": lambda f: Holder("h", f), "namedtuple": lambda f: Pair(f, 1),
          "dataclass-in-list": lambda f: [Holder("h", f)], "set-in-dict": lambda f: {"s": {f}}}


def workflow_cases():
    """a cached result containing an external value is replayed only while valid; otherwise re-executed, without raising"""
    global n, w
    from redun import task
    for cls, shape in [(c, "list+dict+tuple") for c in (File, ContentFile, IFile)] + [(File, sh) for sh in SHAPES if sh != "list+dict+tuple"]:
        for ch in ("none", "delete", "alter"):
            n += 1
            d = tempfile.mkdtemp(dir=root)
            p = os.path.join(d, "out.txt")
            runs = []
            ns = f"c04_{cls.__name__}_{ch}_{abs(hash(shape)) % 10**6}"

            def make_task():
                @task(namespace=ns, name="make")
                def make(x):
                    runs.append(x)
                    f = cls(p)
                    f.write("run%d" % len(runs))
                    return SHAPES[shape](f)
                return make
            make = make_task()
            s = quiet_scheduler({"backend": {"db_uri": "sqlite:///" + os.path.join(d, "r.db")}})
            with silence():
                s.run(make(1))
            if ch == "delete":
                os.remove(p)
            elif ch == "alter":
                bump(p, "tampered")
            try:
                with silence():
                    r = s.run(make(1))
            except Exception as e:
                w = dict(case=f"workflow returning {cls.__name__}, output {ch}", observed=f"second run raised {type(e).__name__}: {e}")
                return
            reexec = len(runs) == 2
            expect_reexec = (ch != "none") and cls is not IFile
            if reexec != expect_reexec:
                w = dict(case=f"workflow returning {cls.__name__} in shape {shape}, output {ch}", executions=len(runs), expected_reexecution=expect_reexec)
                return
            if expect_reexec and open(p).read() != "run2":
                w = dict(case=f"workflow returning {cls.__name__}, output {ch}", observed="result does not reflect the current external state", content=open(p).read())
                return


def table_case():
    """method resolution assumed by the virtual-dispatch contracts"""
    global n, w
    n += 1
    T_ = {
        "_calc_hash": {File: File, IFile: IFile, ContentFile: ContentFile, FileSet: FileSet, IFileSet: IFileSet, ContentFileSet: FileSet,
                       Dir: Dir, IDir: IDir, ContentDir: Dir},
        "is_valid": {File: File, IFile: IFile, ContentFile: File, FileSet: FileSet, IFileSet: IFileSet, ContentFileSet: FileSet, Dir: FileSet, IDir: FileSet, ContentDir: FileSet},
        "update_hash": {File: File, IFile: File, ContentFile: File, FileSet: FileSet, IFileSet: FileSet, ContentFileSet: FileSet, Dir: FileSet, IDir: FileSet, ContentDir: FileSet},
        "hash": {File: File, IFile: File, ContentFile: File, FileSet: FileSet, IFileSet: FileSet, ContentFileSet: FileSet, Dir: Dir, IDir: Dir, ContentDir: Dir},
    }
    for meth, tab in T_.items():
        for cls, owner in tab.items():
            if cls.__dict__.get(meth, None) is None and getattr(cls, meth) is getattr(owner, meth):
                continue
            if getattr(cls, meth) is not getattr(owner, meth):
                w = dict(case="method table", observed=f"{cls.__name__}.{meth} is not {owner.__name__}.{meth} (a new override is outside the verified implementations)")
                return


try:
    for fn in (table_case, file_cases, odd_missing_cases, set_cases, writer_cases, workflow_cases):
        if w is None:
            fn()
finally:
    shutil.rmtree(root, ignore_errors=True)
finish(w is not None, witness=w, evaluations=n, samples=samples,
       bound="3 file classes x 6 external changes, 3 classes x 2 kinds of non-ENOENT missing paths, 6 set/dir classes x 6 changes, 3 classes x (5 write modes, copy_to, stage, unstage), 2 dir classes x mkdir/rmdir, "
             "(3 classes + 5 further result shapes: bare, dataclass, namedtuple, dataclass in list, set in dict) x 3 output states of a cached workflow, method table; local filesystem only")
