"""pvc.bounded -- run a replay driver as a bounded stand-in (labelled B, never counted as discharged)."""
import json, os, subprocess, time
from .result import Result

ROOT = os.path.dirname(os.path.dirname(os.path.abspath(__file__)))


def run(pid, name, env=None, args=(), timeout=900, rule="", obligation=""):
    script = os.path.join(ROOT, "replay", pid.lower() + ".py")
    e = dict(os.environ)
    e.update(env or {})
    t = time.time()
    try:
        p = subprocess.run(["/venv/bin/python", script, *args], input=json.dumps({"obligation": obligation, "bounded": True}), capture_output=True, text=True, timeout=timeout, env=e, cwd=ROOT)
        out = p.stdout.strip().split("\n")[-1] if p.stdout.strip() else ""
        rr = json.loads(out)
    except subprocess.TimeoutExpired:
        return Result(f"{pid}/bounded[{name}]", "bounded", "undecided", detail={"error": "timeout"}, proved_level="B")
    except Exception as ex:
        return Result(f"{pid}/bounded[{name}]", "bounded", "undecided", detail={"error": (p.stdout + p.stderr)[-1500:]}, proved_level="B")
    status = "refuted" if rr.get("found") else "proved"
    n = int(rr.get("evaluations", 1))
    d = {"bound": rr.get("bound", ""), "evaluations": n, "distinct_nontrivial": int(rr.get("distinct", n)), "rule": rule or rr.get("bound", ""),
         "witness": rr.get("witness"), "samples": rr.get("samples", []), "wall_s": round(time.time() - t, 1), "stage": 0}
    return Result(f"{pid}/bounded[{name}]", "bounded", status, function="(real code, run time)", solver="cpython", ms=int((time.time() - t) * 1000), detail=d, proved_level="B")
