"""pvc.extract -- locate the real functions in /repo on every run.

Nothing is copied by hand: the AST handed to the symbolic executor is
ast.parse() of the file as it is on disk now.
"""
from __future__ import annotations
import ast, hashlib, os

REPO = os.environ.get("VERIF_REPO", "/repo")
_cache = {}


class NotFound(Exception):
    pass


def parse_file(rel):
    path = os.path.join(REPO, rel)
    if path not in _cache:
        with open(path) as f:
            src = f.read()
        _cache[path] = (ast.parse(src), src)
    return _cache[path]


def find(qual):
    """qual = 'redun/scheduler.py:Scheduler._consume_resources' ; nested defs 'f.<locals>.g' or 'f.g'"""
    rel, name = qual.split(":")
    tree, _ = parse_file(rel)
    node = tree
    for p in name.split("."):
        if p == "<locals>":
            continue
        cands = []
        # direct children first (classes / module level), then any nested def
        for x in ast.iter_child_nodes(node):
            if isinstance(x, (ast.ClassDef, ast.FunctionDef, ast.AsyncFunctionDef)) and x.name == p:
                cands.append(x)
        if not cands:
            for x in ast.walk(node):
                if x is not node and isinstance(x, (ast.ClassDef, ast.FunctionDef, ast.AsyncFunctionDef)) and x.name == p:
                    cands.append(x)
        if not cands:
            raise NotFound(f"{qual}: no definition named {p}")
        # several definitions of one name (typing overloads, redefinitions): the last one is the one that runs
        node = cands[-1] if len(cands) > 1 and not isinstance(cands[0], ast.ClassDef) else cands[0]
    return node


def strip_doc(fn):
    body = fn.body
    if body and isinstance(body[0], ast.Expr) and isinstance(body[0].value, ast.Constant) and isinstance(body[0].value.value, str):
        return body[1:]
    return body


def src_hash(fn):
    return hashlib.sha256(ast.dump(fn).encode()).hexdigest()[:16]


def info(qual):
    fn = find(qual)
    return {
        "function": qual,
        "first_line": fn.lineno,
        "last_line": getattr(fn, "end_lineno", fn.lineno),
        "ast_sha256_16": src_hash(fn),
        "statements": sum(1 for x in ast.walk(fn) if isinstance(x, ast.stmt)) - 1,
    }


def all_repo_files(sub="redun"):
    out = []
    for d, _, fs in os.walk(os.path.join(REPO, sub)):
        if "/tests" in d or "__pycache__" in d:
            continue
        for f in fs:
            if f.endswith(".py"):
                out.append(os.path.relpath(os.path.join(d, f), REPO))
    return sorted(out)


def module_constants(rel):
    """simple module-level constant assignments NAME = <str|bytes|int literal> of a repo file, read on every run"""
    tree, _ = parse_file(rel)
    out = {}
    for n in tree.body:
        if isinstance(n, ast.Assign) and len(n.targets) == 1 and isinstance(n.targets[0], ast.Name) and isinstance(n.value, ast.Constant):
            out[n.targets[0].id] = n.value.value
    return out
