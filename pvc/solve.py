"""pvc.solve -- solver portfolio, two-stage quantifier treatment, parallel discharge.

Verdicts per obligation:
  proved      : full VC unsat (stage 1), or the instantiated QF weakening unsat (stage 2; still sound: fewer hypotheses)
  refuted     : sat with a model (stage 1 model, or stage-2 candidate model)
  undecided   : unknown / timeout everywhere
  checker-err : solver error output
For expect == 'sat' obligations (requires-sat, cover): ok iff sat (or unknown treated as undecided).
"""
from __future__ import annotations
import os, re, subprocess, tempfile, time, hashlib
from concurrent.futures import ThreadPoolExecutor

WORK = os.path.join(os.path.dirname(os.path.dirname(os.path.abspath(__file__))), ".work")
os.makedirs(WORK, exist_ok=True)

SOLVERS = {
    "z3": ["z3-new", "-smt2"],
    "cvc5": ["/usr/bin/cvc5", "--strings-exp", "--dt-nested-rec", "--produce-models", "--lang=smt2"],
    "z3old": ["/usr/bin/z3", "-smt2"],
}


def run1(solver, script, timeout):
    import threading
    fn = os.path.join(WORK, f"q_{os.getpid()}_{threading.get_ident() % 100000}_{time.time_ns() % 10**9}_{hashlib.md5(script.encode()).hexdigest()[:10]}_{solver}.smt2")
    with open(fn, "w") as f:
        f.write(script)
    cmd = SOLVERS[solver] + ([f"-T:{int(timeout)}"] if solver.startswith("z3") else [f"--tlimit={int(timeout * 1000)}"]) + [fn]
    t = time.time()
    try:
        p = subprocess.run(cmd, capture_output=True, text=True, timeout=timeout + 5)
        out = p.stdout.strip()
        first = ""
        for ln in out.split("\n"):
            ln = ln.strip()
            if ln in ("sat", "unsat", "unknown"):
                first = ln
                break
            if "(error" in ln or "rror:" in ln:
                first = "error:" + out[:300].replace("\n", " ")
                break
        if first == "" and out:
            first = out.split("\n")[0].strip()
        if first.startswith("error:"):
            pass
        elif first not in ("sat", "unsat", "unknown"):
            if "timeout" in (out + p.stderr).lower() or "interrupted" in (out + p.stderr).lower():
                first = "timeout"
            else:
                first = "error:" + (out + " " + p.stderr)[:300].replace("\n", " ")
        full = out
    except subprocess.TimeoutExpired:
        first, full = "timeout", ""
    ms = round((time.time() - t) * 1000)
    try:
        os.unlink(fn)
    except OSError:
        pass
    return first, ms, full


# ------------------------------------------------------------------ s-expressions / instantiation
def portfolio(script, order):
    """run the back ends concurrently on one script; yields (solver, answer, ms) per back end, a definite answer (sat/unsat) first
    and alone when there is one (the other process is killed): a query one solver decides in milliseconds does not wait for the other's timeout"""
    fns, procs, t0 = {}, {}, time.time()
    for sv, to in order:
        fn = os.path.join(WORK, f"q_{os.getpid()}_{hashlib.md5(script.encode()).hexdigest()[:12]}_{sv}_{time.time_ns() % 1000000}.smt2")
        with open(fn, "w") as f:
            f.write(script)
        cmd = SOLVERS[sv] + ([f"-T:{int(to)}"] if sv.startswith("z3") else [f"--tlimit={int(to * 1000)}"]) + [fn]
        fns[sv] = fn
        procs[sv] = (subprocess.Popen(cmd, stdout=subprocess.PIPE, stderr=subprocess.PIPE, text=True), to)
    results, pending = [], dict(procs)
    try:
        while pending:
            for sv in list(pending):
                p, to = pending[sv]
                if p.poll() is None and time.time() - t0 < to + 5:
                    continue
                if p.poll() is None:
                    p.kill()
                out, err = p.communicate()
                pending.pop(sv)
                out = (out or "").strip()
                first = ""
                for ln in out.split("\n"):
                    ln = ln.strip()
                    if ln in ("sat", "unsat", "unknown"):
                        first = ln
                        break
                    if "(error" in ln or "rror:" in ln:
                        first = "error:" + out[:300].replace("\n", " ")
                        break
                if first == "":
                    first = "timeout" if (not out or "timeout" in (out + (err or "")).lower() or "interrupted" in (out + (err or "")).lower()) else "error:" + (out + " " + (err or ""))[:300].replace("\n", " ")
                ms = round((time.time() - t0) * 1000)
                if first in ("sat", "unsat"):
                    for q, _ in pending.values():
                        q.kill()
                        q.communicate()
                    pending.clear()
                    return [(sv, first, ms)]
                results.append((sv, first, ms))
            if pending:
                time.sleep(0.02)
    finally:
        for q, _ in procs.values():
            if q.poll() is None:
                q.kill()
        for fn in fns.values():
            try:
                os.unlink(fn)
            except OSError:
                pass
    return results


def sx_parse(s):
    toks = re.findall(r'\(|\)|\|[^|]*\||"(?:[^"]|"")*"|[^\s()]+', s)

    def rd(i):
        if toks[i] == "(":
            out = []
            i += 1
            while toks[i] != ")":
                e, i = rd(i)
                out.append(e)
            return out, i + 1
        return toks[i], i + 1

    e, i = rd(0)
    if i != len(toks):
        raise ValueError("trailing tokens in s-expression")
    return e


def sx_show(e):
    return e if isinstance(e, str) else "(" + " ".join(sx_show(x) for x in e) + ")"


def sx_subst(e, var, term):
    if isinstance(e, str):
        return term if e == var else e
    if e and e[0] in ("forall", "exists") and isinstance(e[1], list) and any(b[0] == var for b in e[1]):
        return e
    return [sx_subst(x, var, term) for x in e]


class QI:
    """skolemise negated universals / positive existentials; instantiate positive universals at known ground constants"""

    def __init__(self, consts_by_sort, max_inst=6):
        self.c = consts_by_sort
        self.sk = []
        self.n = 0
        self.max_inst = max_inst

    def skolem(self, sort):
        self.n += 1
        sk = f"|sk!{self.n}|"
        self.sk.append((sk, sort))
        ss = sx_show(sort)
        self.c.setdefault(ss, []).append(sk)
        return sk

    def pos(self, e):
        if isinstance(e, str):
            return e
        h = e[0]
        if h == "forall":
            var, sort = e[1][0]
            rest = e[1][1:]
            body = e[2] if not rest else ["forall", rest, e[2]]
            terms = self.c.get(sx_show(sort), [])[-self.max_inst:]
            return ["and", "true"] + [self.pos(sx_subst(body, var, t)) for t in terms]
        if h == "exists":
            var, sort = e[1][0]
            rest = e[1][1:]
            body = e[2] if not rest else ["exists", rest, e[2]]
            return self.pos(sx_subst(body, var, self.skolem(sort)))
        if h == "and":
            return ["and"] + [self.pos(x) for x in e[1:]]
        if h == "or":
            return ["or"] + [self.pos(x) for x in e[1:]]
        if h == "not":
            return ["not", self.neg(e[1])]
        if h == "=>" and len(e) == 3:
            return ["=>", self.neg(e[1]), self.pos(e[2])]
        if h == "!":
            return self.pos(e[1])
        if h == "=" and len(e) == 3 and self.has_q(e):
            return ["and", self.pos(["=>", e[1], e[2]]), self.pos(["=>", e[2], e[1]])]
        if self.has_q(e):
            return "true"  # quantifier under =, ite ...: drop the hypothesis (sound weakening)
        return e

    def neg(self, e):
        """e occurs negatively; returns e' with  e' => e ... used so that (not e') is implied by (not e)"""
        if isinstance(e, str):
            return e
        h = e[0]
        if h == "forall":
            var, sort = e[1][0]
            rest = e[1][1:]
            body = e[2] if not rest else ["forall", rest, e[2]]
            return self.neg(sx_subst(body, var, self.skolem(sort)))
        if h == "exists":
            var, sort = e[1][0]
            rest = e[1][1:]
            body = e[2] if not rest else ["exists", rest, e[2]]
            terms = self.c.get(sx_show(sort), [])[-self.max_inst:]
            return ["or", "false"] + [self.neg(sx_subst(body, var, t)) for t in terms]
        if h == "and":
            return ["and"] + [self.neg(x) for x in e[1:]]
        if h == "or":
            return ["or"] + [self.neg(x) for x in e[1:]]
        if h == "not":
            return ["not", self.pos(e[1])]
        if h == "=>" and len(e) == 3:
            return ["=>", self.pos(e[1]), self.neg(e[2])]
        if h == "!":
            return self.neg(e[1])
        if h == "=" and len(e) == 3 and self.has_q(e):
            return ["and", self.neg(["=>", e[1], e[2]]), self.neg(["=>", e[2], e[1]])]
        if self.has_q(e):
            raise ValueError("quantifier in non-monotone position of goal")
        return e

    @staticmethod
    def has_q(e):
        if isinstance(e, str):
            return e in ("forall", "exists")
        return any(QI.has_q(x) for x in e)


def _apps(e, names, out):
    if isinstance(e, list) and e:
        if isinstance(e[0], str) and e[0].strip("|") in names and len(e) > 1:
            out.append(e)
        for x in e:
            _apps(x, names, out)


def qf_script(o, unfold_depth=3):
    """stage-2 script for obligation o: hypotheses weakened (universals instantiated at ground constants, recursive
    spec functions replaced by uninterpreted functions with finitely many unfoldings), negated goal skolemised"""
    consts = {k: list(v) for k, v in o.consts.items()}
    qi = QI(consts)
    g = qi.neg(sx_parse(o.goal))
    hyps = []
    pre = []
    recdefs = {}
    for line in o.prelude:
        chunks = [line]
        if "define-fun-rec" in line:
            # split a multi-definition text block into top-level s-expressions
            chunks = []
            depth, cur = 0, ""
            for ch in line:
                cur += ch
                if ch == "(":
                    depth += 1
                elif ch == ")":
                    depth -= 1
                    if depth == 0:
                        chunks.append(cur.strip())
                        cur = ""
        for ln in chunks:
            if ln.startswith("(define-fun-rec"):
                e = sx_parse(ln)
                name, params, ret, body = e[1], e[2], e[3], e[4]
                recdefs[name.strip("|")] = (params, ret, body)
                pre.append(f"(declare-fun {name} ({' '.join(sx_show(p[1]) for p in params)}) {sx_show(ret)})")
                continue
            if ln.startswith("(assert "):
                try:
                    e = sx_parse(ln)
                    if QI.has_q(e[1]):
                        try:
                            hyps.append(qi.pos(e[1]))
                        except ValueError:
                            pass
                        continue
                except ValueError:
                    pass
            pre.append(ln)
    for p in o.pc:
        try:
            hyps.append(qi.pos(sx_parse(p)))
        except ValueError:
            pass  # hypothesis with a quantifier in a non-monotone position: dropped (sound weakening)
    if recdefs:
        seen, frontier = set(), []
        for h in hyps + [g]:
            _apps(h, recdefs, frontier)
        for _ in range(unfold_depth):
            nxt = []
            for app in frontier:
                key = sx_show(app)
                if key in seen or QI.has_q(app):
                    continue
                seen.add(key)
                params, ret, body = recdefs[app[0].strip("|")]
                inst = body
                for (pn, _), a in zip(params, app[1:]):
                    inst = sx_subst(inst, pn, a)
                hyps.append(["=", app, inst])
                _apps(inst, recdefs, nxt)
            frontier = nxt
    out = list(pre)
    for sk, sort in qi.sk:
        out.append(f"(declare-const {sk} {sx_show(sort)})")
    out += [f"(assert {sx_show(h)})" for h in hyps]
    out.append(f"(assert (not {sx_show(g)}))")
    out += ["(check-sat)", "(get-model)"]
    return "\n".join(out)


def full_script(o, model=False):
    out = list(o.prelude) + [f"(assert {p})" for p in o.pc]
    if o.expect == "unsat":
        out.append(f"(assert (not {o.goal}))")
    out.append("(check-sat)")
    if model:
        out.append("(get-model)")
    return "\n".join(out)


class Verdict:
    def __init__(self, o):
        self.o = o
        self.status = "undecided"
        self.solver = None
        self.ms = 0
        self.stage = 0
        self.model = ""
        self.detail = {}


_hyp_cache = {}


def guard_unsat(o, v, script):
    """guards behind every 'unsat' that proves an obligation (z3 was observed to answer unsat on a satisfiable seq + quantifier script):
    (1) the hypotheses alone must not be contradictory for the solver that proved the goal -- if they are, the other solver has to confirm
        that the path is infeasible, otherwise the verdict is withdrawn (undecided);
    (2) for scripts that use the sequence / string theories, the other back end must not answer 'sat' on the same script (short budget)."""
    prover = v.solver if v.solver in SOLVERS else "z3"
    other = "cvc5" if prover.startswith("z3") else "z3"
    hyp_only = type(o)(o.name, o.kind, o.prelude, o.pc, "false", o.line, o.func, "sat", o.consts)
    hs = full_script(hyp_only)
    key = (prover, hashlib.md5(hs.encode()).hexdigest())
    if key not in _hyp_cache:
        r, ms, _ = run1(prover, hs, 2)
        v.ms += ms
        r2 = None
        if r == "unsat":
            r2, ms2, _ = run1(other, hs, 10)
            v.ms += ms2
        _hyp_cache[key] = (r, r2)
    r, r2 = _hyp_cache[key]
    risky = prover.startswith("z3") and "(Seq String)" in script
    if r == "unsat":
        if r2 == "unsat":
            v.detail["vacuous_path"] = "hypotheses contradictory according to both back ends: infeasible path"
        elif not risky:
            # an infeasible path (dead branch, impossible pair of relational paths); the wrong-unsat answers observed from z3 all involved
            # quantified formulas over sequences of strings, which is what the withdrawal below is reserved for
            v.detail["vacuous_path"] = f"hypotheses contradictory according to {prover} ({other}: {r2})"
        else:
            v.detail["guard"] = f"{prover} finds the hypotheses of this path contradictory, {other} does not confirm it ({r2}): verdict withdrawn"
            v.status = "undecided"
            return v
    if "seq." in script or "str." in script:
        r3, ms3, _ = run1(other, script, 1)
        v.ms += ms3
        if r3 == "sat":
            v.detail["guard"] = f"back ends disagree: {prover} unsat, {other} sat"
            v.status = "undecided"
    return v


def discharge_one(o, tier="quick"):
    v = Verdict(o)
    t1, t2 = (20, 20) if tier == "quick" else (60, 60)
    if o.expect == "specerror":
        v.status = "undecided"
        v.detail["spec-error"] = "the contract expression no longer matches the shape of the code (see abstractions/spec-error notes)"
        return v
    if o.expect == "site":
        v.status = "refuted"
        v.detail["site"] = "call site named in the contract no longer exists in the function"
        return v
    order = [("z3", t1), ("cvc5", t2)]
    if o.expect == "sat":
        # vacuity guards (requires-sat, cover).  What we must exclude is a contradiction.  With quantified
        # hypotheses a full 'sat' answer is rarely obtainable, so: stage 2 (instantiated, QF) first -- 'unsat'
        # there is a sound refutation, 'sat' means no contradiction at instantiation level; then a short
        # stage-1 attempt whose 'unsat' would also refute.
        try:
            o2 = type(o)(o.name, o.kind, o.prelude, o.pc, "false", o.line, o.func, "unsat", o.consts)
            s2txt = qf_script(o2)
            r, ms, full = run1("z3", s2txt, t1)
            v.ms += ms
            v.detail["s2-z3"] = r
            if r not in ("sat", "unsat"):
                r, ms, full = run1("cvc5", s2txt, t2)
                v.ms += ms
                v.detail["s2-cvc5"] = r
            if r == "unsat":
                v.status, v.solver, v.stage = "refuted", "z3", 2
                return v
        except Exception as e:
            r = "error"
            v.detail["s2-error"] = str(e)[:200]
        r1, ms, full = run1("z3", full_script(o), 2)
        v.ms += ms
        v.detail["s1-z3"] = r1
        if r1 == "unsat":
            v.status, v.solver, v.stage = "refuted", "z3", 1
        elif r1 == "sat" or r == "sat":
            v.status, v.solver, v.stage = "proved", "z3", 1 if r1 == "sat" else 2
        return v
    script = full_script(o)
    for sv, r, ms in portfolio(script, order):
        v.ms += ms
        v.detail[f"s1-{sv}"] = r
        if r == "unsat":
            v.status, v.solver, v.stage = "proved", sv, 1
            return guard_unsat(o, v, script)
        if r == "sat":
            v.status, v.solver, v.stage = "refuted", sv, 1
            rr, ms2, full2 = run1(sv, full_script(o, model=True), dict(order)[sv])
            v.model = full2
            return v
    try:
        s2 = qf_script(o)
    except Exception as e:
        v.detail["s2-error"] = str(e)[:200]
        return v
    for sv, r, ms in portfolio(s2, order):
        v.ms += ms
        v.detail[f"s2-{sv}"] = r
        if r == "unsat":
            v.status, v.solver, v.stage = "proved", sv, 2
            return guard_unsat(o, v, s2)
        if r == "sat":
            rr, ms2, full = run1(sv, s2, dict(order)[sv])     # once more for the model text
            v.status, v.solver, v.stage, v.model = "refuted", sv, 2, full
            return v
    return v


def discharge_all(obls, tier="quick", workers=None):
    workers = workers or int(os.environ.get("VERIF_WORKERS", "14"))
    refuted_names = set()

    def one(o):
        # an obligation is decided on every path (pair) that reaches it; once one instance has a stage-1 counter-model the
        # remaining instances of the same obligation cannot change the verdict
        if o.name in refuted_names and o.expect == "unsat":
            v = Verdict(o)
            v.status, v.detail["skipped"] = "proved", "another instance of this obligation is already refuted"
            v.stage = -1
            return v
        v = discharge_one(o, tier)
        if v.status == "refuted" and o.expect == "unsat":
            refuted_names.add(o.name)
        return v

    with ThreadPoolExecutor(max_workers=workers) as ex:
        vs = list(ex.map(one, obls))
    # verdicts must not flip under load: anything left undecided is retried with a much larger budget and little parallelism
    # also retried: stage-2 candidate refutations whose full VC merely timed out (a slow proof must not look like a violation)
    retry = [i for i, v in enumerate(vs) if v.o.expect not in ("site", "specerror") and
             (v.status == "undecided" or (v.status == "refuted" and v.stage == 2 and tier == "quick"))]
    # at most a few instances per obligation name (an obligation refuted on many path pairs stays refuted anyway)
    per_name, kept = {}, []
    for i in retry:
        per_name[vs[i].o.name] = per_name.get(vs[i].o.name, 0) + 1
        if vs[i].status == "undecided" or per_name[vs[i].o.name] <= 4:
            kept.append(i)
    retry = kept
    if retry:
        with ThreadPoolExecutor(max_workers=6) as ex:
            again = list(ex.map(lambda i: discharge_one(vs[i].o, "thorough"), retry))
        for i, v in zip(retry, again):
            v.detail["retried"] = True
            v.ms += vs[i].ms
            if vs[i].status == "refuted" and v.status != "proved":
                vs[i].detail["retried"] = True   # still only the candidate: keep the first verdict (with its model)
                continue
            vs[i] = v
    return vs


def parse_model(txt):
    """very small reader for (define-fun name () Sort value) entries of a get-model answer"""
    out = {}
    for m in re.finditer(r"\(define-fun (\|[^|]*\||\S+) \(\) (\S+|\([^()]*\))\s+((?:\"(?:[^\"]|\"\")*\")|\(- \d+\)|[^\s()]+)\)", txt):
        name, sort, val = m.group(1).strip("|"), m.group(2), m.group(3)
        if sort == "Int":
            val = -int(val[3:-1]) if val.startswith("(-") else int(val)
        elif sort == "Bool":
            val = val == "true"
        elif sort == "String":
            val = re.sub(r"\\u\{([0-9a-fA-F]+)\}", lambda mm: chr(int(mm.group(1), 16)), val[1:-1].replace('""', '"'))
        out[name] = val
    return out
