"""pvc.relational -- two-run (relational) obligations over one function: the function is executed symbolically once;
the second run is the same set of paths with every path-local constant renamed.  Used for 'equal hash only if equal
identity' claims: for every pair of normal-return paths,  pc1 & pc2 & result1 == result2  =>  claim(run1, run2)."""
import re
from .core import Obligation
from .smt import sort_smt

_CONST = re.compile(r"\|([^|]*![0-9]+)\|")


def _rename(text, suffix):
    return _CONST.sub(lambda m: f"|{m.group(1)}{suffix}|", text)


def pair_obligations(eng, short, claims, max_pairs=400, converse=None):
    """claims: {name: callable(a, b) -> smt Bool text}, a/b give access to entry values: a('self') -> smt text of the term"""
    paths = eng.return_paths.get(short, [])
    out = []
    n = 0
    for i, (c1, pc1, r1, e1) in enumerate(paths):
        for j, (c2, pc2, r2, e2) in enumerate(paths):
            n += 1
            if n > max_pairs:
                break
            pre1 = c1.prelude()
            pre2 = [l for l in (_rename(x, "~2") for x in c2.prelude()) if l not in pre1]
            # shared declarations (sorts, datatypes, functions, axioms) appear once; renamed constants are added
            prelude = pre1 + [l for l in pre2 if l.startswith("(declare-const") or (l.startswith("(declare-fun") and l not in pre1)]
            extra_funs = [l for l in c2.prelude() if l.startswith("(declare-fun") and l not in pre1]
            prelude = pre1 + extra_funs + [l for l in pre2 if l.startswith("(declare-const")]
            pc = list(pc1) + [_rename(p, "~2") for p in pc2] + [f"(= {r1.s} {_rename(r2.s, '~2')})"]

            def _get(env, name):
                # parameters, ghost variables, or (H_<field>) the entry value of a tracked heap field
                if name in env.env:
                    return env.env[name]
                if name in env.ghost:
                    return env.ghost[name]
                return env.heap[name[2:]]

            def a(name, env=e1):
                return _get(env, name).s

            def b(name, env=e2):
                return _rename(_get(env, name).s, "~2")
            consts = {}
            for nm, so in c1.decls:
                consts.setdefault(sort_smt(so), []).append(nm)
            for nm, so in c2.decls:
                consts.setdefault(sort_smt(so), []).append(_rename(nm, "~2"))
            for cname, fn in claims.items():
                out.append(Obligation(f"{short}/equal-hash-implies[{cname}]", "relational", prelude, pc, fn(a, b), 0, short, "unsat", consts))
            for cname, fn in (converse or {}).items():
                # determinism in the named components: equal components => equal result
                pc2_ = list(pc1) + [_rename(p, "~2") for p in pc2] + [fn(a, b)]
                out.append(Obligation(f"{short}/equal-inputs-imply-equal-hash[{cname}]", "relational", prelude, pc2_, f"(= {r1.s} {_rename(r2.s, '~2')})", 0, short, "unsat", consts))
    return out
