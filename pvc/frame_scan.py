"""pvc.frame_scan -- mechanical check of the frame assumption behind 'opaque' calls.

Every syntactic write to a tracked attribute name anywhere in /repo/redun (outside tests)
must lie in a function that is under contract for that attribute (or in an explicitly
allowed, justified location such as __init__).  A new write site elsewhere refutes
obligation '<prop>/frame[<attr>]'.  Aliasing through other names is not detected (A-ALIAS).
"""
from __future__ import annotations
import ast
from . import extract
from .calls import MUTATORS


def _enclosing(tree):
    """map node id -> qualified enclosing def name"""
    out = {}

    def walk(node, stack):
        for ch in ast.iter_child_nodes(node):
            if isinstance(ch, (ast.FunctionDef, ast.AsyncFunctionDef, ast.ClassDef)):
                walk(ch, stack + [ch.name])
            else:
                out[id(ch)] = ".".join(stack)
                walk(ch, stack)

    walk(tree, [])
    return out


def writes(attr, files=None):
    """list of (file, qualified function, line, text) writing .attr"""
    res = []
    for rel in files or extract.all_repo_files():
        tree, src = extract.parse_file(rel)
        if attr not in src:
            continue
        enc = _enclosing(tree)
        for x in ast.walk(tree):
            hit = None
            if isinstance(x, ast.Attribute) and x.attr == attr and isinstance(x.ctx, (ast.Store, ast.Del)):
                hit = x
            elif isinstance(x, ast.Subscript) and isinstance(x.ctx, (ast.Store, ast.Del)) and isinstance(x.value, ast.Attribute) and x.value.attr == attr:
                hit = x
            elif isinstance(x, ast.Call) and isinstance(x.func, ast.Attribute) and x.func.attr in MUTATORS and isinstance(x.func.value, ast.Attribute) and x.func.value.attr == attr:
                hit = x
            elif isinstance(x, ast.Call) and isinstance(x.func, ast.Name) and x.func.id in ("setattr", "delattr") and len(x.args) >= 2 and isinstance(x.args[1], ast.Constant) and x.args[1].value == attr:
                hit = x
            if hit is not None:
                res.append((rel, enc.get(id(hit), "?"), hit.lineno, ast.unparse(hit)[:60]))
    return sorted(set(res))


def check(prop, attr, allowed, Result):
    """allowed: set of 'file:Qual.name' strings where writes are expected"""
    ws = writes(attr)
    bad = [w for w in ws if f"{w[0]}:{w[1]}" not in allowed]
    missing = []
    status = "proved" if not bad else "refuted"
    return Result(f"{prop}/frame[{attr}]", "frame", status, function="(package scan)", line=bad[0][2] if bad else 0,
                  solver="frame_scan", detail={"write_sites": [f"{w[0]}:{w[1]}:L{w[2]}" for w in ws], "unexpected": [f"{w[0]}:{w[1]}:L{w[2]} {w[3]}" for w in bad]})


def call_sites(method_names, files=None):
    """all syntactic calls x.<name>(...) for name in method_names: (file, enclosing function, line, text)"""
    res = []
    for rel in files or extract.all_repo_files():
        tree, src = extract.parse_file(rel)
        if not any(m in src for m in method_names):
            continue
        enc = _enclosing(tree)
        for x in ast.walk(tree):
            if isinstance(x, ast.Call) and isinstance(x.func, ast.Attribute) and x.func.attr in method_names:
                res.append((rel, enc.get(id(x), "?"), x.lineno, ast.unparse(x)[:70]))
    return sorted(set(res))


def check_call_sites(prop, label, method_names, allowed, Result, files=None):
    cs = call_sites(method_names, files)
    bad = [c for c in cs if f"{c[0]}:{c[1]}" not in allowed]
    return Result(f"{prop}/call-sites[{label}]", "frame", "proved" if not bad else "refuted", function="(package scan)", line=bad[0][2] if bad else 0,
                  solver="frame_scan", detail={"call_sites": [f"{c[0]}:{c[1]}:L{c[2]}" for c in cs], "unexpected": [f"{c[0]}:{c[1]}:L{c[2]} {c[3]}" for c in bad]})
