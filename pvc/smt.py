"""pvc.smt -- sorts, terms and the SMT-LIB context (declarations, datatypes, axioms).

Terms are (sort, smt-text) pairs.  Sorts are strings ('Int', 'Bool', 'String',
'Obj', 'Ref', or the name of a datatype declared by a contract module) or
tuples: ('Opt',T) ('Map',K,V) ('Set',T) ('Seq',T) ('Array',K,V) ('Tup',T1..Tn).
'NoneLit' is the sort of the literal None before it is unified with an Opt sort.
"""
from __future__ import annotations

INT, BOOL, STR, OBJ, REF, NONE = "Int", "Bool", "String", "Obj", "Ref", "NoneLit"


def Map(k, v):
    return ("Map", k, v)


def Set(t):
    return ("Set", t)


def Seq(t):
    return ("Seq", t)


def Opt(t):
    return ("Opt", t)


def Arr(k, v):
    return ("Array", k, v)


def Tup(*ts):
    return ("Tup",) + tuple(ts)


class T:
    __slots__ = ("sort", "s", "cls", "tr")

    def __init__(self, sort, s, cls=None, tr=None):
        self.sort, self.s, self.cls, self.tr = sort, s, cls, tr  # tr: precomputed truth value (SMT Bool text) if known

    def __repr__(self):
        return f"<{self.sort}:{self.s}>"


class TupV:
    """python-level tuple of terms (never sent to the solver as such)"""

    def __init__(self, items):
        self.items = list(items)
        self.sort = ("PyTup",)
        self.cls = None

    def __repr__(self):
        return f"<tup {self.items}>"


class EmptyV:
    """untyped empty container literal ({} / set() / dict() ...); typed when it meets a sort"""

    def __init__(self, kind):
        self.kind = kind
        self.sort = ("Empty", kind)
        self.cls = None
        self.s = "empty"


class Closure:
    """nested def / lambda kept symbolically: body is executed when called"""

    def __init__(self, node, env):
        self.node, self.env = node, env
        self.sort = ("Closure",)
        self.cls = None
        self.s = "closure"


def mangle(sort):
    if isinstance(sort, tuple):
        return "_".join([sort[0]] + [mangle(x) for x in sort[1:]])
    return sort


def sort_smt(sort):
    if isinstance(sort, tuple):
        h = sort[0]
        if h == "Array":
            return f"(Array {sort_smt(sort[1])} {sort_smt(sort[2])})"
        if h == "Map":
            return f"(Array {sort_smt(sort[1])} Opt_{mangle(sort[2])})"
        if h == "Set":
            return f"(Array {sort_smt(sort[1])} Bool)"
        if h == "Opt":
            return f"Opt_{mangle(sort[1])}"
        if h == "Seq":
            return f"(Seq {sort_smt(sort[1])})"
        if h == "Tup":
            return f"Tup_{mangle(sort)}"
        raise ValueError(f"sort {sort}")
    if sort == NONE:
        raise ValueError("NoneLit has no SMT sort")
    return sort


def smt_str(v: str) -> str:
    out = []
    for ch in v:
        o = ord(ch)
        if ch == '"':
            out.append('""')
        elif 32 <= o < 127 and ch != "\\":
            out.append(ch)
        else:
            out.append("\\u{%x}" % o)
    return '"' + "".join(out) + '"'


def smt_int(v: int) -> str:
    return str(v) if v >= 0 else f"(- {-v})"


class Ctx:
    """declarations + fresh names; one per verified function (cheap)"""

    def __init__(self, prelude_text="", axioms=()):
        self.decls = []  # (name, sort)
        self.n = 0
        self.funs = {}
        self.optsorts = []
        self.tupsorts = []
        self.user_prelude = prelude_text
        self.axioms = list(axioms)
        self.const_sort = {}
        self.predefined = set()
        self.predeclared_opts = []

    def fresh(self, sort, hint="v", cls=None):
        self.n += 1
        name = f"|{hint}!{self.n}|"
        self.need(sort)
        self.decls.append((name, sort))
        self.const_sort[name] = sort
        return T(sort, name, cls)

    def need(self, sort):
        if isinstance(sort, tuple):
            for x in sort[1:]:
                self.need(x)
            if sort[0] == "Map":
                self.need(("Opt", sort[2]))
            if sort[0] == "Opt" and sort not in self.optsorts:
                self.optsorts.append(sort)
            if sort[0] == "Tup" and sort not in self.tupsorts:
                self.tupsorts.append(sort)

    def fun(self, name, argsorts, ret):
        if name not in self.funs:
            for a in argsorts:
                self.need(a)
            self.need(ret)
            self.funs[name] = (list(argsorts), ret)
        return name

    def app(self, name, argsorts, ret, args, cls=None):
        self.fun(name, argsorts, ret)
        if not args:
            return T(ret, f"|{name}|", cls)
        return T(ret, f"(|{name}| {' '.join(a.s for a in args)})", cls)

    def prelude(self):
        out = ["(set-logic ALL)", "(declare-sort Obj 0)", "(declare-sort Ref 0)"]
        if self.user_prelude:
            out.append(self.user_prelude)
        # datatypes in dependency order: optsorts/tupsorts were registered children-first
        done = []
        pending = [("o", o) for o in self.optsorts if o not in self.predeclared_opts] + [("t", t) for t in self.tupsorts]
        done += [o for o in self.optsorts if o in self.predeclared_opts]

        def deps_ok(s):
            def walk(x):
                if isinstance(x, tuple):
                    if x[0] in ("Opt", "Tup") and x != s and x not in done:
                        return False
                    if x[0] == "Map" and ("Opt", x[2]) not in done and ("Opt", x[2]) != s:
                        return False
                    return all(walk(y) for y in x[1:])
                return True

            return all(walk(y) for y in s[1:])

        guard = 0
        while pending and guard < 1000:
            guard += 1
            for k, s in list(pending):
                if deps_ok(s):
                    m = mangle(s[1]) if k == "o" else mangle(s)
                    if k == "o":
                        out.append(
                            f"(declare-datatypes ((Opt_{m} 0)) (((None_{m}) (Some_{m} (val_{m} {sort_smt(s[1])})))))"
                        )
                    else:
                        flds = " ".join(f"(f{i}_{m} {sort_smt(x)})" for i, x in enumerate(s[1:]))
                        out.append(f"(declare-datatypes ((Tup_{m} 0)) (((mk_{m} {flds}))))")
                    done.append(s)
                    pending.remove((k, s))
        for name, (a, r) in self.funs.items():
            if name in self.predefined:
                continue  # defined by (define-fun ...) in the module prelude
            out.append(f"(declare-fun |{name}| ({' '.join(sort_smt(x) for x in a)}) {sort_smt(r)})")
        if getattr(self, "user_defs", ""):
            out.append(self.user_defs)
        for name, sort in self.decls:
            out.append(f"(declare-const {name} {sort_smt(sort)})")
        for a in self.axioms:
            out.append(f"(assert {a})")
        return out


# ---- option helpers
def some(ctx, t):
    s = ("Opt", t.sort)
    ctx.need(s)
    return T(s, f"(Some_{mangle(t.sort)} {t.s})", t.cls)


def none_of(ctx, sort):
    s = ("Opt", sort)
    ctx.need(s)
    return T(s, f"None_{mangle(sort)}")


def is_some(t):
    return T(BOOL, f"((_ is Some_{mangle(t.sort[1])}) {t.s})")


def unopt(t):
    return T(t.sort[1], f"(val_{mangle(t.sort[1])} {t.s})", t.cls)


def mk_tup(ctx, items):
    s = ("Tup",) + tuple(i.sort for i in items)
    ctx.need(s)
    return T(s, f"(mk_{mangle(s)} {' '.join(i.s for i in items)})")


def tup_get(t, i):
    return T(t.sort[1 + i], f"(f{i}_{mangle(t.sort)} {t.s})")


def conj(xs):
    xs = [x for x in xs if x != "true"]
    if not xs:
        return "true"
    if len(xs) == 1:
        return xs[0]
    return "(and " + " ".join(xs) + ")"
