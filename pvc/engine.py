"""pvc.engine -- per-function verification driver (path exploration, entry state, postconditions)."""
from __future__ import annotations
import ast, time
from .smt import *
from .core import *
from .expr import ExprMixin
from .calls import CallMixin, parse_expr
from .stmts import StmtMixin
from . import extract

MAX_PATHS = 4000


class Engine(StmtMixin, CallMixin, ExprMixin, EngineBase):
    spec_mode = False

    def new_ctx(self):
        c = Ctx(self.m.prelude, self.m.axioms)
        for name, (asorts, ret) in self.m.ufuns.items():
            c.fun(name, asorts, ret)
        for sort in self.m.fields.values():
            c.need(sort)
        # enum members named in module axioms must be declared even in functions whose body never mentions them
        import re as _re
        for en, member in sorted(set(_re.findall(r"\|enum_(\w+)\.(\w+)\|", " ".join(self.m.axioms)))):
            if f"enum_{en}.{member}" not in c.funs:
                c.fun(f"enum_{en}.{member}", [], OBJ)
        for name, (asorts, ret) in self.m.defs.items():
            c.fun(name, asorts, ret)
            c.predefined.add(name)
        if getattr(self.m, "declare_stable", False):
            for a, so in self.m.stable.items():
                c.fun(f"sattr_{a}", [REF], so)
        c.user_defs = self.m.defs_text
        c.predeclared_opts = list(self.m.predeclared_opts)
        return c

    def entry_state(self, k):
        st = St()
        c = self.ctx
        for pn, ps in k.get("params", {}).items():
            cls = k.get("classes", {}).get(pn) or self.m.classes.get(pn)
            st.env[pn] = c.fresh(ps, pn, cls)
            if cls:
                st.cls[pn] = cls
        for g, gs in k.get("ghost", {}).items():
            st.ghost[g] = c.fresh(gs, "G_" + g)
        for g, gs in k.get("ghost_local", {}).items():
            st.ghost[g] = c.fresh(gs, "G_" + g)
        if k.get("yields") is not None:
            c.need(k["yields"])
            st.ghost["yielded"] = T(k["yields"], f"(as seq.empty {sort_smt(k['yields'])})")
        for f in self.m.fields:
            self.field(st, f)
        for r in list(k.get("requires", [])) + list(k.get("ghost_init", [])):
            st.pc.append(self.spec(r, st, None).s)
        return st

    def verify(self, short, fn=None):
        """symbolically execute the real AST of contract `short`; returns stats. Obligations go to self.obls."""
        k = self.m.contracts[short]
        qual = k.get("where")
        fn = fn if fn is not None else extract.find(qual)
        self.cur, self.cur_contract = short, k
        self.index_sites(fn)
        self.loop_alias = {}
        # is the contract still about this code?  Names it types (`locals`) must be bound in the function; shape keys of loops must match a loop
        # (checked after execution).  A contract out of sync makes failed obligations of this function undecided instead of violations.
        if not k.get("lemma_src"):
            tables = list(k.get("locals", {})) + [nm for nm in k.get("classes", {}) if "." not in nm] + [nm for nm in k.get("defaultdicts", {}) if "." not in nm]
            gone = sorted({nm for nm in tables if nm not in self.fn_names and nm not in k.get("params", {}) and nm not in k.get("ghost", {}) and nm != "self"})
            if gone:
                self.out_of_sync.setdefault(short, []).append("locals named by the contract (locals / classes / defaultdicts tables) are not bound in the function any more: " + ", ".join(gone))
        body = extract.strip_doc(fn)
        worklist = [[]]
        npaths = 0
        outcomes = {"return": 0, "raise": 0, "pathend": 0}
        normal_returns = []
        seen_obl = set()
        t0 = time.time()
        while worklist:
            prefix = worklist.pop()
            npaths += 1
            if npaths > MAX_PATHS:
                raise Unsupported(f"{short}: more than {MAX_PATHS} paths")
            self.decisions, self.dpos, self.new_alts = list(prefix), 0, []
            self.ctx = self.new_ctx()
            self.path_obls, self.events = [], []
            self.nofork, self.try_depth, self.spec_mode = 0, 0, False
            st = self.entry_state(k)
            self.entry = st.clone()
            if npaths == 1:
                self.path_obls.append(Obligation(f"{short}/requires-sat", "requires-sat", self.ctx, list(st.pc), "false", fn.lineno, short, expect="sat"))
            try:
                try:
                    self.exec_block(body, st)
                    self.cur_ret = "end"
                    res = T(NONE, "none")
                except ReturnEx as r:
                    res = r.v
                outcomes["return"] += 1
                self.post_normal(short, k, st, res, fn)
                normal_returns.append((self.ctx, list(st.pc)))
                self.return_paths.setdefault(short, []).append((self.ctx, list(st.pc), st.env.get("$result"), self.entry))
            except RaiseEx as r:
                outcomes["raise"] += 1
                self.post_raise(short, k, st, r, fn)
            except PathEnd:
                outcomes["pathend"] += 1
            except (BreakEx, ContinueEx):
                raise Unsupported(f"{short}: break/continue outside loop")
            worklist.extend(self.new_alts)
            consts = {}
            for name, sort in self.ctx.decls:
                try:
                    consts.setdefault(sort_smt(sort), []).append(name)
                except ValueError:
                    pass
            pre = self.ctx.prelude()
            for o in self.path_obls:
                o.prelude = pre
                o.consts = consts
                kk = o.key()
                if kk in seen_obl:
                    continue
                seen_obl.add(kk)
                self.obls.append(o)
        # cover: at least one normal return must be reachable (vacuity guard)
        if normal_returns and k.get("cover", True):
            # some normal return must be reachable: instances are alternatives (any one sat suffices)
            step = max(1, len(normal_returns) // 16)
            for ctx, pc in normal_returns[::step][:20]:
                self.obls.append(Obligation(f"{short}/cover[normal-return]", "cover", ctx.prelude(), pc, "false", fn.lineno, short, expect="sat"))
        for key in k.get("must_call", []):
            if key not in self.callee_keys:
                self.obls.append(Obligation(f"{short}/site-exists[{key}]", "site-exists", ["(set-logic ALL)"], [], "false", fn.lineno, short, expect="site"))
        for key in k.get("at_store", {}):
            if "store:" + key not in self.sites_seen:
                self.obls.append(Obligation(f"{short}/site-exists[store:{key}]", "site-exists", ["(set-logic ALL)"], [], "false", fn.lineno, short, expect="site"))
        for key in k.get("at_call", {}):
            if key not in self.sites_seen:
                self.obls.append(Obligation(f"{short}/site-exists[{key}]", "site-exists", ["(set-logic ALL)"], [], "false", fn.lineno, short, expect="site"))
        if not k.get("lemma_src"):
            unmatched = sorted(str(key) for key in k.get("loops", {}) if isinstance(key, str) and "|" in key and key not in set(self.loop_alias.values()))
            n_loops = sum(1 for x in ast.walk(fn) if isinstance(x, (ast.For, ast.While, ast.AsyncFor)))
            if unmatched and n_loops:
                self.out_of_sync.setdefault(short, []).append("loop keys of the contract match no loop of the function: " + ", ".join(unmatched))
        self.paths += npaths
        return {"function": short, "paths": npaths, "outcomes": outcomes, "gen_s": round(time.time() - t0, 3)}

    def post_normal(self, short, k, st, res, fn):
        if isinstance(res, tuple) and res and res[0] == "mapview":
            res = self.opaque("res")
        if isinstance(res, EmptyV):
            rs0 = k.get("returns")
            res = self.empty_of(rs0) if isinstance(rs0, tuple) and rs0[0] in ("Map", "Set", "Seq", "Array") else self.opaque("res")
        rs = k.get("returns")
        if isinstance(rs, list):
            if isinstance(res, TupV) and len(res.items) == len(rs):
                for i, (it, s) in enumerate(zip(res.items, rs)):
                    st.env[f"result{i}"] = self.coerce(it, s, "result")
            else:
                for i, s in enumerate(rs):
                    st.env[f"result{i}"] = self.opaque("res", s)
        elif rs is not None:
            st.env["$result"] = self.coerce(res, rs, "result")
        else:
            st.env["$result"] = res
        # in postconditions parameter names denote the values passed in (a reassigned parameter is a local of the body)
        for pn in k.get("params", {}):
            st.env["$final_" + pn] = st.env.get(pn)
            st.env[pn] = self.entry.env[pn]
        self.post_mode = True     # `result` denotes the returned value even if the body has a local of that name
        try:
            for i, e in enumerate(k.get("ensures", [])):
                g = self.spec(e, st, self.entry)
                self.oblige(f"{short}/post#{i}[ret{self.cur_ret}]", "post", st, g, fn.lineno)
        finally:
            self.post_mode = False
        for name, fnc in k.get("post_hooks", {}).items():
            g = fnc(self, st, self.entry)
            self.oblige(f"{short}/post[{name}][ret{self.cur_ret}]", "post", st, g, fn.lineno)

    def post_raise(self, short, k, st, r, fn):
        exc = r.exc
        if exc == "AssertionError" and not k.get("asserts_may_fail_checked"):
            return  # failing repo asserts are not part of any contract unless asked for
        allowed = k.get("raises", {})
        if k.get("no_raise") or allowed:
            match = None
            for a in allowed:
                if exc_isa(exc, a) and exc != "Exception?":
                    match = a
            if match is None:
                self.oblige(f"{short}/no-raise[{exc.replace('?', '')}]", "no-raise", st, T(BOOL, "false"), r.line)
            elif allowed[match]:
                g = self.spec(allowed[match], self.entry, self.entry)
                self.oblige(f"{short}/raises-only-if[{match}]", "raises", st, g, r.line)
        for pn in k.get("params", {}):
            st.env[pn] = self.entry.env[pn]
        for i, e in enumerate(k.get("exc_ensures", [])):
            g = self.spec(e, st, self.entry)
            self.oblige(f"{short}/exc-post#{i}[{exc.replace('?', '')}]", "exc-post", st, g, r.line)
