"""pvc.driver -- run one property's check: generate VCs from /repo, discharge, replay, report, write evidence.

exit 0 held (possibly with KNOWN-FINDING lines) / 1 violation / 2 undecided / 3 checker error
"""
from __future__ import annotations
import argparse, importlib.util, json, os, subprocess, sys, time, traceback, re, hashlib

ROOT = os.path.dirname(os.path.dirname(os.path.abspath(__file__)))
sys.path.insert(0, ROOT)
from pvc.engine import Engine
from pvc.core import Unsupported, Obligation
from pvc import solve, extract

VENV_PY = "/venv/bin/python"


def load_module(pid):
    path = os.path.join(ROOT, "contracts", pid.lower() + ".py")
    spec = importlib.util.spec_from_file_location("contracts_" + pid.lower(), path)
    m = importlib.util.module_from_spec(spec)
    spec.loader.exec_module(m)
    return m


def load_findings():
    p = os.path.join(ROOT, "known_findings.json")
    if not os.path.exists(p):
        return []
    return json.load(open(p))["findings"]


def base_name(name):
    """obligation family for matching findings: drop the trailing '.i' clause index and '[retN]'"""
    return name


from pvc.result import Result


SYNC = {"lib_used": {}, "out_of_sync": {}}


def run_check(pid, tier, seed):
    t0 = time.time()
    SYNC["lib_used"].clear()
    SYNC["out_of_sync"].clear()
    cm = load_module(pid)
    mods = cm.MODULES if hasattr(cm, "MODULES") else [(cm.MODULE, cm.VERIFY)]
    results, stats, notes, functions, undecided_reasons = [], [], [], [], []
    smt_obls = []
    for module, verify in mods:
        eng = Engine(module)
        for short in verify:
            k = module.contracts[short]
            try:
                fn = None
                if k.get("lemma_src"):
                    # a lemma over the contracts: client code written in the contract file, verified modularly against the callees' contracts
                    import ast as _ast, textwrap as _tw
                    fn = _ast.parse(_tw.dedent(k["lemma_src"])).body[0]
                    functions.append({"function": "lemma:" + short, "first_line": 0, "last_line": 0, "ast_sha256_16": extract.src_hash(fn), "statements": len(fn.body), "lemma": True})
                else:
                    functions.append(extract.info(k["where"]))
                stats.append(eng.verify(short, fn))
                if k.get("relational") or k.get("relational_converse"):
                    from pvc import relational
                    smt_obls += relational.pair_obligations(eng, short, k.get("relational") or {}, converse=k.get("relational_converse"))
            except extract.NotFound as e:
                results.append(Result(f"{short}/function-exists", "exists", "undecided", short, 0, detail={"error": str(e)}))
            except Unsupported as e:
                results.append(Result(f"{short}/supported", "supported", "undecided", short, 0, detail={"error": str(e)}))
            except Exception as e:
                # the symbolic executor met a construct it mishandles: this function's obligations are undecided, the check does not crash
                import traceback as _tb
                results.append(Result(f"{short}/supported", "supported", "undecided", short, 0, detail={"error": f"engine exception {type(e).__name__}: {e}", "trace": _tb.format_exc()[-600:]}))
        smt_obls += eng.obls
        notes += [list(n) for n in eng.notes]
        for kk, vv in eng.lib_used.items():
            SYNC["lib_used"].setdefault(kk, set()).update(vv)
        for kk, vv in eng.out_of_sync.items():
            SYNC["out_of_sync"].setdefault(kk, []).extend(vv)
    verdicts = solve.discharge_all(smt_obls, tier)
    # one obligation per name; it is decided on every path that reaches it (refuted if refuted on any path)
    byname = {}
    for v in verdicts:
        byname.setdefault(v.o.name, []).append(v)
    for name, vs in byname.items():
        rank = {"refuted": 0, "undecided": 1, "proved": 2}
        vs.sort(key=lambda v: rank.get(v.status, 1))
        w = vs[0]
        if w.o.kind == "cover":
            w = vs[-1]  # alternatives: reachable if any instance is satisfiable
        d = dict(w.detail)
        d["stage"] = w.stage
        d["path_instances"] = len(vs)
        solvers = sorted(set(v.solver for v in vs if v.solver))
        results.append(Result(name, w.o.kind, w.status if w.status in rank else "undecided", w.o.func, w.o.line, "+".join(solvers), sum(v.ms for v in vs), d, w.model))
    # extra checks supplied by the contract module (finite/relational/frame scans) -- they return Result lists
    bounded = []
    for fn in getattr(cm, "EXTRA_CHECKS", []):
        for r in fn(tier, seed):
            (bounded if r.level == "B" else results).append(r)
    return cm, results, bounded, stats, notes, functions, time.time() - t0


_replay_memo = {}
GUARD_KINDS = ("requires-sat", "cover", "site-exists", "exists", "supported")


def replay_violation(cm, pid, r):
    """try to turn a refuted obligation into a failing input on the real code (runs under /venv/bin/python)"""
    script = os.path.join(ROOT, "replay", pid.lower() + ".py")
    os.makedirs(os.path.join(ROOT, "replays", pid), exist_ok=True)
    safe = re.sub(r"[^A-Za-z0-9_.#\[\]-]", "_", r.name)[:120]
    path = os.path.join(ROOT, "replays", pid, safe + ".json")
    rec = {"property": pid, "obligation": r.name, "kind": r.kind, "function": r.function, "line": r.line,
           "solver": r.solver, "solver_detail": r.detail, "model": r.model[:20000], "replayed": False}
    fam = (pid, r.function if not getattr(cm, "REPLAY_PER_OBLIGATION", False) else r.name)
    if fam in _replay_memo:
        rec["replay"] = _replay_memo[fam]
        rec["replayed"] = bool(rec["replay"].get("found"))
    elif os.path.exists(script):
        try:
            p = subprocess.run([VENV_PY, script, "--obligation", r.name], capture_output=True, text=True, timeout=600,
                               input=json.dumps({"model": solve.parse_model(r.model), "obligation": r.name}), cwd=ROOT)
            out = p.stdout.strip().split("\n")[-1] if p.stdout.strip() else ""
            try:
                rr = json.loads(out)
            except Exception:
                rr = {"found": False, "error": (p.stdout + p.stderr)[-2000:]}
            _replay_memo[fam] = rr
            rec["replay"] = rr
            rec["replayed"] = bool(rr.get("found"))
        except subprocess.TimeoutExpired:
            rec["replay"] = {"found": False, "error": "replay timeout"}
    json.dump(rec, open(path, "w"), indent=1)
    return path, rec


def match_finding(findings, pid, r, rec):
    for f in findings:
        if f.get("status") != "known" or f["property"] != pid:
            continue
        if f["obligation"] == r.name:
            return f
    return None


def main(argv=None):
    ap = argparse.ArgumentParser()
    ap.add_argument("pid")
    ap.add_argument("--tier", default=os.environ.get("VERIF_TIER", "quick"))
    ap.add_argument("--replay")
    ap.add_argument("--verbose", "-v", action="store_true")
    ap.add_argument("--update-baseline", action="store_true", help="development only: record which obligations are proved on this tree")
    a = ap.parse_args(argv)
    pid = a.pid.upper()
    seed = int(os.environ.get("VERIF_SEED", "0"))
    if a.replay:
        rec = json.load(open(a.replay))
        script = os.path.join(ROOT, "replay", pid.lower() + ".py")
        if not os.path.exists(script):
            print(f"no replay driver for {pid}; recorded obligation: {rec['obligation']}")
            return 2
        p = subprocess.run([VENV_PY, script, "--obligation", rec["obligation"]], input=json.dumps({"model": solve.parse_model(rec.get("model", "")), "obligation": rec["obligation"], "recorded": rec.get("replay")}), capture_output=True, text=True, cwd=ROOT)
        print(p.stdout[-3000:])
        try:
            return 1 if json.loads(p.stdout.strip().split("\n")[-1]).get("found") else 0
        except Exception:
            return 3
    try:
        cm, results, bounded, stats, notes, functions, wall = run_check(pid, a.tier, seed)
    except Exception:
        traceback.print_exc()
        print(f"CHECKER-ERROR property={pid}")
        return 3
    findings = load_findings()
    proved = [r for r in results if r.status == "proved"]
    refuted = [r for r in results if r.status == "refuted"]
    undecided = [r for r in results if r.status not in ("proved", "refuted")]
    bounded_bad = [r for r in bounded if r.status == "refuted"]
    violations, known = [], []
    bpath = os.path.join(ROOT, "baseline", pid + ".json")
    bdata = json.load(open(bpath)) if os.path.exists(bpath) else {}
    baseline = set(bdata.get("proved", []))
    if a.update_baseline:
        os.makedirs(os.path.join(ROOT, "baseline"), exist_ok=True)
        json.dump({"property": pid, "proved": sorted(r.name for r in proved), "lib_used": {k: sorted(v) for k, v in sorted(SYNC["lib_used"].items())}}, open(bpath, "w"), indent=1)
        print(f"baseline written: {len(proved)} proved obligations")
    # Is each contract still about the code it runs against?  Library patterns that matched a call on the delivered tree and match none now
    # (a renamed receiver the fallback could not resolve, a reshaped call), typed locals or loop keys that are gone: the function's model is
    # not the one the contract was written for.  Its failed obligations are then undecided, not violations -- unless an input replays natively.
    out_of_sync = {k: list(v) for k, v in SYNC["out_of_sync"].items()}
    for short, pats in bdata.get("lib_used", {}).items():
        gone = sorted(p_ for p_ in pats if p_ not in SYNC["lib_used"].get(short, set()) and "." in p_.split("(")[0] and not p_.startswith("self."))
        if gone:
            out_of_sync.setdefault(short, []).append("library patterns of the contract match no call any more: " + ", ".join(gone))
    for r in refuted + bounded_bad:
        path, rec = None, {}
        f = match_finding(findings, pid, r, rec)
        if f:
            known.append((r, f))
            print(f"KNOWN-FINDING: property={pid} {f['what']} [obligation {r.name}]")
            continue
        path, rec = replay_violation(cm, pid, r)
        # A stage-2 'sat' is only a candidate (hypotheses were weakened by instantiation).  It counts as a
        # violation when it replays on the real code, or when this obligation was proved on the unchanged
        # tree (committed baseline) and now has a counter-model; otherwise it is undecided.
        if r.function in out_of_sync and not rec.get("replayed") and r.kind not in ("finite", "frame", "bounded"):
            r.status = "undecided"
            r.detail["contract-out-of-sync"] = out_of_sync[r.function]
            undecided.append(r)
            continue
        candidate_only = r.detail.get("stage") == 2 and r.kind not in ("frame", "site-exists", "finite")
        if candidate_only and not rec.get("replayed") and r.name not in baseline:
            r.status = "undecided"
            r.detail["note"] = "stage-2 candidate model only, not replayed, obligation not in proved baseline"
            undecided.append(r)
            continue
        violations.append((r, path, rec))
    refuted = [r for r in refuted if r.status == "refuted"]
    for r, path, rec in violations:
        tail = "" if rec.get("replayed") else " no-failing-input-found"
        print(f"VIOLATION property={pid} replay={path}{tail}")
        print(f"  failed obligation: {r.name} ({r.kind}) in {r.function} line {r.line}; solver={r.solver} {r.detail}")
        if rec.get("replayed"):
            print(f"  replayed on the real code: {json.dumps(rec['replay'])[:600]}")
    for r in undecided:
        print(f"UNDECIDED property={pid} obligation={r.name} {r.detail}")
    expected_min = getattr(cm, "EXPECTED_MIN_OBLIGATIONS", 1)
    zero = len(results) < expected_min
    if zero:
        print(f"CHECKER-ERROR property={pid}: only {len(results)} obligations generated, contract file declares at least {expected_min}")
    if a.verbose:
        for s in stats:
            print("  ", s)
        for r in sorted(results, key=lambda r: -r.ms)[:8]:
            print(f"   {r.ms:6d} ms {r.status:9s} {r.name} {r.solver}")
    # ---------------- evidence
    n_obl = len(results)
    n_dis = len(proved) + len(known)
    level = getattr(cm, "LEVEL", "proof")
    by_solver = {}
    for r in proved:
        by_solver[r.solver or "internal"] = by_solver.get(r.solver or "internal", 0) + 1
    samples = []
    for r in (proved[:2] + refuted[:2]):
        samples.append({"obligation": r.name, "kind": r.kind, "function": r.function, "line": r.line, "status": r.status, "solver": r.solver, "ms": r.ms})
    cov = {
        "obligations": n_obl, "discharged": len(proved),
        "checker_cmd": f"./check {pid} --tier {a.tier}  (VCs from the real AST under /repo; back ends: z3-new 5.1 then /usr/bin/cvc5 1.0.3)",
        "trusted_base": sorted(set(getattr(cm, "TRUSTED", []))),
        "discharged_by_backend": by_solver,
        "solver_ms_total": sum(r.ms for r in results),
        "refuted": [r.name for r in refuted], "undecided": [r.name for r in undecided],
        "known_findings_matched": [f["obligation"] for _, f in known],
        "functions_under_contract": functions,
        "paths": sum(s["paths"] for s in stats),
        "per_function": stats,
        "abstractions": notes[:200],
        "obligation_list": [{"name": r.name, "kind": r.kind, "status": r.status, "solver": r.solver, "stage": r.detail.get("stage"), "ms": r.ms, "line": r.line} for r in results],
        "bounded_checks": [{"name": r.name, "status": r.status, **r.detail} for r in bounded],
        "samples": samples,
        "evaluations": max(1, n_obl + sum(r.detail.get("evaluations", 0) for r in bounded)),
        "distinct_nontrivial": len(set(r.name for r in results if r.kind not in GUARD_KINDS)),
        "rule": "one case per generated proof obligation (evaluations = obligations + cases run by bounded checks); distinct_nontrivial counts distinct obligation names "
                "that state part of a contract, i.e. excluding the vacuity / reachability guards (kinds requires-sat, cover, site-exists, exists, supported); "
                "bounded checks are listed separately under bounded_checks and never counted as discharged",
    }
    if level != "proof":
        ev_total = sum(r.detail.get("evaluations", 0) for r in bounded)
        dn = sum(r.detail.get("distinct_nontrivial", 0) for r in bounded)
        cov.update({"evaluations": max(1, ev_total), "distinct_nontrivial": dn,
                    "rule": "; ".join(r.detail.get("rule", "") for r in bounded),
                    "samples": [s for r in bounded for s in r.detail.get("samples", [])][:6] or samples})
    if known and level == "proof":
        # a property with recorded known findings is not proved: the refuted obligations are excluded from 'discharged'
        level = "other"
    if level == "other":
        cov["explanation"] = (f"{len(proved)} of {n_obl} generated proof obligations discharged; {len(known)} refuted obligations are the "
                              f"recorded known findings (genuine defects replayed on the real code, listed in known_findings.json) and are "
                              f"reported on every run as KNOWN-FINDING lines; everything outside those obligations is proved as for level 'proof'")
    ev = {"property_id": pid, "tier": a.tier if a.tier in ("quick", "thorough") else "quick", "seed": seed, "level": level, "coverage": cov,
          "assumptions": list(getattr(cm, "ASSUMPTIONS", [])), "wall_s": round(wall, 2), "violations": len(violations)}
    # PVC_EVIDENCE_DIR: development runs on deliberately broken scratch trees (tools/seedtest.sh) write elsewhere so
    # that the committed evidence/<id>.json always records a run on the tree it is committed with
    evdir = os.environ.get("PVC_EVIDENCE_DIR") or os.path.join(ROOT, "evidence")
    os.makedirs(evdir, exist_ok=True)
    tmp = os.path.join(evdir, pid + ".json.tmp")
    json.dump(ev, open(tmp, "w"), indent=1)
    os.replace(tmp, os.path.join(evdir, pid + ".json"))
    print(f"{pid}: {n_obl} obligations, {len(proved)} discharged, {len(refuted)} refuted ({len(known)} known), {len(undecided)} undecided, "
          f"{len(bounded)} bounded checks, {sum(s['paths'] for s in stats)} paths, {wall:.1f}s")
    if violations:
        return 1
    if zero:
        return 3
    if undecided:
        return 2
    return 0


if __name__ == "__main__":
    sys.exit(main())
