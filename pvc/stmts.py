"""pvc.stmts -- statements, loops, exceptions, and the per-function verification driver."""
from __future__ import annotations
import ast
from .smt import *
from .core import *
from . import extract
from .calls import MUTATORS


class StmtMixin:
    def exec_block(self, stmts, st):
        for s in stmts:
            self.exec_stmt(s, st)

    # ------------------------------------------------------------ assignment
    def assign(self, tgt, val, st):
        if isinstance(val, EmptyV):
            val = self.typed_empty(tgt, val.kind, st)
        if isinstance(tgt, ast.Name):
            ls = self.cur_contract.get("locals", {}).get(tgt.id)
            if ls is not None and isinstance(val, T) and val.sort != ls and (val.sort == NONE or (isinstance(ls, tuple) and ls[0] == "Opt" and val.sort == ls[1])):
                val = self.coerce(val, ls, "local " + tgt.id)
            elif ls is not None and isinstance(ls, tuple) and ls[0] == "Seq" and not (isinstance(val, T) and val.sort == ls):
                try:      # a list display assigned to a local of declared sequence sort
                    val = self.coerce(val, ls, "local " + tgt.id)
                except Unsupported:
                    pass
            st.env[tgt.id] = val
            if isinstance(val, T) and val.cls:
                st.cls[tgt.id] = val.cls
            elif tgt.id in st.cls:
                st.cls.pop(tgt.id)
            return
        if isinstance(tgt, (ast.Tuple, ast.List)):
            if isinstance(val, TupV) and len(val.items) == len(tgt.elts):
                for t, v in zip(tgt.elts, val.items):
                    self.assign(t, v, st)
            elif isinstance(val, T) and isinstance(val.sort, tuple) and val.sort[0] == "Tup" and len(val.sort) - 1 == len(tgt.elts):
                for i, t in enumerate(tgt.elts):
                    self.assign(t, tup_get(val, i), st)
            elif isinstance(val, T) and isinstance(val.sort, tuple) and val.sort[0] == "Seq" and not any(isinstance(t, ast.Starred) for t in tgt.elts):
                # [a, b] = xs : exactly len(targets) elements, otherwise ValueError
                if not self.branch(T(BOOL, f"(= (seq.len {val.s}) {len(tgt.elts)})"), st):
                    raise RaiseEx("ValueError", None, getattr(tgt, "lineno", 0))
                for i, t in enumerate(tgt.elts):
                    self.assign(t, T(val.sort[1], f"(seq.nth {val.s} {i})"), st)
            else:
                for t in tgt.elts:
                    self.assign(t, self.opaque("unpack"), st)
            return
        if isinstance(tgt, ast.Attribute):
            o = self.ev(tgt.value, st)
            if isinstance(o, T) and o.sort == ("Opt", REF):
                o = unopt(o)
            if tgt.attr in self.m.fields and isinstance(o, T) and o.sort == REF:
                h = self.field(st, tgt.attr)
                v = self.coerce(val, self.m.fields[tgt.attr], "store ." + tgt.attr)
                st.heap[tgt.attr] = T(h.sort, f"(store {h.s} {o.s} {v.s})")
            else:
                if tgt.attr in self.m.fields:
                    self.note("tracked-field-on-untyped-receiver", ast.unparse(tgt), tgt.lineno)
                    st.heap[tgt.attr] = self.ctx.fresh(("Array", REF, self.m.fields[tgt.attr]), "H_" + tgt.attr)
                st.ver += 1
            return
        if isinstance(tgt, ast.Subscript):
            base = tgt.value
            cur = self.ev(base, st)
            k = self.ev(tgt.slice, st)
            # site conditions at stores into a named container: contract['at_store'][<name>#<ordinal>] with skey / sval bound
            bname = base.attr if isinstance(base, ast.Attribute) else (base.id if isinstance(base, ast.Name) else None)
            ats = self.cur_contract.get("at_store", {})
            if bname is not None and any(key_.split("#")[0] == bname for key_ in ats):
                self.store_count = getattr(self, "store_count", {})
                ordn = self.store_ord.get(id(tgt), 0) if hasattr(self, "store_ord") else 0
                for key_ in (f"{bname}#{ordn}", bname):
                    if key_ in ats:
                        stb = st.clone()
                        stb.env["skey"], stb.env["sval"] = k, val
                        for i_, c_ in enumerate(ats[key_]):
                            self.oblige(f"{self.cur}/at-store[{key_}].{i_}", "at", st, self.spec(c_, stb, self.entry), getattr(tgt, "lineno", 0))
                        self.sites_seen.add("store:" + key_)
            wrap = None
            if isinstance(cur, T) and isinstance(cur.sort, tuple) and cur.sort[0] == "Opt" and isinstance(cur.sort[1], tuple):
                wrap = cur.sort
                cur = unopt(cur)
            if isinstance(cur, T) and isinstance(cur.sort, tuple) and cur.sort[0] in ("Map", "Array", "Set") and isinstance(k, T):
                k = self.coerce(k, cur.sort[1], "subscript-store")
                if cur.sort[0] == "Map":
                    v = some(self.ctx, self.coerce(val, cur.sort[2], "subscript-store"))
                elif cur.sort[0] == "Set":
                    v = self.coerce(val, BOOL)
                else:
                    v = self.coerce(val, cur.sort[2], "subscript-store")
                new = T(cur.sort, f"(store {cur.s} {k.s} {v.s})")
                if wrap:
                    new = some(self.ctx, new)
                if self.store_back(base, new, st):
                    return
            if isinstance(cur, T) and isinstance(cur.sort, tuple) and cur.sort[0] == "Seq" and isinstance(k, T) and k.sort == INT:
                v = self.coerce(val, cur.sort[1], "subscript-store")
                # xs[k] = v as an array-like update (z3 has no seq.update; index-quantified facts suit both solvers)
                new = self.opaque("upd", cur.sort)
                kk = f"(ite (>= {k.s} 0) {k.s} (+ (seq.len {cur.s}) {k.s}))"
                st.pc.append(f"(= (seq.len {new.s}) (seq.len {cur.s}))")
                st.pc.append(f"(= (seq.nth {new.s} {kk}) {v.s})")
                st.pc.append(f"(forall ((|q_su| Int)) (! (=> (and (>= |q_su| 0) (< |q_su| (seq.len {cur.s})) (not (= |q_su| {kk}))) (= (seq.nth {new.s} |q_su|) (seq.nth {cur.s} |q_su|))) :pattern ((seq.nth {new.s} |q_su|))))")
                if self.store_back(base, new, st):
                    return
            if isinstance(base, ast.Attribute) and base.attr in self.m.fields:
                o = self.ev(base.value, st)
                if isinstance(o, T) and o.sort == ("Opt", REF):
                    o = unopt(o)
                h = self.field(st, base.attr)
                if isinstance(o, T) and o.sort == REF:
                    nv = self.opaque("upd", self.m.fields[base.attr])
                    st.heap[base.attr] = T(h.sort, f"(store {h.s} {o.s} {nv.s})")
                else:
                    # the receiver is not a typed reference: any object's field may have been written
                    st.heap[base.attr] = self.ctx.fresh(h.sort, "H_" + base.attr)
            elif isinstance(base, ast.Name) and base.id in st.env and isinstance(st.env[base.id], T):
                st.env[base.id] = self.opaque("upd_" + base.id, st.env[base.id].sort)
            self.note("abstracted-store", ast.unparse(tgt)[:50], tgt.lineno)
            st.ver += 1
            return
        if isinstance(tgt, ast.Starred):
            self.assign(tgt.value, self.opaque("star"), st)
            return
        raise Unsupported(ast.dump(tgt)[:80])

    def typed_empty(self, tgt, kind, st):
        """x = set() / [] / {} : sort comes from the contract's `locals` table"""
        name = tgt.id if isinstance(tgt, ast.Name) else (tgt.attr if isinstance(tgt, ast.Attribute) else None)
        sort = self.cur_contract.get("locals", {}).get(name)
        if sort is None and isinstance(tgt, ast.Attribute) and tgt.attr in self.m.fields:
            sort = self.m.fields[tgt.attr]
        if sort is None:
            return EmptyV(kind)  # stays untyped until it meets a sort (x + [], coerce, iteration)
        return self.empty_of(sort)

    def empty_of(self, sort):
        c = self.ctx
        c.need(sort)
        if sort[0] == "Seq":
            return T(sort, f"(as seq.empty {sort_smt(sort)})")
        if sort[0] == "Set":
            return T(sort, f"((as const {sort_smt(sort)}) false)")
        if sort[0] == "Map":
            return T(sort, f"((as const {sort_smt(sort)}) {none_of(c, sort[2]).s})")
        if sort[0] == "Array" and sort[2] == INT:   # defaultdict(int)
            return T(sort, f"((as const {sort_smt(sort)}) 0)")
        return self.opaque("empty", sort)

    # ------------------------------------------------------------ statements
    def exec_stmt(self, s, st):
        self.cur_line = getattr(s, "lineno", 0)
        if isinstance(s, ast.Expr):
            if isinstance(s.value, ast.Constant):
                return
            if isinstance(s.value, ast.Yield) and self.cur_contract.get("yields") is not None:
                # generator under contract: the yielded values are collected, in order, in the ghost sequence `yielded`
                ys = self.cur_contract["yields"]
                v = self.ev(s.value.value, st) if s.value.value is not None else T(NONE, "none")
                v = self.coerce(v, ys[1], "yield")
                cur = st.ghost["yielded"]
                r = self.opaque("yl", ys)
                st.pc.append(f"(= {r.s} (seq.++ {cur.s} (seq.unit {v.s})))")
                st.pc.append(f"(= (seq.len {r.s}) (+ (seq.len {cur.s}) 1))")
                st.pc.append(f"(forall ((|q_a| Int)) (! (=> (and (>= |q_a| 0) (< |q_a| (seq.len {cur.s}))) (= (seq.nth {r.s} |q_a|) (seq.nth {cur.s} |q_a|))) :pattern ((seq.nth {r.s} |q_a|))))")
                st.pc.append(f"(= (seq.nth {r.s} (seq.len {cur.s})) {v.s})")
                if self.cur_contract.get("on_yield"):
                    self.cur_contract["on_yield"](self, st, cur, r, v)     # facts about contract-level abstractions of the yielded sequence
                st.ghost["yielded"] = r
                return
            if isinstance(s.value, ast.YieldFrom) and self.cur_contract.get("yields") is not None:
                # yield from <sequence-valued expression>: the ghost sequence is extended by that sequence
                ys = self.cur_contract["yields"]
                v = self.coerce(self.ev(s.value.value, st), ys, "yield from")
                cur = st.ghost["yielded"]
                r = self.opaque("yl", ys)
                st.pc.append(f"(= {r.s} (seq.++ {cur.s} {v.s}))")
                st.pc.append(f"(= (seq.len {r.s}) (+ (seq.len {cur.s}) (seq.len {v.s})))")
                st.pc.append(f"(forall ((|q_a| Int)) (! (=> (and (>= |q_a| 0) (< |q_a| (seq.len {cur.s}))) (= (seq.nth {r.s} |q_a|) (seq.nth {cur.s} |q_a|))) :pattern ((seq.nth {r.s} |q_a|))))")
                st.pc.append(f"(forall ((|q_a| Int)) (! (=> (and (>= |q_a| 0) (< |q_a| (seq.len {v.s}))) (= (seq.nth {r.s} (+ (seq.len {cur.s}) |q_a|)) (seq.nth {v.s} |q_a|))) :pattern ((seq.nth {v.s} |q_a|))))")
                st.ghost["yielded"] = r
                return
            self.ev(s.value, st)
            return
        if isinstance(s, ast.Assign):
            v = self.ev(s.value, st)
            if isinstance(v, tuple) and v and v[0] == "mapview":
                v = self.opaque("view")
            for t in s.targets:
                self.assign(t, v, st)
            return
        if isinstance(s, ast.AnnAssign):
            if s.value is not None:
                v = self.ev(s.value, st)
                if isinstance(s.value, (ast.List, ast.Dict)) and not (s.value.elts if isinstance(s.value, ast.List) else s.value.keys):
                    v = EmptyV("list" if isinstance(s.value, ast.List) else "dict")
                self.assign(s.target, v, st)
            return
        if isinstance(s, ast.AugAssign):
            load = copy.copy(s.target)
            load.ctx = ast.Load()
            expr = ast.BinOp(left=load, op=s.op, right=s.value)
            ast.copy_location(expr, s)
            ast.fix_missing_locations(expr)
            self.assign(s.target, self.ev(expr, st), st)
            return
        if isinstance(s, ast.Return):
            v = self.ev(s.value, st) if s.value is not None else T(NONE, "none")
            self.cur_ret = self.ret_ord.get(id(s), 0)
            raise ReturnEx(v)
        if isinstance(s, ast.Raise):
            if s.exc is None:
                raise RaiseEx(getattr(self, "handling", "Exception?"), None, s.lineno)
            name = s.exc.func if isinstance(s.exc, ast.Call) else s.exc
            nm = ast.unparse(name)
            if isinstance(s.exc, ast.Name) and s.exc.id in st.env:
                nm = getattr(self, "handling", "Exception?")
            if isinstance(s.exc, ast.Call):
                for a in s.exc.args:
                    try:
                        self.nofork += 1
                        self.ev(a, st)
                    except NeedFork:
                        pass
                    finally:
                        self.nofork -= 1
            raise RaiseEx(nm.split(".")[-1], None, s.lineno)
        if isinstance(s, ast.Assert):
            c = self.truth(self.ev(s.test, st))
            ac = self.cur_contract.get("asserts_checked")
            if ac is True or (isinstance(ac, (list, tuple)) and any(x in ast.unparse(s.test) for x in ac)):
                self.oblige(f"{self.cur}/assert@{ast.unparse(s.test)[:40]}", "assert", st, c, s.lineno)
                st.pc.append(c.s)
                return
            if not self.branch(c, st):
                raise RaiseEx("AssertionError", None, s.lineno)
            return
        if isinstance(s, ast.If):
            c = self.truth(self.ev(s.test, st))
            if self.branch(c, st):
                self.exec_block(s.body, st)
            else:
                self.exec_block(s.orelse, st)
            return
        if isinstance(s, (ast.FunctionDef, ast.AsyncFunctionDef)):
            body = extract.strip_doc(s)
            if len(body) == 1 and isinstance(body[0], (ast.Return, ast.Expr)) and body[0].value is not None:
                self.check_deferred(s, body[0].value, [a.arg for a in s.args.args], st, None)
            st.env[s.name] = Closure(s, dict(st.env))
            return
        if isinstance(s, (ast.For, ast.AsyncFor)):
            return self.exec_for(s, st)
        if isinstance(s, ast.While):
            return self.exec_while(s, st)
        if isinstance(s, (ast.Pass, ast.Import, ast.ImportFrom, ast.Global, ast.Nonlocal)):
            return
        if isinstance(s, ast.Break):
            raise BreakEx()
        if isinstance(s, ast.Continue):
            raise ContinueEx()
        if isinstance(s, ast.Try):
            return self.exec_try(s, st)
        if isinstance(s, (ast.With, ast.AsyncWith)):
            for it in s.items:
                if "with_enter" in self.m.hooks:
                    # e.g. lock acquisition: other threads may have changed the protected state (rely condition)
                    self.with_count = getattr(self, "with_count", {})
                    key = (self.cur, ast.unparse(it.context_expr))
                    self.m.hooks["with_enter"](self, it.context_expr, st, s)
                v = self.ev(it.context_expr, st)
                if it.optional_vars is not None:
                    self.assign(it.optional_vars, v if isinstance(v, (T, TupV)) else self.opaque("ctxmgr"), st)
            self.exec_block(s.body, st)
            return
        if isinstance(s, ast.Delete):
            for t in s.targets:
                if isinstance(t, ast.Subscript):
                    cur = self.ev(t.value, st)
                    k = self.ev(t.slice, st)
                    if isinstance(cur, T) and isinstance(cur.sort, tuple) and cur.sort[0] == "Map":
                        k = self.coerce(k, cur.sort[1])
                        new = T(cur.sort, f"(store {cur.s} {k.s} {none_of(self.ctx, cur.sort[2]).s})")
                        if self.store_back(t.value, new, st):
                            continue
                self.note("abstracted-stmt", "del " + ast.unparse(t)[:40], s.lineno)
                st.ver += 1
            return
        self.note("unsupported-stmt", type(s).__name__, s.lineno)
        raise Unsupported(f"{type(s).__name__} at L{s.lineno}")

    # ------------------------------------------------------------ try
    def exec_try(self, s, st):
        self.try_depth += 1
        try:
            try:
                self.exec_block(s.body, st)
            finally:
                self.try_depth -= 1
        except RaiseEx as r:
            handled = False
            for h in s.handlers:
                names = []
                if h.type is None:
                    names = ["BaseException"]
                elif isinstance(h.type, ast.Tuple):
                    names = [ast.unparse(e).split(".")[-1] for e in h.type.elts]
                else:
                    names = [ast.unparse(h.type).split(".")[-1]]
                if r.exc == "Exception?":
                    certainly = any(nm in ("Exception", "BaseException") for nm in names)
                    if not certainly and self.choice(2) == 1:
                        continue  # an unknown exception may or may not match a specific handler
                    match = True
                else:
                    match = any(exc_isa(r.exc, nm) for nm in names)
                if match:
                    handled = True
                    if h.name:
                        st.env[h.name] = self.opaque("exc_" + r.exc.replace("?", ""))
                    prev = getattr(self, "handling", None)
                    self.handling = r.exc
                    try:
                        self.run_finally(s, st, lambda: self.exec_block(h.body, st))
                    finally:
                        self.handling = prev
                    return
            if not handled:
                self.run_finally(s, st, None)
                raise
        except (ReturnEx, BreakEx, ContinueEx):
            self.run_finally(s, st, None)
            raise
        else:
            self.run_finally(s, st, lambda: self.exec_block(s.orelse, st))

    def run_finally(self, s, st, inner):
        if inner is not None:
            try:
                inner()
            except (RaiseEx, ReturnEx, BreakEx, ContinueEx):
                self.exec_block(s.finalbody, st)
                raise
        self.exec_block(s.finalbody, st)

    # ------------------------------------------------------------ loops
    @staticmethod
    def _root(e):
        """x[a][b].m / x.f[a] ... -> the variable or attribute whose container is mutated"""
        while isinstance(e, ast.Subscript):
            e = e.value
        return e

    def loop_writes(self, body, st):
        """names, tracked fields and ghost names a loop body may write (syntactic, plus callee frames)"""
        locs, flds, ghosts = set(), set(), set()
        for stmt in body:
            for x in ast.walk(stmt):
                if isinstance(x, ast.Name) and isinstance(x.ctx, (ast.Store, ast.Del)):
                    locs.add(x.id)
                if isinstance(x, ast.Attribute) and x.attr in self.m.fields:
                    par_store = isinstance(x.ctx, (ast.Store, ast.Del))
                    if par_store:
                        flds.add(x.attr)
                if isinstance(x, (ast.Subscript,)) and isinstance(x.ctx, (ast.Store, ast.Del)):
                    b = self._root(x.value)
                    if isinstance(b, ast.Attribute) and b.attr in self.m.fields:
                        flds.add(b.attr)
                    if isinstance(b, ast.Name):
                        locs.add(b.id)
                if isinstance(x, ast.AugAssign):
                    t = x.target
                    if isinstance(t, ast.Subscript) and isinstance(self._root(t.value), ast.Attribute) and self._root(t.value).attr in self.m.fields:
                        flds.add(self._root(t.value).attr)
                    if isinstance(t, ast.Subscript) and isinstance(self._root(t.value), ast.Name):
                        locs.add(self._root(t.value).id)
                    if isinstance(t, ast.Attribute) and t.attr in self.m.fields:
                        flds.add(t.attr)
                if isinstance(x, (ast.Yield, ast.YieldFrom)) and self.cur_contract.get("yields") is not None:
                    ghosts.add("yielded")
                if isinstance(x, ast.Call):
                    f = x.func
                    if isinstance(f, ast.Attribute) and f.attr in MUTATORS:
                        r_ = self._root(f.value)
                        if isinstance(r_, ast.Attribute) and r_.attr in self.m.fields:
                            flds.add(r_.attr)
                        if isinstance(r_, ast.Name):
                            locs.add(r_.id)
                    q = self.resolve(f, st)
                    if q:
                        for fld in self.m.contracts[q].get("modifies", []):
                            (flds if fld in self.m.fields else ghosts).add(fld)
                        ac = self.cur_contract.get("after_call", {})
                        for (qq, _), code in ac.items():
                            if qq == q:
                                for gs in ast.parse(__import__("textwrap").dedent(code)).body:
                                    t = gs.targets[0]
                                    ghosts.add(t.id if isinstance(t, ast.Name) else t.value.id)
        return locs, flds, ghosts

    def havoc_loop(self, st, locs, flds, ghosts):
        c = self.ctx
        for nme in sorted(locs):
            v = st.env.get(nme)
            if isinstance(v, T):
                st.env[nme] = c.fresh(v.sort, "L_" + nme, v.cls)
            elif v is not None:
                st.env[nme] = self.opaque("L_" + nme)
        for f in sorted(flds):
            st.heap[f] = c.fresh(("Array", REF, self.m.fields[f]), "H_" + f)
        for g in sorted(ghosts):
            if g in st.ghost:
                st.ghost[g] = c.fresh(st.ghost[g].sort, "G_" + g)

    def loop_spec(self, idx, node=None):
        loops = self.cur_contract.get("loops", {})
        sp = loops.get(idx)
        if sp is None and node is not None:
            # shape-based keys 'iterated-expression|callee': robust against loops being reordered
            it = ast.unparse(node.iter) if hasattr(node, "iter") else ast.unparse(node.test)
            callees = {self.callee_key(x.func) for b in node.body for x in ast.walk(b) if isinstance(x, ast.Call)}
            for k, v in loops.items():
                if isinstance(k, str) and "|" in k:
                    a, b = k.split("|", 1)
                    if (a[1:] == it if a.startswith("=") else a in it) and (b == "" or b in callees):     # '=expr|' matches the iterated expression exactly
                        sp = v
                        self.loop_alias = getattr(self, "loop_alias", {})
                        self.loop_alias[idx] = k
                        break
        if sp is None:
            return None
        if isinstance(sp, list):
            return {"inv": sp}
        return sp

    def exec_for(self, s, st):
        c = self.ctx
        idx = self.loop_ord.get(id(s), 0)
        it = s.iter
        # literal tuple/list: unroll (exact)
        if isinstance(it, (ast.Tuple, ast.List)) and not any(isinstance(e, ast.Starred) for e in it.elts):
            try:
                for e in it.elts:
                    self.assign(s.target, self.ev(e, st), st)
                    try:
                        self.exec_block(s.body, st)
                    except ContinueEx:
                        pass
            except BreakEx:
                return
            self.exec_block(s.orelse, st)
            return
        spec = self.loop_spec(idx, s)
        v = self.ev(it, st)
        if isinstance(v, EmptyV):
            self.exec_block(s.orelse, st)
            return
        if isinstance(v, TupV) and not spec:
            try:
                for e in v.items:
                    self.assign(s.target, e, st)
                    try:
                        self.exec_block(s.body, st)
                    except ContinueEx:
                        pass
            except BreakEx:
                return
            self.exec_block(s.orelse, st)
            return
        # iteration domain
        dom = self.loop_domain(v, s, st)
        locs, flds, ghosts = self.loop_writes(s.body, st)
        tnames = {x.id for x in ast.walk(s.target) if isinstance(x, ast.Name)}
        locs |= tnames
        if spec:
            for extra in spec.get("modifies", []):
                (flds if extra in self.m.fields else ghosts).add(extra)
        invs = spec["inv"] if spec else []
        if not spec:
            self.note("loop-summarised-by-havoc", f"loop#{idx} writes locals={sorted(locs - tnames)} fields={sorted(flds)}", s.lineno)
        pre = st.clone()

        def assume_inv(state, marker):
            dom.bind_marker(state, marker, idx)
            for e in invs:
                state.pc.append(self.spec(e, state, self.entry).s)

        def oblige_inv(state, marker, kind):
            dom.bind_marker(state, marker, idx)
            label = getattr(self, "loop_alias", {}).get(idx, f"#{idx}")
            for i, e in enumerate(invs):
                self.oblige(f"{self.cur}/{kind}[loop{label if label.startswith('#') else '[' + label + ']'}].{i}", kind, state, self.spec(e, state, self.entry), s.lineno)

        m0 = dom.initial(st)
        oblige_inv(st, m0, "inv-init")
        case = self.choice(2)
        if case == 0:
            # arbitrary iteration
            self.havoc_loop(st, locs - tnames, flds, ghosts)
            mk = dom.arbitrary(st)
            assume_inv(st, mk)
            elem = dom.pick(st, mk)
            self.assign(s.target, elem, st)
            try:
                self.exec_block(s.body, st)
            except ContinueEx:
                pass
            except BreakEx:
                return self.after_loop_break(s, st)
            oblige_inv(st, dom.advance(st, mk, elem), "inv-step")
            raise PathEnd()
        # loop exit
        self.havoc_loop(st, locs, flds, ghosts)
        me = dom.final(st)
        assume_inv(st, me)
        self.exec_block(s.orelse, st)

    def after_loop_break(self, s, st):
        return

    def exec_while(self, s, st):
        idx = self.loop_ord.get(id(s), 0)
        spec = self.loop_spec(idx, s)
        invs = spec["inv"] if spec else []
        locs, flds, ghosts = self.loop_writes(s.body, st)
        if spec:
            for extra in spec.get("modifies", []):
                (flds if extra in self.m.fields else ghosts).add(extra)
        if not spec:
            self.note("loop-summarised-by-havoc", f"while#{idx}", s.lineno)
        for i, e in enumerate(invs):
            self.oblige(f"{self.cur}/inv-init[loop#{idx}].{i}", "inv-init", st, self.spec(e, st, self.entry), s.lineno)
        case = self.choice(2)
        self.havoc_loop(st, locs, flds, ghosts)
        for e in invs:
            st.pc.append(self.spec(e, st, self.entry).s)
        if case == 0:
            c = self.truth(self.ev(s.test, st))
            st.pc.append(c.s)
            dec0 = None
            if spec and spec.get("decreases"):
                dec0 = self.ev(__import__("ast").parse(spec["decreases"], mode="eval").body, st, self.entry)
            try:
                self.exec_block(s.body, st)
            except ContinueEx:
                pass
            except BreakEx:
                return
            for i, e in enumerate(invs):
                self.oblige(f"{self.cur}/inv-step[loop#{idx}].{i}", "inv-step", st, self.spec(e, st, self.entry), s.lineno)
            if dec0 is not None:
                dec1 = self.ev(__import__("ast").parse(spec["decreases"], mode="eval").body, st, self.entry)
                self.oblige(f"{self.cur}/decreases[loop#{idx}]", "decreases", st, T(BOOL, f"(and (>= {dec0.s} 0) (< {dec1.s} {dec0.s}))"), s.lineno)
            raise PathEnd()
        c = self.truth(self.ev(s.test, st))
        st.pc.append(f"(not {c.s})")
        self.exec_block(s.orelse, st)

    def loop_domain(self, v, s, st):
        if "iter" in self.m.hooks and hasattr(v, "sort"):
            v = self.m.hooks["iter"](self, v, st) or v
        if isinstance(v, tuple) and v and v[0] == "mapview":
            return MapDomain(self, v[2], v[1])
        if isinstance(v, tuple) and v and v[0] == "enum":
            return SeqDomain(self, v[1], mode="enum")
        if isinstance(v, tuple) and v and v[0] == "zip":
            return SeqDomain(self, v[1], mode="zip", other=v[2])
        if isinstance(v, T) and isinstance(v.sort, tuple):
            if v.sort[0] == "Map":
                return MapDomain(self, v, "keys")
            if v.sort[0] == "Set":
                return SetDomain(self, v)
            if v.sort[0] == "Seq":
                return SeqDomain(self, v)
        self.note("loop-over-opaque-iterable", ast.unparse(s.iter)[:50], s.lineno)
        return OpaqueDomain(self, s)


class Domain:
    def __init__(self, eng):
        self.e = eng

    def bind_marker(self, state, marker, idx):
        state.env[f"$vis{idx}"] = marker
        state.env[f"$idx{idx}"] = marker
        state.env["$viscur"] = marker
        state.env["$idxcur"] = marker
        if getattr(self, "xs", None) is not None:
            state.env[f"$it{idx}"] = self.xs      # iterated(idx): the sequence the loop runs over


class SetDomain(Domain):
    def __init__(self, eng, S):
        super().__init__(eng)
        self.S = S
        self.ks = S.sort[1]

    def member(self, k):
        return f"(select {self.S.s} {k})"

    def elem(self, k):
        return k

    def initial(self, st):
        v = self.e.ctx.fresh(("Set", self.ks), "vis")
        st.pc.append(f"(forall ((x {sort_smt(self.ks)})) (not (select {v.s} x)))")
        return v

    def arbitrary(self, st):
        v = self.e.ctx.fresh(("Set", self.ks), "vis")
        st.pc.append(f"(forall ((x {sort_smt(self.ks)})) (=> (select {v.s} x) {self.member('x')}))")
        return v

    def pick(self, st, vis):
        k = self.e.ctx.fresh(self.ks, "k")
        st.pc.append(self.member(k.s))
        st.pc.append(f"(not (select {vis.s} {k.s}))")
        self.k = k
        return self.elem(k)

    def advance(self, st, vis, elem):
        return T(vis.sort, f"(store {vis.s} {self.k.s} true)")

    def final(self, st):
        v = self.e.ctx.fresh(("Set", self.ks), "vis")
        st.pc.append(f"(forall ((x {sort_smt(self.ks)})) (= (select {v.s} x) {self.member('x')}))")
        return v


class MapDomain(SetDomain):
    def __init__(self, eng, M, view):
        Domain.__init__(self, eng)
        self.S = M
        self.ks = M.sort[1]
        self.view = view

    def member(self, k):
        return is_some(T(("Opt", self.S.sort[2]), f"(select {self.S.s} {k})")).s

    def elem(self, k):
        val = unopt(T(("Opt", self.S.sort[2]), f"(select {self.S.s} {k.s})"))
        if self.view == "items":
            return TupV([k, val])
        if self.view == "values":
            return val
        return k


class SeqDomain(Domain):
    def __init__(self, eng, xs, mode="plain", other=None):
        super().__init__(eng)
        self.xs, self.mode, self.other = xs, mode, other

    def length(self):
        if self.mode == "zip":
            return f"(ite (<= (seq.len {self.xs.s}) (seq.len {self.other.s})) (seq.len {self.xs.s}) (seq.len {self.other.s}))"
        return f"(seq.len {self.xs.s})"

    def initial(self, st):
        return T(INT, "0")

    def arbitrary(self, st):
        i = self.e.ctx.fresh(INT, "i")
        st.pc.append(f"(and (>= {i.s} 0) (< {i.s} {self.length()}))")
        return i

    def pick(self, st, i):
        el = T(self.xs.sort[1], f"(seq.nth {self.xs.s} {i.s})")
        if self.mode == "enum":
            return TupV([i, el])
        if self.mode == "zip":
            return TupV([el, T(self.other.sort[1], f"(seq.nth {self.other.s} {i.s})")])
        if isinstance(el.sort, tuple) and el.sort[0] == "Tup":
            return TupV([tup_get(el, j) for j in range(len(el.sort) - 1)])
        return el

    def advance(self, st, i, elem):
        return T(INT, f"(+ {i.s} 1)")

    def final(self, st):
        return T(INT, self.length())


class OpaqueDomain(Domain):
    def __init__(self, eng, s):
        super().__init__(eng)
        self.s = s

    def initial(self, st):
        return T(INT, "0")

    def arbitrary(self, st):
        i = self.e.ctx.fresh(INT, "i")
        st.pc.append(f"(>= {i.s} 0)")
        return i

    def pick(self, st, i):
        t = self.s.target
        if isinstance(t, ast.Tuple):
            return TupV([self.e.opaque("it") for _ in t.elts])
        return self.e.opaque("it")

    def advance(self, st, i, elem):
        return T(INT, f"(+ {i.s} 1)")

    def final(self, st):
        i = self.e.ctx.fresh(INT, "n")
        st.pc.append(f"(>= {i.s} 0)")
        return i
