"""pvc.expr -- expression evaluation (code and spec expressions share it)."""
from __future__ import annotations
import ast
from . import extract
from .smt import *
from .core import *

CMP = {ast.Lt: "<", ast.LtE: "<=", ast.Gt: ">", ast.GtE: ">="}
SORTNAMES = {"Str": STR, "Int": INT, "Bool": BOOL, "Ref": REF, "Obj": OBJ}


class ExprMixin:
    def sort_of_spec(self, node):
        """sort expression inside forall(x, <sort>, ...)"""
        txt = ast.unparse(node)
        env = dict(SORTNAMES)
        env.update(Map=Map, Set=Set, Seq=Seq, Opt=Opt, Arr=Arr, Tup=Tup)
        for k in getattr(self.m, "sortnames", {}):
            env[k] = self.m.sortnames[k]
        try:
            return eval(txt, {"__builtins__": {}}, env)
        except NameError:
            return txt  # user datatype by name

    def ev(self, n, st, old=None):
        c = self.ctx
        if isinstance(n, ast.Constant):
            v = n.value
            if v is True:
                return T(BOOL, "true")
            if v is False:
                return T(BOOL, "false")
            if isinstance(v, int):
                return T(INT, smt_int(v))
            if isinstance(v, str):
                return T(STR, smt_str(v))
            if isinstance(v, bytes):
                return T(STR, smt_str(v.decode("latin-1")))
            if v is None:
                return T(NONE, "none")
            return self.opaque("const")
        if isinstance(n, ast.Name):
            return self.ev_name(n.id, st, old)
        if isinstance(n, ast.Attribute):
            return self.ev_attr(n, st, old)
        if isinstance(n, ast.UnaryOp):
            if isinstance(n.op, ast.Not):
                t = self.truth(self.ev(n.operand, st, old))
                return T(BOOL, f"(not {t.s})")
            if isinstance(n.op, ast.USub):
                v = self.ev(n.operand, st, old)
                if v.sort == INT:
                    return T(INT, f"(- {v.s})")
            return self.opaque("unop")
        if isinstance(n, ast.BoolOp):
            return self.ev_boolop(n, st, old)
        if isinstance(n, ast.BinOp):
            return self.ev_binop(n, st, old)
        if isinstance(n, ast.IfExp):
            return self.ev_ifexp(n, st, old)
        if isinstance(n, ast.Compare):
            return self.ev_compare(n, st, old)
        if isinstance(n, ast.Subscript):
            return self.ev_subscript(n, st, old)
        if isinstance(n, ast.Call):
            return self.ev_call(n, st, old)
        if isinstance(n, ast.Tuple):
            return TupV([self.ev(e, st, old) for e in n.elts])
        if isinstance(n, ast.List):
            return self.ev_list(n, st, old)
        if isinstance(n, ast.Dict):
            return self.ev_dict(n, st, old)
        if isinstance(n, ast.Set):
            items = [self.ev(e, st, old) for e in n.elts]
            if items and all(not isinstance(i, (TupV, Closure)) and i.sort == items[0].sort for i in items):
                s = items[0].sort
                base = f"((as const {sort_smt(('Set', s))}) false)"
                for i in items:
                    base = f"(store {base} {i.s} true)"
                return T(("Set", s), base)
            return self.opaque("setlit")
        if isinstance(n, ast.JoinedStr):
            return self.ev_fstring(n, st, old)
        if isinstance(n, ast.Lambda):
            return self.ev_lambda(n, st, old)
        if isinstance(n, (ast.ListComp, ast.GeneratorExp, ast.SetComp, ast.DictComp)):
            return self.ev_comp(n, st, old)
        if isinstance(n, ast.Starred):
            return self.ev(n.value, st, old)
        if isinstance(n, ast.NamedExpr):
            v = self.ev(n.value, st, old)
            st.env[n.target.id] = v
            return v
        if isinstance(n, ast.Await):
            return self.ev(n.value, st, old)
        self.note("abstracted-expr", type(n).__name__, getattr(n, "lineno", 0))
        return self.opaque("expr")

    # ------------------------------------------------------------ names / attributes
    def ev_name(self, name, st, old):
        c = self.ctx
        if name == "result" and getattr(self, "post_mode", False) and "$result" in st.env and "result" not in self.cur_contract.get("params", {}):
            return st.env["$result"]     # in contracts `result` is the returned value, even when the body has a local of that name
        if name in st.env:
            return st.env[name]
        if name in st.ghost:
            return st.ghost[name]
        if name == "result" and "$result" in st.env:
            return st.env["$result"]
        if name in self.m.consts:
            s, txt = self.m.consts[name]
            return T(s, txt)
        if name in self.m.ufuns and not self.m.ufuns[name][0]:
            return c.app(name, [], self.m.ufuns[name][1], [])
        if getattr(self, "spec_mode", False) and name in self.cur_contract.get("locals", {}):
            # the contract talks about a local the code no longer has (renamed / removed): undecided, not a verdict about the property
            raise KeyError(f"local '{name}' named by the contract does not exist at this point of the code")
        if getattr(self, "spec_mode", False) and not getattr(self, "in_code_comp", 0) and not self.is_module_global(name):
            # same for any other name a contract expression uses that is neither bound here nor a global of the module under verification
            # (typically a loop variable or local that was renamed): the contract no longer matches the code
            raise KeyError(f"name '{name}' used by the contract is not bound at this point of the code")
        return c.app("glob_" + name, [], OBJ, [])

    def is_module_global(self, name):
        import builtins
        if hasattr(builtins, name) or name in SORTNAMES or name in getattr(self.m, "sortnames", {}):
            return True       # builtins; sort names that appear as arguments of spec forms (forall(x, Str, ...), smt(..., sort=Str))
        where = self.cur_contract.get("where")
        if not where:
            return True
        rel = where.split(":")[0]
        cache = self.__dict__.setdefault("_module_globals", {})
        if rel not in cache:
            names = set()
            try:
                tree, _ = extract.parse_file(rel)
                for x in tree.body:
                    if isinstance(x, (ast.FunctionDef, ast.AsyncFunctionDef, ast.ClassDef)):
                        names.add(x.name)
                    elif isinstance(x, (ast.Import, ast.ImportFrom)):
                        names.update((a.asname or a.name).split(".")[0] for a in x.names)
                    elif isinstance(x, (ast.Assign, ast.AnnAssign, ast.AugAssign)):
                        for t in (x.targets if isinstance(x, ast.Assign) else [x.target]):
                            names.update(n_.id for n_ in ast.walk(t) if isinstance(n_, ast.Name))
                    elif isinstance(x, (ast.If, ast.Try)):
                        for y in ast.walk(x):
                            if isinstance(y, (ast.Import, ast.ImportFrom)):
                                names.update((a.asname or a.name).split(".")[0] for a in y.names)
                            elif isinstance(y, ast.Assign):
                                for t in y.targets:
                                    names.update(n_.id for n_ in ast.walk(t) if isinstance(n_, ast.Name))
            except Exception:
                return True
            cache[rel] = names
        return name in cache[rel]

    def ev_attr(self, n, st, old):
        c = self.ctx
        txt = None
        try:
            txt = ast.unparse(n)
        except Exception:
            pass
        if txt in self.m.consts:
            s, t = self.m.consts[txt]
            return T(s, t)
        # enum members: pairwise distinct constants
        if isinstance(n.value, ast.Name) and n.value.id in self.m.enums and n.value.id not in st.env:
            en = n.value.id
            return self.enum_const(en, n.attr)
        o = self.ev(n.value, st, old)
        if isinstance(o, (TupV, Closure)):
            return self.opaque("attr")
        if isinstance(o.sort, tuple) and o.sort[0] == "Opt" and o.sort[1] == REF:
            o = unopt(o)
        if "attr" in self.m.hooks:
            r = self.m.hooks["attr"](self, o, n.attr, st, old)
            if r is not NotImplemented:
                return r
        if n.attr in getattr(self.m, "props", {}):
            r = self.m.props[n.attr](self, o, st, old)
            if r is not NotImplemented:
                return r
        if n.attr in self.m.fields and o.sort == REF:
            cls = self.m.field_cls.get(n.attr) if hasattr(self.m, "field_cls") else None
            return T(self.m.fields[n.attr], f"(select {self.field(st, n.attr).s} {o.s})", cls)
        if n.attr in self.m.stable:
            sort = self.m.stable[n.attr]
            cls = self.m.stable_cls.get(n.attr)
            fname = f"sattr_{n.attr}" if o.sort == REF else f"sattr_{n.attr}_{mangle(o.sort)}"
            return c.app(fname, [o.sort], sort, [o], cls)
        f = c.fun(f"attr_{n.attr}", [o.sort, INT], OBJ)
        return T(OBJ, f"(|{f}| {o.s} {st.ver})")

    def enum_const(self, en, member):
        c = self.ctx
        name = f"enum_{en}.{member}"
        if name not in c.funs:
            c.fun(name, [], OBJ)
            others = [k for k in c.funs if k.startswith(f"enum_{en}.") and k != name]
            for o in others:
                c.axioms.append(f"(not (= |{name}| |{o}|))")
        return T(OBJ, f"|{name}|")

    # ------------------------------------------------------------ operators
    def ev_boolop(self, n, st, old):
        vals = [self.ev(v, st, old) for v in n.values] if (self.spec_mode or self._pure_bool(n)) else None
        if vals is None:
            # short-circuit with forks (sub-expressions may have effects / raise)
            is_and = isinstance(n.op, ast.And)
            cur = None
            for v in n.values:
                cur = self.ev(v, st, old)
                t = self.truth(cur)
                if v is n.values[-1]:
                    break
                if self.branch(t, st) != is_and:
                    return cur if not isinstance(cur, T) or cur.sort != BOOL else T(BOOL, "false" if is_and else "true")
            return cur
        if all(isinstance(v, T) and v.sort == BOOL for v in vals):
            op = "and" if isinstance(n.op, ast.And) else "or"
            return T(BOOL, f"({op} {' '.join(v.s for v in vals)})")
        # value-returning and/or: a or b == a if truth(a) else b ; its truth value is the and/or of the truth values
        res = vals[-1]
        for v in reversed(vals[:-1]):
            t = self.truth(v)
            a, b = self.unify(v, res)
            res = T(a.sort, f"(ite {t.s} {a.s} {b.s})" if isinstance(n.op, ast.Or) else f"(ite {t.s} {b.s} {a.s})")
        res.tr = f"({'and' if isinstance(n.op, ast.And) else 'or'} {' '.join(self.truth(v).s for v in vals)})"
        return res

    def _pure_bool(self, n):
        """no calls (except spec forms / len / isinstance / get) => evaluate eagerly without forking"""
        for x in ast.walk(n):
            if isinstance(x, ast.Call):
                f = x.func
                nm = f.id if isinstance(f, ast.Name) else (f.attr if isinstance(f, ast.Attribute) else "")
                if nm not in self.PURE_CALLS and nm not in self.m.ufuns:
                    return False
            if isinstance(x, ast.Subscript):
                return False
        return True

    PURE_CALLS = {"len", "isinstance", "get", "old", "forall", "exists", "implies", "Some", "mapget", "visited",
                  "index", "iterated", "smt", "ite", "startswith", "endswith", "keys", "dom", "contains", "member"}

    def ev_binop(self, n, st, old):
        a = self.ev(n.left, st, old)
        b = self.ev(n.right, st, old)
        op = type(n.op)

        def keys_as_set(v):
            # d.keys() used as a set
            if isinstance(v, tuple) and not isinstance(v, (T, TupV)) and v and v[0] == "mapview" and v[1] == "keys":
                m = v[2]
                r = self.opaque("keys", ("Set", m.sort[1]))
                st.pc.append(f"(forall ((|q_ks| {sort_smt(m.sort[1])})) (= (select {r.s} |q_ks|) {is_some(T(('Opt', m.sort[2]), f'(select {m.s} |q_ks|)')).s}))")
                return r
            return v
        a, b = keys_as_set(a), keys_as_set(b)
        if (isinstance(a, tuple) and not isinstance(a, (T, TupV))) or (isinstance(b, tuple) and not isinstance(b, (T, TupV))):
            self.note("abstracted-binop", "operand is an iterator / view", n.lineno)
            return self.opaque("binop")
        if op is ast.BitAnd and isinstance(a, T) and isinstance(b, T) and isinstance(a.sort, tuple) and a.sort[0] == "Set" and a.sort == b.sort:
            r = self.opaque("inter", a.sort)
            st.pc.append(f"(forall ((|q_u| {sort_smt(a.sort[1])})) (= (select {r.s} |q_u|) (and (select {a.s} |q_u|) (select {b.s} |q_u|))))")
            return r
        if isinstance(a, TupV) and isinstance(b, TupV) and op is ast.Add:
            return TupV(a.items + b.items)
        if op is ast.Add and (isinstance(a, EmptyV) or isinstance(b, EmptyV)):
            # x + [] == x
            return b if isinstance(a, EmptyV) else a
        if isinstance(a, (TupV, Closure, EmptyV)) or isinstance(b, (TupV, Closure, EmptyV)):
            return self.opaque("binop")
        if a.sort == INT and b.sort == INT:
            if op in (ast.Add, ast.Sub, ast.Mult):
                o = {ast.Add: "+", ast.Sub: "-", ast.Mult: "*"}[op]
                return T(INT, f"({o} {a.s} {b.s})")
            if op is ast.FloorDiv:
                # python floor division == SMT div only for positive divisor; guard
                return T(INT, f"(ite (> {b.s} 0) (div {a.s} {b.s}) (- (div (- {a.s}) {b.s})))") if False else T(INT, f"(div {a.s} {b.s})")
            if op is ast.Mod:
                return T(INT, f"(mod {a.s} {b.s})")
        if a.sort == STR and b.sort == STR and op is ast.Add:
            return T(STR, f"(str.++ {a.s} {b.s})")
        if op is ast.Add and isinstance(a.sort, tuple) and a.sort[0] == "Seq" and a.sort == b.sort:
            term = T(a.sort, f"(seq.++ {a.s} {b.s})")
            if self.spec_mode or self.cur_contract.get("concat_facts") is not True:
                return term
            # code-side list concatenation with index facts (asked for by the contract: positions in a command line etc.)
            r = self.opaque("cat", a.sort)
            st.pc.append(f"(= {r.s} {term.s})")
            st.pc.append(f"(= (seq.len {r.s}) (+ (seq.len {a.s}) (seq.len {b.s})))")
            st.pc.append(f"(forall ((|q_a| Int)) (! (=> (and (>= |q_a| 0) (< |q_a| (seq.len {a.s}))) (= (seq.nth {r.s} |q_a|) (seq.nth {a.s} |q_a|))) :pattern ((seq.nth {r.s} |q_a|))))")
            st.pc.append(f"(forall ((|q_a| Int)) (! (=> (and (>= |q_a| (seq.len {a.s})) (< |q_a| (seq.len {r.s}))) (= (seq.nth {r.s} |q_a|) (seq.nth {b.s} (- |q_a| (seq.len {a.s}))))) :pattern ((seq.nth {r.s} |q_a|))))")
            return r
        if op is ast.BitOr and isinstance(a.sort, tuple) and a.sort[0] == "Set" and a.sort == b.sort:
            r = self.opaque("union", a.sort)
            q = "|q_u|"
            st.pc.append(f"(forall (({q} {sort_smt(a.sort[1])})) (= (select {r.s} {q}) (or (select {a.s} {q}) (select {b.s} {q}))))")
            return r
        if op is ast.Mod and a.sort == STR:
            r = self.percent_format(n, a, b, st)
            return r if r is not None else self.opaque("strfmt", STR)
        h = self.m.hooks["binop"](self, n, a, b, st) if "binop" in self.m.hooks else None
        if h is not None:
            return h
        self.note("abstracted-binop", f"{a.sort} {op.__name__} {b.sort}", n.lineno)
        return self.opaque("binop")

    def percent_format(self, n, a, b, st):
        """'..%d..%s..' % args for a literal template with plain %d / %s / %% fields"""
        if not (isinstance(n.left, ast.Constant) and isinstance(n.left.value, (str, bytes))):
            return None
        tmpl = n.left.value.decode("latin-1") if isinstance(n.left.value, bytes) else n.left.value
        args = list(b.items) if isinstance(b, TupV) else [b]
        parts, i, lit = [], 0, ""
        while i < len(tmpl):
            ch = tmpl[i]
            if ch == "%" and i + 1 < len(tmpl):
                k = tmpl[i + 1]
                if k == "%":
                    lit += "%"
                elif k in "ds" and args:
                    v = args.pop(0)
                    if lit:
                        parts.append(T(STR, smt_str(lit)))
                        lit = ""
                    if isinstance(v, T) and v.sort == STR and k == "s":
                        parts.append(v)
                    elif isinstance(v, T) and v.sort == INT:
                        parts.append(self.dec(v))
                    elif isinstance(v, T) and "str" in self.m.hooks and self.m.hooks["str"](self, v, st) is not None and k == "d":
                        parts.append(self.m.hooks["str"](self, v, st))
                    else:
                        return None
                else:
                    return None
                i += 2
                continue
            lit += ch
            i += 1
        if args:
            return None
        if lit:
            parts.append(T(STR, smt_str(lit)))
        if not parts:
            return T(STR, '""')
        return parts[0] if len(parts) == 1 else T(STR, "(str.++ " + " ".join(p.s for p in parts) + ")")

    def ev_ifexp(self, n, st, old):
        saved = st.clone()
        if not self.spec_mode and not (self._pure_bool(n.body) and self._pure_bool(n.orelse)):
            # branches with calls may have effects: fork instead of merging with ite
            t = self.truth(self.ev(n.test, st, old))
            if self.branch(t, st):
                return self.ev(n.body, st, old)
            return self.ev(n.orelse, st, old)
        self.nofork += 1
        try:
            t = self.truth(self.ev(n.test, st, old))
            a = self.ev(n.body, st, old)
            b = self.ev(n.orelse, st, old)
            # `x if c else None` with x of a plain sort: the value is an Optional of that sort
            for x_, y_ in ((a, b), (b, a)):
                if isinstance(x_, T) and isinstance(y_, T) and y_.sort == NONE and x_.sort not in (NONE, OBJ) and not (isinstance(x_.sort, tuple) and x_.sort[0] == "Opt"):
                    so = ("Opt", x_.sort)
                    a, b = self.coerce(a, so), self.coerce(b, so)
                    break
            a, b = self.unify(a, b)
            self.nofork -= 1
            return T(a.sort, f"(ite {t.s} {a.s} {b.s})", a.cls or b.cls)
        except NeedFork:
            self.nofork -= 1
            st.restore(saved)
        t = self.truth(self.ev(n.test, st, old))
        if self.branch(t, st):
            return self.ev(n.body, st, old)
        return self.ev(n.orelse, st, old)

    def ev_compare(self, n, st, old):
        left = self.ev(n.left, st, old)
        parts = []
        for op, cn in zip(n.ops, n.comparators):
            right = self.ev(cn, st, old)
            parts.append(self.cmp1(op, left, right, st, n))
            left = right
        if len(parts) == 1:
            return parts[0]
        return T(BOOL, conj([p.s for p in parts]))

    def cmp1(self, op, a, b, st, n):
        c = self.ctx
        if "cmp" in self.m.hooks:
            h = self.m.hooks["cmp"](self, op, a, b, st, n)
            if h is not None:
                return h
        if isinstance(op, (ast.Is, ast.IsNot, ast.Eq, ast.NotEq)):
            r = self.eq(a, b)
            return T(BOOL, f"(not {r.s})") if isinstance(op, (ast.IsNot, ast.NotEq)) else r
        if isinstance(op, tuple(CMP)):
            if isinstance(a, T) and isinstance(b, T):
                if a.sort == INT and b.sort == INT:
                    return T(BOOL, f"({CMP[type(op)]} {a.s} {b.s})")
                if a.sort == STR and b.sort == STR:
                    o = {ast.Lt: "str.<", ast.LtE: "str.<="}.get(type(op))
                    if o:
                        return T(BOOL, f"({o} {a.s} {b.s})")
                    o = {ast.Gt: "str.<", ast.GtE: "str.<="}[type(op)]
                    return T(BOOL, f"({o} {b.s} {a.s})")
                if isinstance(a.sort, tuple) and a.sort[0] == "Set" and a.sort == b.sort and isinstance(op, ast.LtE):
                    q = "|q_s|"
                    return T(BOOL, f"(forall (({q} {sort_smt(a.sort[1])})) (=> (select {a.s} {q}) (select {b.s} {q})))")
            return self.opaque("cmp", BOOL)
        if isinstance(op, (ast.In, ast.NotIn)):
            r = self.contains(b, a, st)
            return T(BOOL, f"(not {r.s})") if isinstance(op, ast.NotIn) else r
        return self.opaque("cmp", BOOL)

    def contains(self, cont, x, st):
        c = self.ctx
        if isinstance(cont, TupV):
            if not cont.items:
                return T(BOOL, "false")
            return T(BOOL, "(or " + " ".join(self.eq(x, i).s for i in cont.items) + ")") if len(cont.items) > 1 else self.eq(x, cont.items[0])
        if isinstance(x, TupV) and isinstance(cont, T) and isinstance(cont.sort, tuple) and cont.sort[0] in ("Map", "Set") \
                and isinstance(cont.sort[1], tuple) and cont.sort[1][0] == "Tup":
            x = self.coerce(x, cont.sort[1], "in")
        if isinstance(x, (TupV, Closure)) or isinstance(cont, Closure):
            return self.opaque("in", BOOL)
        s = cont.sort
        if isinstance(s, tuple):
            if s[0] == "Map":
                x = self.coerce(x, s[1], "in")
                return is_some(T(("Opt", s[2]), f"(select {cont.s} {x.s})"))
            if s[0] == "Set":
                x = self.coerce(x, s[1], "in")
                return T(BOOL, f"(select {cont.s} {x.s})")
            if s[0] == "Seq":
                x = self.coerce(x, s[1], "in")
                self.qn = getattr(self, "qn", 0) + 1
                i = f"|q_in{self.qn}|"
                return T(BOOL, f"(exists (({i} Int)) (and (>= {i} 0) (< {i} (seq.len {cont.s})) (= (seq.nth {cont.s} {i}) {x.s})))")
            if s[0] == "Opt":
                return self.contains(unopt(cont), x, st)
        if s == STR and x.sort == STR:
            return T(BOOL, f"(str.contains {cont.s} {x.s})")
        return c.app("contains_" + mangle(s) + "_" + mangle(x.sort), [s, x.sort], BOOL, [cont, x])

    def ev_subscript(self, n, st, old):
        a = self.ev(n.value, st, old)
        if isinstance(n.slice, ast.Slice):
            return self.ev_slice(a, n.slice, st, old)
        if isinstance(a, TupV):
            if isinstance(n.slice, ast.Constant) and isinstance(n.slice.value, int):
                try:
                    return a.items[n.slice.value]
                except IndexError:
                    raise RaiseEx("IndexError", None, n.lineno)
            if isinstance(n.slice, ast.UnaryOp) and isinstance(n.slice.op, ast.USub) and isinstance(n.slice.operand, ast.Constant):
                return a.items[-n.slice.operand.value]
            return self.opaque("tupidx")
        k = self.ev(n.slice, st, old)
        if isinstance(a, Closure):
            return self.opaque("subscr")
        s = a.sort
        if isinstance(s, tuple) and s[0] == "Opt":
            a = unopt(a)
            s = a.sort
        if isinstance(s, tuple):
            if s[0] == "Map":
                k = self.coerce(k, s[1], "subscript")
                e = T(("Opt", s[2]), f"(select {a.s} {k.s})")
                dd = dict(getattr(self.m, "defaultdicts", {}))
                dd.update(self.cur_contract.get("defaultdicts", {}))
                ddname = n.value.attr if isinstance(n.value, ast.Attribute) else (n.value.id if isinstance(n.value, ast.Name) else None)
                if self.spec_mode and ddname in dd and getattr(self, "comp_side", None) is not None:
                    # inside a comprehension of the code: defaultdict read without modelling the insertion
                    dflt = T(s[2], dd[ddname])
                    term = T(s[2], f"(ite {is_some(e).s} {unopt(e).s} {dflt.s})")
                    if "|q_" not in k.s and "|q_" not in a.s:
                        # name the value (no bound variable involved): keeps ite-over-sequence terms out of quantifier bodies
                        nm = self.opaque("ddread", s[2])
                        st.pc.append(f"(= {nm.s} {term.s})")
                        return nm
                    return term
                if not self.spec_mode and ddname in dd:
                    # defaultdict: reading a missing key inserts the default and returns it
                    dflt = T(s[2], dd[ddname])
                    newm = T(s, f"(ite {is_some(e).s} {a.s} (store {a.s} {k.s} {some(self.ctx, dflt).s}))")
                    self.store_back(n.value, newm, st)
                    term = T(s[2], f"(ite {is_some(e).s} {unopt(e).s} {dflt.s})")
                    if isinstance(s[2], tuple) and s[2][0] == "Seq" and "|q_" not in k.s and "|q_" not in a.s:
                        # name sequence-valued reads: ite-over-sequence terms inside later quantifiers triggered a wrong 'unsat' in z3
                        nm = self.opaque("ddread", s[2])
                        st.pc.append(f"(= {nm.s} {term.s})")
                        return nm
                    return term
                if getattr(self, "comp_side", None) is not None and not self.in_spec:
                    self.comp_side.append(is_some(e).s)
                if self.spec_mode or self.branch(is_some(e), st):
                    return unopt(e)
                raise RaiseEx("KeyError", None, n.lineno)
            if s[0] in ("Array", "Set"):
                k = self.coerce(k, s[1], "subscript")
                return T(s[2] if s[0] == "Array" else BOOL, f"(select {a.s} {k.s})")
            if s[0] == "Seq" and not isinstance(k, (TupV, Closure)) and k.sort == INT:
                ln = f"(seq.len {a.s})"
                idx = T(INT, f"(ite (>= {k.s} 0) {k.s} (+ {ln} {k.s}))")
                if (isinstance(n.slice, ast.Constant) and n.slice.value >= 0) or (self.spec_mode and not isinstance(n.slice, ast.UnaryOp)):
                    idx = k  # spec expressions index from the front (contracts never use negative indices)
                ok = T(BOOL, f"(and (>= {idx.s} 0) (< {idx.s} {ln}))")
                if self.spec_mode or self.branch(ok, st):
                    return T(s[1], f"(seq.nth {a.s} {idx.s})")
                raise RaiseEx("IndexError", None, n.lineno)
            if s[0] == "Tup" and isinstance(n.slice, ast.Constant):
                return tup_get(a, n.slice.value)
        if s == STR and not isinstance(k, (TupV, Closure)) and k.sort == INT:
            ln = f"(str.len {a.s})"
            idx = T(INT, f"(ite (>= {k.s} 0) {k.s} (+ {ln} {k.s}))")
            ok = T(BOOL, f"(and (>= {idx.s} 0) (< {idx.s} {ln}))")
            if self.spec_mode or self.branch(ok, st):
                return T(STR, f"(str.at {a.s} {idx.s})")
            raise RaiseEx("IndexError", None, n.lineno)
        h = self.m.hooks["subscript"](self, n, a, k, st) if "subscript" in self.m.hooks else None
        if h is not None:
            return h
        f = self.ctx.fun("getitem_" + mangle(a.sort), [a.sort, OBJ, INT], OBJ)
        return T(OBJ, f"(|{f}| {a.s} {self.to_obj(k).s} {st.ver})")

    def ev_slice(self, a, sl, st, old):
        if sl.step is not None or isinstance(a, (TupV, Closure)):
            if isinstance(a, TupV) and sl.step is None:
                lo = sl.lower.value if isinstance(sl.lower, ast.Constant) else None
                hi = sl.upper.value if isinstance(sl.upper, ast.Constant) else None
                if (sl.lower is None or isinstance(lo, int)) and (sl.upper is None or isinstance(hi, int)):
                    return TupV(a.items[lo:hi])
            return self.opaque("slice")
        if a.sort == STR or (isinstance(a.sort, tuple) and a.sort[0] == "Seq"):
            ln = f"(str.len {a.s})" if a.sort == STR else f"(seq.len {a.s})"

            def norm(e, default):
                if e is None:
                    return default
                v = self.ev(e, st, old)
                if v.sort != INT:
                    return None
                if v.s.startswith("(seq.len ") or v.s.startswith("(str.len ") or v.s.isdigit():
                    return f"(ite (< {v.s} {ln}) {v.s} {ln})"  # known non-negative bound
                return f"(ite (>= {v.s} 0) (ite (< {v.s} {ln}) {v.s} {ln}) (ite (>= (+ {ln} {v.s}) 0) (+ {ln} {v.s}) 0))"

            lo = norm(sl.lower, "0")
            hi = norm(sl.upper, ln)
            if lo is None or hi is None:
                return self.opaque("slice", a.sort)
            ext = "str.substr" if a.sort == STR else "seq.extract"
            term = T(a.sort, f"({ext} {a.s} {lo} (ite (>= (- {hi} {lo}) 0) (- {hi} {lo}) 0))")
            if a.sort != STR and not self.spec_mode:
                # array-like facts about the slice (solvers do not derive them under quantifiers)
                r = self.opaque("slice", a.sort)
                st.pc.append(f"(= {r.s} {term.s})")
                st.pc.append(f"(= (seq.len {r.s}) (ite (>= (- {hi} {lo}) 0) (- {hi} {lo}) 0))")
                st.pc.append(f"(forall ((|q_s| Int)) (! (=> (and (>= |q_s| 0) (< |q_s| (seq.len {r.s}))) (= (seq.nth {r.s} |q_s|) (seq.nth {a.s} (+ {lo} |q_s|)))) :pattern ((seq.nth {r.s} |q_s|))))")
                return r
            return term
        return self.opaque("slice")

    # ------------------------------------------------------------ literals
    def ev_list(self, n, st, old):
        items = []
        for e in n.elts:
            if isinstance(e, ast.Starred):
                v = self.ev(e.value, st, old)
                if isinstance(v, TupV):
                    items.extend(v.items)
                    continue
                return self.opaque("list")
            items.append(self.ev(e, st, old))
        return self.list_of(items)

    def list_of(self, items):
        if "list_literal" in self.m.hooks:
            h = self.m.hooks["list_literal"](self, items)
            if h is not None:
                return h
        if items and all(isinstance(i, T) and i.sort == items[0].sort and i.sort != NONE for i in items):
            return self.seq_of(items, items[0].sort)
        h = self.m.hooks["hetero_list"](self, items) if "hetero_list" in self.m.hooks else None
        if h is not None:
            return h
        if not items:
            return EmptyV("list")
        return TupV(items)

    def ev_dict(self, n, st, old):
        if not n.keys:
            return EmptyV("dict")
        ks = [self.ev(k, st, old) if k is not None else None for k in n.keys]
        vs = [self.ev(v, st, old) for v in n.values]
        # {**a, **b}: right-biased merge of two maps of equal sort
        if ks and all(k is None for k in ks) and all(isinstance(v, T) and isinstance(v.sort, tuple) and v.sort[0] == "Map" and v.sort == vs[0].sort for v in vs):
            cur = vs[0]
            for nxt in vs[1:]:
                r = self.opaque("merge", cur.sort)
                q = "|q_m|"
                e2 = f"(select {nxt.s} {q})"
                st.pc.append(f"(forall (({q} {sort_smt(cur.sort[1])})) (= (select {r.s} {q}) (ite {is_some(T(('Opt', cur.sort[2]), e2)).s} {e2} (select {cur.s} {q}))))")
                cur = r
            return cur
        if ks and all(isinstance(k, T) for k in ks) and all(isinstance(v, T) for v in vs) and all(k.sort == ks[0].sort for k in ks) and all(v.sort == vs[0].sort for v in vs) and vs[0].sort != NONE:
            ms = ("Map", ks[0].sort, vs[0].sort)
            self.ctx.need(ms)
            base = f"((as const {sort_smt(ms)}) {none_of(self.ctx, vs[0].sort).s})"
            for k, v in zip(ks, vs):
                base = f"(store {base} {k.s} {some(self.ctx, v).s})"
            return T(ms, base)
        h = self.m.hooks["dict"](self, n, ks, vs, st) if "dict" in self.m.hooks else None
        if h is not None:
            return h
        # general case: fold left to right into a Map(Str, Obj) (A-DICT: later entries win)
        if all(k is None or (isinstance(k, T) and k.sort == STR) for k in ks):
            ms = ("Map", STR, OBJ)
            self.ctx.need(ms)
            cur = T(ms, f"((as const {sort_smt(ms)}) {none_of(self.ctx, OBJ).s})")
            for k, v in zip(ks, vs):
                if k is None:
                    if isinstance(v, EmptyV):
                        continue
                    if not (isinstance(v, T) and v.sort == ms):
                        return self.opaque("dict")
                    r = self.opaque("merge", ms)
                    q = "|q_m|"
                    e2 = f"(select {v.s} {q})"
                    st.pc.append(f"(forall (({q} String)) (= (select {r.s} {q}) (ite {is_some(T(('Opt', OBJ), e2)).s} {e2} (select {cur.s} {q}))))")
                    cur = r
                else:
                    cur = T(ms, f"(store {cur.s} {k.s} {some(self.ctx, self.to_obj(v)).s})")
            return cur
        return self.opaque("dict")

    def ev_fstring(self, n, st, old):
        parts = []
        for v in n.values:
            if isinstance(v, ast.Constant):
                parts.append(T(STR, smt_str(v.value)))
            else:
                x = self.ev(v.value, st, old)
                if isinstance(x, T) and x.sort == STR and v.format_spec is None and v.conversion == -1:
                    parts.append(x)
                elif isinstance(x, T) and x.sort == INT and v.format_spec is None:
                    parts.append(self.dec(x))
                elif isinstance(x, T) and x.sort == ("Opt", STR) and v.format_spec is None and v.conversion == -1:
                    parts.append(T(STR, f'(ite {is_some(x).s} {unopt(x).s} "None")'))
                else:
                    parts.append(self.opaque("fmt", STR))
        if not parts:
            return T(STR, '""')
        if len(parts) == 1:
            return parts[0]
        return T(STR, "(str.++ " + " ".join(p.s for p in parts) + ")")

    def dec(self, x):
        """str(int): behind A-DEC (uninterpreted dec/undec with axioms supplied by lib.strings)"""
        return self.ctx.app("dec", [INT], STR, [x])

    def ev_lambda(self, n, st, old):
        self.check_deferred(n, n.body, [a.arg for a in n.args.args], st, old)
        return Closure(n, dict(st.env))

    # ------------------------------------------------------------ comprehensions
    def ev_comp(self, n, st, old):
        c = self.ctx
        if "comp" in self.m.hooks:
            r = self.m.hooks["comp"](self, n, st, old)
            if r is not NotImplemented:
                return r
        if len(n.generators) != 1:
            self.note("abstracted-expr", "multi-generator comprehension", n.lineno)
            return self.opaque("comp")
        g = n.generators[0]
        src, binder = self.iter_domain(g.iter, g.target, st, old)
        if src is None:
            self.note("abstracted-expr", "comprehension over " + ast.unparse(g.iter)[:40], n.lineno)
            return self.opaque("comp")
        qvars, dom_cond, env_upd = binder("c%d" % n.lineno)
        st2 = st.clone()
        st2.env.update(env_upd)
        self.nofork += 1
        saved_spec = self.spec_mode
        saved_side = getattr(self, "comp_side", None)
        self.comp_side = [] if not saved_spec else None
        self.in_spec = saved_spec
        self.spec_mode = True
        if not saved_spec:
            self.in_code_comp = getattr(self, "in_code_comp", 0) + 1     # a comprehension of the code, evaluated in spec mode
        try:
            conds = [self.truth(self.ev(i, st2, old)).s for i in g.ifs]
            if isinstance(n, ast.DictComp):
                kk = self.ev(n.key, st2, old)
                vv = self.ev(n.value, st2, old)
            else:
                el = self.ev(n.elt, st2, old)
        except NeedFork:
            self.note("abstracted-expr", "comprehension body forks", n.lineno)
            return self.opaque("comp")
        finally:
            self.nofork -= 1
            self.spec_mode = saved_spec
            if not saved_spec:
                self.in_code_comp -= 1
            side, self.comp_side = self.comp_side, saved_side
        st.pc.extend(st2.pc[len(st.pc):])
        qdecl = " ".join(f"({v} {sort_smt(s)})" for v, s in qvars)
        if side and self.cur_contract.get("no_raise"):
            # lookups inside the comprehension must not raise for any element of the domain
            self.oblige(f"{self.cur}/comp-safe[comp#{self.comp_ord.get(id(n), 0)}]", "comp-safe", st, T(BOOL, f"(forall ({qdecl}) (=> {dom_cond} {conj(side)}))"), n.lineno)
        guard = conj([dom_cond] + conds)
        if isinstance(n, ast.GeneratorExp):
            return ("gen", qdecl, guard, el)
        if isinstance(n, ast.ListComp) and src == "seq" and not g.ifs and isinstance(el, T):
            xs, i = env_upd["$seq"], qvars[0][0]
            r = self.opaque("lc", ("Seq", el.sort))
            if el.s == f"(seq.nth {xs.s} {i})" and el.sort == xs.sort[1]:
                return xs     # [x for x in xs]: a copy of the list
            st.pc.append(f"(= (seq.len {r.s}) (seq.len {xs.s}))")
            st.pc.append(f"(forall ({qdecl}) (=> {dom_cond} (= (seq.nth {r.s} {i}) {el.s})))")
            return r
        if isinstance(n, ast.SetComp) and isinstance(el, T):
            r = self.opaque("sc", ("Set", el.sort))
            y = "|q_y|"
            st.pc.append(f"(forall (({y} {sort_smt(el.sort)})) (= (select {r.s} {y}) (exists ({qdecl}) (and {guard} (= {y} {el.s})))))")
            return r
        if isinstance(n, ast.DictComp) and isinstance(kk, T) and isinstance(vv, T) and src in ("map", "set") and kk.s == qvars[0][0]:
            ms = ("Map", kk.sort, vv.sort)
            r = self.opaque("dc", ms)
            st.pc.append(f"(forall ({qdecl}) (= (select {r.s} {kk.s}) (ite {guard} {some(c, vv).s} {none_of(c, vv.sort).s})))")
            return r
        if isinstance(n, ast.DictComp) and isinstance(kk, T) and isinstance(vv, T) and not any(q in vv.s for q, _ in qvars):
            # {key(x): constant for x in xs}: key present iff some element maps to it
            ms = ("Map", kk.sort, vv.sort)
            r = self.opaque("dc", ms)
            y = "|q_y|"
            ex = f"(exists ({qdecl}) (and {guard} (= {kk.s} {y})))"
            st.pc.append(f"(forall (({y} {sort_smt(kk.sort)})) (=> {ex} (= (select {r.s} {y}) {some(c, vv).s})))")
            st.pc.append(f"(forall (({y} {sort_smt(kk.sort)})) (=> (not {ex}) (= (select {r.s} {y}) {none_of(c, vv.sort).s})))")
            return r
        if isinstance(n, ast.ListComp) and isinstance(el, T):
            # filtered / unordered source: membership-only summary (order and multiplicity not tracked)
            r = self.opaque("lc", ("Seq", el.sort))
            y = "|q_y|"
            st.pc.append(f"(forall ({qdecl}) (! (=> {guard} (seq.contains {r.s} (seq.unit {el.s}))) :pattern ((seq.unit {el.s}))))")
            st.pc.append(f"(forall (({y} {sort_smt(el.sort)})) (! (=> (seq.contains {r.s} (seq.unit {y})) (exists ({qdecl}) (and {guard} (= {y} {el.s})))) :pattern ((seq.contains {r.s} (seq.unit {y})))))")
            if src == "seq" and len(qvars) == 1 and qvars[0][1] == INT and "$seq" in env_upd:
                # filtered comprehension over a sequence: r is the subsequence of mapped elements at the positions where the filter holds.
                # pos(k) = source index of r[k] (strictly increasing), inv(i) = index in r of source position i (for positions that pass the filter)
                xs, iv = env_upd["$seq"], qvars[0][0]
                self.qn = getattr(self, "qn", 0) + 1
                pos, inv = c.fun(f"pos_lc{self.qn}_{c.n}", [INT], INT), c.fun(f"inv_lc{self.qn}_{c.n}", [INT], INT)
                sub = lambda txt, term: txt.replace(iv, term)
                pk = f"(|{pos}| |q_pk|)"
                st.pc.append(f"(forall ((|q_pk| Int)) (! (=> (and (>= |q_pk| 0) (< |q_pk| (seq.len {r.s}))) (and {sub(guard, pk)} (= (seq.nth {r.s} |q_pk|) {sub(el.s, pk)}))) :pattern ((seq.nth {r.s} |q_pk|)) :pattern ({pk})))")
                st.pc.append(f"(forall ((|q_pk| Int) (|q_pl| Int)) (! (=> (and (>= |q_pk| 0) (< |q_pk| |q_pl|) (< |q_pl| (seq.len {r.s}))) (< {pk} (|{pos}| |q_pl|))) :pattern ({pk} (|{pos}| |q_pl|))))")
                ik = f"(|{inv}| {iv})"
                st.pc.append(f"(forall ({qdecl}) (! (=> {guard} (and (>= {ik} 0) (< {ik} (seq.len {r.s})) (= (|{pos}| {ik}) {iv}))) :pattern ((seq.nth {xs.s} {iv})) :pattern ({ik})))")
                self.note("comprehension-filtered-subsequence", ast.unparse(n)[:50], n.lineno)
                return r
            self.note("comprehension-membership-only", ast.unparse(n)[:50], n.lineno)
            return r
        self.note("abstracted-expr", "comprehension " + ast.unparse(n)[:40], n.lineno)
        return self.opaque("comp")

    def iter_domain(self, it, target, st, old):
        """returns (kind, binder) ; binder(tag) -> (qvars, domain-condition, env updates) for quantified use"""
        c = self.ctx
        if isinstance(it, ast.Call) and isinstance(it.func, ast.Attribute) and it.func.attr in ("items", "keys", "values") and not it.args:
            m = self.ev(it.func.value, st, old)
            if isinstance(m, T) and isinstance(m.sort, tuple) and m.sort[0] == "Map":
                def binder(tag, m=m, attr=it.func.attr):
                    k = T(m.sort[1], f"|q_k{tag}|")
                    e = T(("Opt", m.sort[2]), f"(select {m.s} {k.s})")
                    upd = {}
                    if attr == "items":
                        if isinstance(target, ast.Tuple):
                            upd[target.elts[0].id] = k
                            upd[target.elts[1].id] = unopt(e)
                        else:
                            upd[target.id] = TupV([k, unopt(e)])
                    elif attr == "keys":
                        upd[target.id] = k
                    else:
                        upd[target.id] = unopt(e)
                    return [(k.s, m.sort[1])], is_some(e).s, upd
                return "map", binder
            v0 = self.ev(it, st, old)     # a library hook may supply the mapping behind x.items() / keys() / values()
            if isinstance(v0, tuple) and not isinstance(v0, (T, TupV)) and v0 and v0[0] == "mapview" and isinstance(v0[2], T) and v0[2].sort[0] == "Map":
                def binder(tag, m=v0[2], attr=v0[1]):
                    k = T(m.sort[1], f"|q_k{tag}|")
                    e = T(("Opt", m.sort[2]), f"(select {m.s} {k.s})")
                    upd = {}
                    if attr == "items":
                        if isinstance(target, ast.Tuple):
                            upd[target.elts[0].id] = k
                            upd[target.elts[1].id] = unopt(e)
                        else:
                            upd[target.id] = TupV([k, unopt(e)])
                    elif attr == "keys":
                        upd[target.id] = k
                    else:
                        upd[target.id] = unopt(e)
                    return [(k.s, m.sort[1])], is_some(e).s, upd
                return "map", binder
            return None, None
        v = self.ev(it, st, old)
        if "iter" in self.m.hooks and hasattr(v, "sort"):
            v = self.m.hooks["iter"](self, v, st) or v
        if isinstance(v, tuple) and v and v[0] in ("zip", "enum") and isinstance(target, ast.Tuple) and len(target.elts) == 2 and all(isinstance(t, ast.Name) for t in target.elts):
            def binder(tag, v=v):
                i = f"|q_i{tag}|"
                if v[0] == "enum":
                    xs = v[1]
                    upd = {"$seq": xs, target.elts[0].id: T(INT, i), target.elts[1].id: T(xs.sort[1], f"(seq.nth {xs.s} {i})")}
                    ln = f"(seq.len {xs.s})"
                else:
                    xs, ys = v[1], v[2]
                    upd = {"$seq": xs, target.elts[0].id: T(xs.sort[1], f"(seq.nth {xs.s} {i})"), target.elts[1].id: T(ys.sort[1], f"(seq.nth {ys.s} {i})")}
                    ln = f"(ite (<= (seq.len {xs.s}) (seq.len {ys.s})) (seq.len {xs.s}) (seq.len {ys.s}))"
                return [(i, INT)], f"(and (>= {i} 0) (< {i} {ln}))", upd
            return ("zipseq" if v[0] == "zip" else "seq"), binder
        if isinstance(v, T) and isinstance(v.sort, tuple):
            if v.sort[0] == "Map" and isinstance(target, ast.Name):
                def binder(tag, m=v):
                    k = T(m.sort[1], f"|q_k{tag}|")
                    e = T(("Opt", m.sort[2]), f"(select {m.s} {k.s})")
                    return [(k.s, m.sort[1])], is_some(e).s, {target.id: k}
                return "map", binder
            if v.sort[0] == "Set" and isinstance(target, ast.Name):
                def binder(tag, s=v):
                    k = T(s.sort[1], f"|q_k{tag}|")
                    return [(k.s, s.sort[1])], f"(select {s.s} {k.s})", {target.id: k}
                return "set", binder
            if (v.sort[0] == "Set" and isinstance(target, ast.Tuple) and isinstance(v.sort[1], tuple) and v.sort[1][0] == "Tup"
                    and len(target.elts) == len(v.sort[1]) - 1 and all(isinstance(t, ast.Name) for t in target.elts)):
                def binder(tag, s=v):
                    k = T(s.sort[1], f"|q_k{tag}|")
                    return [(k.s, s.sort[1])], f"(select {s.s} {k.s})", {t.id: tup_get(k, j) for j, t in enumerate(target.elts)}
                return "set", binder
            if v.sort[0] == "Seq":
                def binder(tag, xs=v):
                    i = f"|q_i{tag}|"
                    el = T(xs.sort[1], f"(seq.nth {xs.s} {i})")
                    upd = {"$seq": xs}
                    if isinstance(target, ast.Name):
                        upd[target.id] = el
                    elif isinstance(target, ast.Tuple) and isinstance(el.sort, tuple) and el.sort[0] == "Tup":
                        for j, t in enumerate(target.elts):
                            upd[t.id] = tup_get(el, j)
                    return [(i, INT)], f"(and (>= {i} 0) (< {i} (seq.len {xs.s})))", upd
                return "seq", binder
        return None, None
