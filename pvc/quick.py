"""dev helper: python -m pvc.quick contracts/c08.py [function-substring] [--dump obligation-substring]"""
import sys, importlib.util, time
from pvc.engine import Engine
from pvc import solve
def load(path):
    spec = importlib.util.spec_from_file_location("cmod", path); m = importlib.util.module_from_spec(spec); spec.loader.exec_module(m); return m
if __name__ == "__main__":
    m = load(sys.argv[1]); filt = sys.argv[2] if len(sys.argv) > 2 and not sys.argv[2].startswith("--") else ""
    dump = sys.argv[sys.argv.index("--dump")+1] if "--dump" in sys.argv else None
    mods = m.MODULES if hasattr(m, "MODULES") else [(m.MODULE, m.VERIFY)]
    obls=[]
    for module, verify in mods:
        eng = Engine(module)
        for short in verify:
            if filt in short:
                print(eng.verify(short))
                if module.contracts[short].get("relational"):
                    from pvc import relational
                    obls += relational.pair_obligations(eng, short, module.contracts[short]["relational"], converse=module.contracts[short].get("relational_converse"))
        obls += eng.obls
        for n in eng.notes: print("   note", n)
    if dump:
        i=0
        for o in obls:
            if dump in o.name:
                open(f"/verif/.work/dump{i}.smt2","w").write(solve.full_script(o)); 
                try: open(f"/verif/.work/dump{i}_s2.smt2","w").write(solve.qf_script(o))
                except Exception as e: print("s2 error", e)
                print("dumped", o.name, "->", f".work/dump{i}.smt2"); i+=1
        sys.exit()
    t=time.time(); vs = solve.discharge_all(obls)
    bad=0
    for v in vs:
        if v.status != "proved":
            bad+=1; print("  ", v.status.upper(), v.o.name, "L%d"%v.o.line, v.detail)
    print(f"{len(vs)} obligations, {len(vs)-bad} ok, {bad} not ok, {time.time()-t:.1f}s")
