"""pvc.symexec -- symbolic execution of real Python function ASTs under sidecar contracts.

Forking is done by re-execution: every nondeterministic decision (branch,
exception, loop case) is taken through Engine.choice(); the function is
re-run once per decision sequence, so expressions may fork as freely as
statements.  Each path owns its Ctx; obligations carry their path's
declarations and path condition.
"""
from __future__ import annotations
import ast, copy, textwrap
from .smt import *
from . import extract


class Unsupported(Exception):
    pass


class PathEnd(Exception):
    """path deliberately terminated (e.g. after an arbitrary loop iteration)"""


class NeedFork(Exception):
    pass


class ReturnEx(Exception):
    def __init__(self, v):
        self.v = v


class RaiseEx(Exception):
    def __init__(self, exc, val=None, line=0):
        self.exc, self.val, self.line = exc, val, line


class BreakEx(Exception):
    pass


class ContinueEx(Exception):
    pass


EXC_PARENTS = {
    "KeyError": "LookupError", "IndexError": "LookupError", "LookupError": "Exception",
    "FileNotFoundError": "OSError", "NotADirectoryError": "OSError", "IsADirectoryError": "OSError", "PermissionError": "OSError", "OSError": "Exception", "IOError": "Exception",
    "ValueError": "Exception", "TypeError": "Exception", "AssertionError": "Exception",
    "NotImplementedError": "RuntimeError", "RuntimeError": "Exception", "StopIteration": "Exception",
    "AttributeError": "Exception", "FrozenInstanceError": "AttributeError", "Exception": "BaseException", "KeyboardInterrupt": "BaseException",
}


def exc_isa(e, c):
    seen = 0
    while e and seen < 20:
        if e == c:
            return True
        e = EXC_PARENTS.get(e, "Exception" if e not in ("BaseException",) else None)
        seen += 1
    return False


class St:
    def __init__(self):
        self.env = {}
        self.heap = {}
        self.ghost = {}
        self.pc = []
        self.ver = 0
        self.cls = {}

    def clone(self):
        s = St()
        s.env = dict(self.env)
        s.heap = dict(self.heap)
        s.ghost = dict(self.ghost)
        s.pc = list(self.pc)
        s.ver = self.ver
        s.cls = dict(self.cls)
        return s

    def restore(self, o):
        self.env, self.heap, self.ghost, self.pc, self.ver, self.cls = o.env, o.heap, o.ghost, o.pc, o.ver, o.cls


class Obligation:
    __slots__ = ("name", "kind", "prelude", "pc", "goal", "line", "func", "expect", "consts")

    def __init__(self, name, kind, prelude, pc, goal, line, func, expect="unsat", consts=None):
        self.name, self.kind, self.prelude, self.pc, self.goal = name, kind, prelude, pc, goal
        self.line, self.func, self.expect, self.consts = line, func, expect, consts or {}

    def key(self):
        return (self.name, tuple(self.pc), self.goal)


class Module:
    """what a contract file provides"""

    def __init__(self, **kw):
        self.fields = kw.get("fields", {})      # tracked attribute -> sort
        self.stable = kw.get("stable", {})      # immutable attribute -> sort (or (sort, cls))
        self.stable_cls = kw.get("stable_cls", {})  # immutable attribute -> class name of the value
        self.field_cls = kw.get("field_cls", {})  # tracked attribute -> class name of the value
        self.ufuns = kw.get("ufuns", {})        # name -> ([argsorts], ret)
        self.axioms = kw.get("axioms", [])
        self.prelude = kw.get("prelude", "")
        self.lib = kw.get("lib", {})            # unparse-prefix -> handler(engine, node, st, old)
        self.contracts = kw.get("contracts", {})  # short name 'Scheduler.foo' -> dict
        self.enums = kw.get("enums", {})        # 'CacheScope' -> ['NONE', ...]
        self.consts = kw.get("consts", {})      # dotted text -> (sort, smt)
        self.classes = kw.get("classes", {})    # default var -> class
        self.props = kw.get("props", {})        # property attribute -> handler(engine, obj, st, old)
        self.defaultdicts = kw.get("defaultdicts", {})  # tracked Map attribute -> smt text of the default value
        self.sortnames = kw.get("sortnames", {})
        self.defs = kw.get("defs", {})          # name -> ([argsorts], ret) for functions defined in defs_text
        self.defs_text = kw.get("defs_text", "")  # (define-fun ...) text emitted after declarations
        self.predeclared_opts = kw.get("predeclared_opts", [])  # Opt sorts whose datatype the prelude declares itself
        self.declare_stable = kw.get("declare_stable", False)  # pre-declare sattr_<a>(Ref) for every stable attribute
        self.hooks = kw.get("hooks", {})       # binop / cmp / subscript / hetero_list / dict / isinstance
        self.skip_calls = kw.get("skip_calls", ["self.log", "logger.", "log.", "warnings.warn", "print"])


class EngineBase:
    def __init__(self, module: Module):
        self.m = module
        self.obls = []
        self.notes = []
        self.seen = set()
        self.paths = 0
        self.nofork = 0
        self.try_depth = 0
        self.sites_seen = set()
        self.path_outcomes = []
        self.return_paths = {}
        self.lib_used = {}        # contract -> library patterns that matched a call in this run
        self.out_of_sync = {}     # contract -> reasons why the contract no longer talks about the code it is run against
        self.fn_names = set()

    # ------------------------------------------------------------------ choice
    def choice(self, n, label=""):
        if self.nofork:
            raise NeedFork()
        if self.dpos < len(self.decisions):
            d = self.decisions[self.dpos]
        else:
            d = 0
            for j in range(1, n):
                self.new_alts.append(self.decisions[: self.dpos] + [j])
            self.decisions.append(0)
        self.dpos += 1
        return d

    def branch(self, cond, st):
        """fork on a Bool term; returns python bool and extends pc"""
        if cond.s == "true":
            return True
        if cond.s == "false":
            return False
        if self.choice(2) == 0:
            st.pc.append(cond.s)
            return True
        st.pc.append(f"(not {cond.s})")
        return False

    # ------------------------------------------------------------------ helpers
    def note(self, kind, what, line=0):
        k = (kind, what, line)
        if k not in self.seen:
            self.seen.add(k)
            self.notes.append(k)

    def oblige(self, name, kind, st, goal, line=0, expect="unsat"):
        g = goal.s if isinstance(goal, T) else goal
        if "SPEC-ERROR" in g:
            expect = "specerror"
        o = Obligation(name, kind, None, [p for p in st.pc if "SPEC-ERROR" not in p], g, line, self.cur, expect)
        o.prelude = self.ctx  # resolved at end of path (needs all decls)
        self.path_obls.append(o)

    def opaque(self, hint, sort=OBJ, cls=None):
        return self.ctx.fresh(sort, hint, cls)

    def truth(self, t):
        c = self.ctx
        if isinstance(t, TupV):
            return T(BOOL, "true" if t.items else "false")
        if isinstance(t, Closure):
            return T(BOOL, "true")
        if isinstance(t, EmptyV):
            return T(BOOL, "false")
        if getattr(t, "tr", None):
            return T(BOOL, t.tr)
        s = t.sort
        if s == BOOL:
            return t
        if s == INT:
            return T(BOOL, f"(not (= {t.s} 0))")
        if s == STR:
            return T(BOOL, f"(> (str.len {t.s}) 0)")
        if s == NONE:
            return T(BOOL, "false")
        if isinstance(s, tuple):
            if s[0] == "Opt":
                inner = self.truth(unopt(t))
                if inner.s == "true":
                    return is_some(t)
                return T(BOOL, f"(and {is_some(t).s} {inner.s})")
            if s[0] == "Seq":
                return T(BOOL, f"(> (seq.len {t.s}) 0)")
            if s[0] == "Map":
                k = "|q_nk|"
                e = T(("Opt", s[2]), f"(select {t.s} {k})")
                return T(BOOL, f"(exists (({k} {sort_smt(s[1])})) {is_some(e).s})")
            if s[0] == "Set":
                return T(BOOL, f"(exists ((|q_nk| {sort_smt(s[1])})) (select {t.s} |q_nk|))")
            if s[0] == "Tup":
                return T(BOOL, "true")
        if s == REF:
            return T(BOOL, "true")
        if s == OBJ:
            return c.app("truthy", [OBJ], BOOL, [t])
        if isinstance(s, str) and s.startswith("Row_"):
            return T(BOOL, "true")  # ORM entities are plain objects: always truthy
        # user datatype: uninterpreted truthiness
        return c.app("truthy_" + mangle(s), [s], BOOL, [t])

    def field(self, st, name):
        if name not in st.heap:
            st.heap[name] = self.ctx.fresh(("Array", REF, self.m.fields[name]), "H_" + name)
        return st.heap[name]

    def to_obj(self, t):
        if isinstance(t, TupV):
            return self.opaque("tup")
        if isinstance(t, Closure):
            return self.opaque("closure")
        if isinstance(t, EmptyV):
            return self.opaque("empty_" + t.kind)
        if t.sort == OBJ:
            return t
        if t.sort == NONE:
            return self.ctx.app("none_obj", [], OBJ, [])
        self.box_axiom(t.sort)
        return self.ctx.app("box_" + mangle(t.sort), [t.sort], OBJ, [t])

    def coerce(self, t, sort, what=""):
        """bring t to `sort` (exactly, via Opt wrapping, or by havoc with a note)"""
        if "coerce" in self.m.hooks:
            h = self.m.hooks["coerce"](self, t, sort)
            if h is not None:
                return h
        if isinstance(t, EmptyV):
            if isinstance(sort, tuple) and sort[0] in ("Map", "Set", "Seq", "Array"):
                return self.empty_of(sort)
            if isinstance(sort, tuple) and sort[0] == "Opt":
                return some(self.ctx, self.coerce(t, sort[1], what))
            return self.to_obj(t) if sort == OBJ else self.opaque("coerced", sort)
        if isinstance(t, (TupV, Closure)):
            if sort == OBJ:
                return self.to_obj(t)
            if isinstance(t, TupV) and isinstance(sort, tuple) and sort[0] == "Tup" and len(sort) - 1 == len(t.items):
                return mk_tup(self.ctx, [self.coerce(x, s) for x, s in zip(t.items, sort[1:])])
            if isinstance(t, TupV) and isinstance(sort, tuple) and sort[0] == "Seq":
                return self.seq_of([self.coerce(x, sort[1]) for x in t.items], sort[1])
            self.note("havoc-coerce", f"{what}: tuple -> {sort}")
            return self.opaque("coerced", sort)
        if t.sort == sort:
            return t
        if isinstance(sort, tuple) and sort[0] == "Opt":
            if t.sort == NONE:
                return none_of(self.ctx, sort[1])
            if t.sort == sort[1]:
                return some(self.ctx, t)
            if t.sort == OBJ:
                isn = self.ctx.app("is_none", [OBJ], BOOL, [t])
                inner = self.unbox(t, sort[1])
                return T(sort, f"(ite {isn.s} {none_of(self.ctx, sort[1]).s} {some(self.ctx, inner).s})")
            return some(self.ctx, self.coerce(t, sort[1], what))
        if isinstance(t.sort, tuple) and t.sort[0] == "Opt" and t.sort[1] == sort:
            return unopt(t)
        if sort == OBJ:
            return self.to_obj(t)
        if sort == BOOL:
            return self.truth(t)
        if t.sort == OBJ and sort != NONE:
            return self.unbox(t, sort)
        if isinstance(sort, tuple) and sort[0] == "Seq" and isinstance(t.sort, tuple) and t.sort == ("Seq", ("Opt", sort[1])):
            # List[Optional[X]] used as List[X] (cast / filtered comprehension): same length, same entries wherever they are not None
            r = self.ctx.fresh(sort, "unopt_seq")
            m = mangle(sort[1])
            self.ctx.axioms.append(f"(= (seq.len {r.s}) (seq.len {t.s}))")
            self.ctx.axioms.append(f"(forall ((|q_us| Int)) (! (=> (and (>= |q_us| 0) (< |q_us| (seq.len {t.s})) ((_ is Some_{m}) (seq.nth {t.s} |q_us|))) "
                                   f"(= (seq.nth {r.s} |q_us|) (val_{m} (seq.nth {t.s} |q_us|)))) :pattern ((seq.nth {r.s} |q_us|)) :pattern ((seq.nth {t.s} |q_us|))))")
            return r
        self.note("havoc-coerce", f"{what}: {t.sort} -> {sort}")
        return self.opaque("coerced", sort)

    def box_axiom(self, sort):
        m = mangle(sort)
        c = self.ctx
        c.fun("box_" + m, [sort], OBJ)
        c.fun("unbox_" + m, [OBJ], sort)
        ax = f"(forall ((x {sort_smt(sort)})) (! (= (|unbox_{m}| (|box_{m}| x)) x) :pattern ((|box_{m}| x))))"
        if ax not in c.axioms:
            c.axioms.append(ax)

    def unbox(self, t, sort):
        self.box_axiom(sort)
        return self.ctx.app("unbox_" + mangle(sort), [OBJ], sort, [t])

    def unify(self, a, b):
        if isinstance(a, EmptyV) and isinstance(b, T) and isinstance(b.sort, tuple):
            a = self.coerce(a, b.sort)
        if isinstance(b, EmptyV) and isinstance(a, T) and isinstance(a.sort, tuple):
            b = self.coerce(b, a.sort)
        if isinstance(a, (TupV, Closure, EmptyV)):
            a = self.to_obj(a)
        if isinstance(b, (TupV, Closure, EmptyV)):
            b = self.to_obj(b)
        if a.sort == b.sort:
            return a, b
        for x, y, sw in ((a, b, False), (b, a, True)):
            if isinstance(y.sort, tuple) and y.sort[0] == "Opt" and (x.sort == NONE or x.sort == y.sort[1]):
                x2 = self.coerce(x, y.sort)
                return (y, x2) if sw else (x2, y)
        if a.sort == NONE and b.sort == NONE:
            return a, b
        if a.sort == NONE:
            a, b = self.unify(b, a)
            return b, a
        if b.sort == NONE:
            # comparing a non-optional with None
            return self.to_obj(a), self.to_obj(b)
        return self.to_obj(a), self.to_obj(b)

    def seq_of(self, items, sort):
        if not items:
            return T(("Seq", sort), f"(as seq.empty {sort_smt(('Seq', sort))})")
        units = [f"(seq.unit {i.s})" for i in items]
        if len(units) == 1:
            return T(("Seq", sort), units[0])
        return T(("Seq", sort), "(seq.++ " + " ".join(units) + ")")

    def eq(self, a, b):
        if isinstance(a, TupV) and isinstance(b, TupV):
            if len(a.items) != len(b.items):
                return T(BOOL, "false")
            return T(BOOL, conj([self.eq(x, y).s for x, y in zip(a.items, b.items)]))
        # tuple display against a value of a tuple sort: compare componentwise at that sort
        if isinstance(a, TupV) and isinstance(b, T) and isinstance(b.sort, tuple) and b.sort[0] == "Tup" and len(b.sort) - 1 == len(a.items):
            a = self.coerce(a, b.sort, "eq")
        elif isinstance(b, TupV) and isinstance(a, T) and isinstance(a.sort, tuple) and a.sort[0] == "Tup" and len(a.sort) - 1 == len(b.items):
            b = self.coerce(b, a.sort, "eq")
        if a.sort == NONE and b.sort == NONE:
            return T(BOOL, "true")
        for x, y in ((a, b), (b, a)):
            if not isinstance(y, (TupV, Closure)) and y.sort == NONE and not isinstance(x, (TupV, Closure)):
                if isinstance(x.sort, tuple) and x.sort[0] == "Opt":
                    return T(BOOL, f"(not {is_some(x).s})")
                if x.sort == OBJ:
                    return self.ctx.app("is_none", [OBJ], BOOL, [x])
                return T(BOOL, "false")
        a, b = self.unify(a, b)
        return T(BOOL, f"(= {a.s} {b.s})")
