"""pvc.calls -- call handling: spec forms, library patterns, builtins, closures, contracts, opaque."""
from __future__ import annotations
import ast, textwrap
from .smt import *
from .core import *


def parse_expr(s):
    return ast.parse(s.strip(), mode="eval").body


class CallMixin:
    # ------------------------------------------------------------ resolution
    def index_sites(self, fn):
        """syntactic ordinals: k-th call to the same callee text, k-th loop, k-th return"""
        self.call_ord, self.loop_ord, self.ret_ord = {}, {}, {}
        counts = {}
        calls = [x for x in ast.walk(fn) if isinstance(x, ast.Call)]
        calls.sort(key=lambda x: (x.lineno, x.col_offset))
        for x in calls:
            k = self.callee_key(x.func)
            self.call_ord[id(x)] = counts.get(k, 0)
            counts[k] = counts.get(k, 0) + 1
        self.callee_keys = set(counts)
        # every name bound somewhere in the function (parameters, assignment / loop / with / comprehension / except targets, nested defs)
        names = set()
        for x in ast.walk(fn):
            if isinstance(x, ast.Name) and isinstance(x.ctx, (ast.Store, ast.Del)):
                names.add(x.id)
            elif isinstance(x, ast.arg):
                names.add(x.arg)
            elif isinstance(x, (ast.FunctionDef, ast.AsyncFunctionDef, ast.ClassDef)):
                names.add(x.name)
            elif isinstance(x, ast.ExceptHandler) and x.name:
                names.add(x.name)
            elif isinstance(x, (ast.Import, ast.ImportFrom)):
                names.update((a.asname or a.name).split(".")[0] for a in x.names)
        self.fn_names = names
        comps = [x for x in ast.walk(fn) if isinstance(x, (ast.ListComp, ast.SetComp, ast.DictComp, ast.GeneratorExp))]
        comps.sort(key=lambda x: (x.lineno, x.col_offset))
        self.comp_ord = {id(x): i for i, x in enumerate(comps)}
        loops = [x for x in ast.walk(fn) if isinstance(x, (ast.For, ast.While, ast.AsyncFor))]
        loops.sort(key=lambda x: (x.lineno, x.col_offset))
        self.loop_ord = {id(x): i for i, x in enumerate(loops)}
        # k-th subscript store into the same container name, in source order
        stores = [x for x in ast.walk(fn) if isinstance(x, ast.Subscript) and isinstance(x.ctx, ast.Store)]
        stores.sort(key=lambda x: (x.lineno, x.col_offset))
        self.store_ord, cnt_ = {}, {}
        for x in stores:
            nm = x.value.attr if isinstance(x.value, ast.Attribute) else (x.value.id if isinstance(x.value, ast.Name) else "?")
            self.store_ord[id(x)] = cnt_.get(nm, 0)
            cnt_[nm] = cnt_.get(nm, 0) + 1
        rets = [x for x in ast.walk(fn) if isinstance(x, ast.Return)]
        rets.sort(key=lambda x: (x.lineno, x.col_offset))
        self.ret_ord = {id(x): i for i, x in enumerate(rets)}

    def callee_key(self, f):
        """last component of the callee ('self.backend.record_job_start' -> 'record_job_start')"""
        if isinstance(f, ast.Attribute):
            return f.attr
        if isinstance(f, ast.Name):
            return f.id
        return "?"

    def resolve(self, f, st):
        """-> contract short name or None"""
        cs = self.m.contracts
        if isinstance(f, ast.Name):
            return f.id if f.id in cs else None
        if isinstance(f, ast.Attribute):
            cls = None
            if isinstance(f.value, ast.Name):
                cls = st.cls.get(f.value.id) or self.cur_contract.get("classes", {}).get(f.value.id) or self.m.classes.get(f.value.id)
            elif isinstance(f.value, ast.Attribute):
                cls = self.m.classes.get(ast.unparse(f.value))
            if cls and f"{cls}.{f.attr}" in cs:
                return f"{cls}.{f.attr}"
            if f"*.{f.attr}" in cs:
                return f"*.{f.attr}"
        return None

    # ------------------------------------------------------------ main entry
    def ev_call(self, n, st, old):
        c = self.ctx
        f = n.func
        name = f.id if isinstance(f, ast.Name) else None
        # ---- spec forms
        if name == "old":
            saved = self.spec_mode
            self.spec_mode = True
            try:
                return self.ev(n.args[0], old if old is not None else st, old)
            finally:
                self.spec_mode = saved
        if name == "implies":
            a = self.truth(self.ev(n.args[0], st, old))
            b = self.truth(self.ev(n.args[1], st, old))
            return T(BOOL, f"(=> {a.s} {b.s})")
        if name == "iff":
            a = self.truth(self.ev(n.args[0], st, old))
            b = self.truth(self.ev(n.args[1], st, old))
            return T(BOOL, f"(= {a.s} {b.s})")
        if name in ("forall", "exists"):
            var = n.args[0].id
            sort = self.sort_of_spec(n.args[1])
            q = T(sort, f"|q_{var}|")
            st2 = st.clone()
            st2.env[var] = q
            o2 = None
            if old is not None:
                o2 = old.clone()
                o2.env[var] = q
            b = self.truth(self.ev(n.args[2], st2, o2))
            self.ctx.need(sort)
            return T(BOOL, f"({name} ((|q_{var}| {sort_smt(sort)})) {b.s})")
        if name == "Some":
            return some(c, self.ev(n.args[0], st, old))
        if name == "val":
            return unopt(self.ev(n.args[0], st, old))
        if name == "final":
            # value of a (reassigned) parameter at exit; other locals keep their exit value anyway
            nm = n.args[0].id
            return st.env.get("$final_" + nm, st.env.get(nm))
        if name == "ite":
            t = self.truth(self.ev(n.args[0], st, old))
            a, b = self.unify(self.ev(n.args[1], st, old), self.ev(n.args[2], st, old))
            return T(a.sort, f"(ite {t.s} {a.s} {b.s})")
        if name == "mapget":
            m = self.ev(n.args[0], st, old)
            k = self.ev(n.args[1], st, old)
            d = self.ev(n.args[2], st, old)
            e = T(("Opt", m.sort[2]), f"(select {m.s} {k.s})")
            return T(d.sort, f"(ite {is_some(e).s} {unopt(e).s} {d.s})")
        if name == "member":
            # member(x, xs): sequence membership as seq.contains (the list mutators give contains-facts; `x in xs` uses the index form)
            x = self.ev(n.args[0], st, old)
            xs = self.ev(n.args[1], st, old)
            if isinstance(xs, T) and isinstance(xs.sort, tuple) and xs.sort[0] == "Opt":
                xs = unopt(xs)
            x = self.coerce(x, xs.sort[1], "member")
            return T(BOOL, f"(seq.contains {xs.s} (seq.unit {x.s}))")
        if name == "visited":
            return st.env[f"$vis{n.args[0].value}" if n.args else "$viscur"]
        if name == "index":
            return st.env[f"$idx{n.args[0].value}" if n.args else "$idxcur"]
        if name == "iterated":
            return st.env[f"$it{n.args[0].value}"]
        if name == "smt":
            fmt = n.args[0].value
            kw = {k.arg: self.ev(k.value, st, old) for k in n.keywords}
            sort = BOOL
            if "sort" in kw:
                kw.pop("sort")
            for k in n.keywords:
                if k.arg == "sort":
                    sort = self.sort_of_spec(k.value)
            return T(sort, fmt.format(**{k: v.s for k, v in kw.items()}))
        if "call" in self.m.hooks:
            r = self.m.hooks["call"](self, n, st, old)
            if r is not NotImplemented:
                return r
        # ---- library patterns (longest prefix of the unparsed call)
        src = ast.unparse(n)
        libs = list(self.cur_contract.get("lib", {}).items()) + list(self.m.lib.items())
        for pat, h in sorted(libs, key=lambda kv: -len(kv[0])):
            if src.startswith(pat):
                r = h(self, n, st, old)
                if r is not NotImplemented:
                    self.lib_used.setdefault(self.cur, set()).add(pat)
                    return r
        # a library pattern whose receiver root is a local of the function that has since been renamed: `scheduler.backend.f(` against
        # `sched.backend.f(`.  Only when the pattern's root name is bound nowhere in this function any more and exactly one pattern fits.
        if "." in src.split("(")[0]:
            root, _, rest = src.partition(".")
            if root.isidentifier() and root != "self":
                fits = []
                for pat, h in libs:
                    proot, _, prest = pat.partition(".")
                    if prest and proot.isidentifier() and proot not in ("self",) and proot != root and proot not in self.fn_names and rest.startswith(prest):
                        fits.append((pat, h))
                if len(fits) == 1:
                    r = fits[0][1](self, n, st, old)
                    if r is not NotImplemented:
                        self.lib_used.setdefault(self.cur, set()).add(fits[0][0])
                        self.note("renamed-receiver", f"{fits[0][0]} applied to {src[:40]}", n.lineno)
                        return r
        for pat in self.m.skip_calls:
            if src.startswith(pat):
                self.note("A-LOG", pat, n.lineno)
                return T(NONE, "none")
        # ---- at_call site assertions (for calls without contract)
        key = self.callee_key(f)
        sites = self.cur_contract.get("at_call", {})
        cnt0 = self.call_ord.get(id(n), 0)
        if f"{key}#{cnt0}" in sites and self.resolve(f, st) is None:
            # site-specific conditions: 'then#1' = the second call of .then in source order
            sites = dict(sites)
            sites[key] = list(sites.get(key, [])) + list(sites[f"{key}#{cnt0}"])
            self.sites_seen.add(f"{key}#{cnt0}")
        if key in sites and self.resolve(f, st) is None:
            cnt = self.call_ord.get(id(n), 0)
            recv_v = self.ev(f.value, st, old) if isinstance(f, ast.Attribute) else None
            actuals = [self.ev(a, st, old) for a in n.args]
            stb = st.clone()
            for i, a in enumerate(actuals):
                stb.env[f"arg{i}"] = a
            for kw in n.keywords:
                if kw.arg:
                    stb.env["kw_" + kw.arg] = self.ev(kw.value, st, old)
            if recv_v is not None:
                stb.env["recv"] = recv_v
            for i, e in enumerate(sites[key]):
                g = self.spec(e, stb, self.entry)
                self.oblige(f"{self.cur}/at[{key}#{cnt}].{i}", "at", st, g, n.lineno)
            self.sites_seen.add(key)
        oc = self.cur_contract.get("on_call", {})
        if key in oc and self.resolve(f, st) is None:
            # ghost update at a call without contract (event recording)
            for i, a in enumerate(n.args):
                st.env[f"arg{i}"] = self.ev(a, st, old)
            for stmt in ast.parse(textwrap.dedent(oc[key])).body:
                self.ghost_assign(stmt, st)
            for i in range(len(n.args)):
                st.env.pop(f"arg{i}", None)
        # ---- builtins
        r = self.builtin_call(n, st, old)
        if r is not None:
            return r
        # ---- closures
        if name and isinstance(st.env.get(name), Closure):
            return self.call_closure(st.env[name], [self.ev(a, st, old) for a in n.args], {k.arg: self.ev(k.value, st, old) for k in n.keywords}, st)
        # ---- contracted functions
        q = self.resolve(f, st)
        if q is not None:
            return self.call_contract(q, n, st, old)
        # ---- uninterpreted functions
        if name in self.m.ufuns or name in self.m.defs:
            asorts, ret = self.m.ufuns.get(name) or self.m.defs[name]
            args = [self.coerce(self.ev(a, st, old), s, name) for a, s in zip(n.args, asorts)]
            return c.app(name, asorts, ret, args)
        return self.opaque_call(n, st, old)

    def spec(self, e, st, old):
        """evaluate a contract expression.  If the code no longer has the shape the expression talks about (a loop index of a
        loop that is not a for loop any more, a local that disappeared) the result is the marker SPEC-ERROR: as an assumption it
        is dropped, as an obligation it is reported undecided -- never a crash and never a silent pass."""
        saved = self.spec_mode
        self.spec_mode = True
        self.nofork += 1
        try:
            return self.truth(self.ev(parse_expr(e) if isinstance(e, str) else e, st, old))
        except (KeyError, AttributeError, IndexError, TypeError, NeedFork) as ex:
            self.note("spec-error", f"{str(e)[:60]}: {type(ex).__name__} {ex}", getattr(self, "cur_line", 0))
            # an invariant or call-site condition that no longer evaluates is also missing as a hypothesis of later obligations of this function
            why = f"a contract expression does not evaluate on this code ({type(ex).__name__}: {str(ex)[:80]})"
            if why not in self.out_of_sync.setdefault(self.cur, []):
                self.out_of_sync[self.cur].append(why)
            return T(BOOL, "SPEC-ERROR")
        finally:
            self.nofork -= 1
            self.spec_mode = saved

    def opaque_call(self, n, st, old):
        f = n.func
        args = [self.ev(a, st, old) for a in n.args]
        for k in n.keywords:
            self.ev(k.value, st, old)
        if isinstance(f, ast.Attribute):
            recv = self.ev(f.value, st, old)
            # mutation of a tracked container through an unmodelled method => havoc that field
            if isinstance(f.value, ast.Attribute) and f.value.attr in self.m.fields and f.attr in MUTATORS:
                o = self.ev(f.value.value, st, old)
                if isinstance(o, T) and o.sort == REF:
                    h = self.field(st, f.value.attr)
                    nv = self.opaque("mut", self.m.fields[f.value.attr])
                    st.heap[f.value.attr] = T(h.sort, f"(store {h.s} {o.s} {nv.s})")
                    self.note("havoc-mutator", ast.unparse(f), n.lineno)
            if isinstance(f.value, ast.Name) and f.attr in MUTATORS and isinstance(st.env.get(f.value.id), T) and isinstance(st.env[f.value.id].sort, tuple):
                st.env[f.value.id] = self.opaque("mut_" + f.value.id, st.env[f.value.id].sort)
                self.note("havoc-mutator", ast.unparse(f), n.lineno)
        st.ver += 1
        label = ast.unparse(f)
        self.note("opaque-call", label, n.lineno)
        if self.try_depth and self.cur_contract.get("opaque_raises", True):
            if self.choice(2) == 1:
                raise RaiseEx("Exception?", None, n.lineno)
        return self.opaque("call_" + self.callee_key(f))

    # ------------------------------------------------------------ builtins
    def builtin_call(self, n, st, old):
        c = self.ctx
        f = n.func
        if isinstance(f, ast.Name):
            nm = f.id
            if nm == "cast" and len(n.args) == 2:
                return self.ev(n.args[1], st, old)
            if nm == "len" and len(n.args) == 1:
                v = self.ev(n.args[0], st, old)
                if "len" in self.m.hooks and isinstance(v, T):
                    h = self.m.hooks["len"](self, v, st)
                    if h is not None:
                        return h
                if isinstance(v, TupV):
                    return T(INT, str(len(v.items)))
                if isinstance(v, T):
                    if v.sort == STR:
                        return T(INT, f"(str.len {v.s})")
                    if isinstance(v.sort, tuple) and v.sort[0] == "Seq":
                        return T(INT, f"(seq.len {v.s})")
                    if isinstance(v.sort, tuple) and v.sort[0] in ("Map", "Set"):
                        r = c.app("card_" + mangle(v.sort), [v.sort], INT, [v])
                        st.pc.append(f"(>= {r.s} 0)")
                        return r
                r = self.opaque("len", INT)
                st.pc.append(f"(>= {r.s} 0)")
                return r
            if nm in ("all", "any") and len(n.args) == 1:
                if isinstance(n.args[0], ast.GeneratorExp):
                    g = self.ev_comp(n.args[0], st, old)
                    if isinstance(g, tuple) and g[0] == "gen":
                        _, qdecl, guard, el = g
                        t = self.truth(el)
                        if nm == "all":
                            return T(BOOL, f"(forall ({qdecl}) (=> {guard} {t.s}))")
                        return T(BOOL, f"(exists ({qdecl}) (and {guard} {t.s}))")
                    return self.opaque(nm, BOOL)
                v = self.ev(n.args[0], st, old)
                if isinstance(v, TupV):
                    ts = [self.truth(i).s for i in v.items]
                    if not ts:
                        return T(BOOL, "true" if nm == "all" else "false")
                    return T(BOOL, f"({'and' if nm == 'all' else 'or'} {' '.join(ts)})") if len(ts) > 1 else T(BOOL, ts[0])
                return self.opaque(nm, BOOL)
            if nm == "isinstance" and len(n.args) == 2:
                return self.isinstance_(self.ev(n.args[0], st, old), n.args[1], st)
            if nm == "bool" and len(n.args) == 1:
                return self.truth(self.ev(n.args[0], st, old))
            if nm == "str" and len(n.args) == 1:
                v = self.ev(n.args[0], st, old)
                if isinstance(v, T) and v.sort == STR:
                    return v
                if isinstance(v, T) and v.sort == INT:
                    return self.dec(v)
                if "str" in self.m.hooks and isinstance(v, T):
                    h = self.m.hooks["str"](self, v, st)
                    if h is not None:
                        return h
                return c.app("str_of", [OBJ], STR, [self.to_obj(v)])
            if nm == "int" and len(n.args) == 1:
                v = self.ev(n.args[0], st, old)
                if isinstance(v, T) and v.sort == INT:
                    return v
                if isinstance(v, T) and v.sort == STR and "undec" in self.m.ufuns:
                    ok = c.app("is_dec", [STR], BOOL, [v])
                    if self.spec_mode or self.branch(ok, st):
                        return c.app("undec", [STR], INT, [v])
                    raise RaiseEx("ValueError", None, n.lineno)
                return self.opaque("int", INT)
            if nm == "defaultdict":
                return EmptyV("dict")
            if nm == "enumerate" and len(n.args) == 1:
                v = self.ev(n.args[0], st, old)
                if "iter" in self.m.hooks and isinstance(v, T):
                    v = self.m.hooks["iter"](self, v, st) or v
                if isinstance(v, tuple) and v and v[0] == "enum":
                    return v
                if isinstance(v, T) and isinstance(v.sort, tuple) and v.sort[0] == "Seq":
                    return ("enum", v)
            if nm == "zip" and len(n.args) == 2:
                vs = []
                for a in n.args:
                    v = self.ev(a, st, old)
                    if "iter" in self.m.hooks and isinstance(v, T):
                        v = self.m.hooks["iter"](self, v, st) or v
                    vs.append(v)
                if all(isinstance(v, T) and isinstance(v.sort, tuple) and v.sort[0] == "Seq" for v in vs):
                    return ("zip", vs[0], vs[1])
            if nm in ("set", "list", "tuple", "dict", "frozenset") and len(n.args) <= 1:
                if not n.args:
                    return self.empty_container(nm, n)
                v = self.ev(n.args[0], st, old)
                if isinstance(v, T) and isinstance(v.sort, tuple):
                    if nm in ("list", "tuple") and v.sort[0] == "Seq":
                        return v
                    if nm in ("set", "frozenset") and v.sort[0] == "Set":
                        return v
                    if nm in ("set", "frozenset") and v.sort[0] == "Map":
                        r = self.opaque("keys", ("Set", v.sort[1]))
                        q = "|q_ks|"
                        st.pc.append(f"(forall (({q} {sort_smt(v.sort[1])})) (= (select {r.s} {q}) {is_some(T(('Opt', v.sort[2]), f'(select {v.s} {q})')).s}))")
                        return r
                    if nm in ("set", "frozenset") and v.sort[0] == "Seq":
                        r = self.opaque("elems", ("Set", v.sort[1]))
                        q = "|q_ks|"
                        st.pc.append(f"(forall (({q} {sort_smt(v.sort[1])})) (= (select {r.s} {q}) (seq.contains {v.s} (seq.unit {q}))))")
                        return r
                    if nm == "dict" and v.sort[0] == "Map":
                        return v
                if isinstance(v, TupV) and nm in ("list", "tuple"):
                    return v
                return None
        if isinstance(f, ast.Attribute):
            at = f.attr
            if at in ("get", "items", "keys", "values", "startswith", "endswith", "append", "extend", "add", "pop",
                      "encode", "decode", "join", "format", "copy", "update", "setdefault", "discard", "remove", "clear",
                      "strip", "rstrip", "lstrip", "lower", "upper", "title", "replace", "split", "rsplit", "splitlines", "removesuffix", "removeprefix", "index") or "method" in self.m.hooks:
                return self.method_call(n, st, old)
        return None

    def empty_container(self, nm, n):
        self.note("empty-container-untyped", nm, n.lineno)
        return EmptyV(nm)

    def isinstance_(self, v, clsnode, st):
        names = [ast.unparse(e) for e in clsnode.elts] if isinstance(clsnode, ast.Tuple) else [ast.unparse(clsnode)]
        BUILTIN = {"str": STR, "int": INT, "bool": BOOL}
        outs = []
        for nm in names:
            if isinstance(v, TupV):
                outs.append("true" if nm in ("tuple", "list") else "false")
                continue
            if isinstance(v, Closure):
                outs.append("false")
                continue
            if v.sort in (STR, INT, BOOL) and nm in BUILTIN:
                # bool is a subclass of int in Python
                outs.append("true" if (BUILTIN[nm] == v.sort or (nm == "int" and v.sort == BOOL)) else "false")
                continue
            if v.sort in (STR, INT, BOOL):
                outs.append("false")
                continue
            if isinstance(v.sort, tuple) and v.sort[0] in ("Seq", "Map", "Set") and nm in ("list", "tuple", "dict", "set", "str", "int", "bytes"):
                ok = {"Seq": ("list", "tuple"), "Map": ("dict",), "Set": ("set",)}[v.sort[0]]
                outs.append("true" if nm in ok else "false")
                continue
            h = self.m.hooks["isinstance"](self, v, nm, st) if "isinstance" in self.m.hooks else None
            if h is not None:
                outs.append(h)
                continue
            outs.append(self.ctx.app("isinst_" + nm, [v.sort], BOOL, [v]).s)
        return T(BOOL, outs[0] if len(outs) == 1 else "(or " + " ".join(outs) + ")")

    def method_call(self, n, st, old):
        c = self.ctx
        f = n.func
        at = f.attr
        recv = self.ev(f.value, st, old)
        if not isinstance(recv, T):
            return None
        if "method" in self.m.hooks:
            r = self.m.hooks["method"](self, recv, at, n, st, old)
            if r is not None:
                return r
        if "recv" in self.m.hooks:
            recv = self.m.hooks["recv"](self, recv, at) or recv
        if "as_map" in self.m.hooks:
            mm = self.m.hooks["as_map"](self, recv)
            if mm is not None:
                recv = mm
        s = recv.sort
        if isinstance(s, tuple) and s[0] == "Opt" and isinstance(s[1], tuple):
            recv = unopt(recv)
            s = recv.sort
        if isinstance(s, tuple) and s[0] in ("Map", "Set", "Seq") and at == "clear" and not n.args:
            if self.store_back(f.value, self.empty_of(s), st):
                return T(NONE, "none")
        if isinstance(s, tuple) and s[0] == "Map":
            if at == "get":
                k = self.coerce(self.ev(n.args[0], st, old), s[1], "get")
                e = T(("Opt", s[2]), f"(select {recv.s} {k.s})")
                if len(n.args) > 1:
                    d = self.ev(n.args[1], st, old)
                    if isinstance(d, T) and d.sort == s[2]:
                        return T(s[2], f"(ite {is_some(e).s} {unopt(e).s} {d.s})")
                    if isinstance(d, T) and d.sort == NONE:
                        return e
                    d = self.coerce(d, s[2], "get-default")
                    return T(s[2], f"(ite {is_some(e).s} {unopt(e).s} {d.s})")
                return e
            if at in ("items", "keys", "values"):
                return ("mapview", at, recv)
            if at == "update" and len(n.args) == 1 and not n.keywords:
                x = self.ev(n.args[0], st, old)
                if isinstance(x, T) and x.sort == ("Opt", s):
                    x = unopt(x)      # d.update(opt) is only reached when opt is a dict (None would raise TypeError)
                if isinstance(x, T) and x.sort != s and "as_map" in self.m.hooks:
                    x = self.m.hooks["as_map"](self, x) or x
                if isinstance(x, EmptyV):
                    return T(NONE, "none")
                if isinstance(x, T) and x.sort == s:
                    r = self.opaque("upd", s)
                    q = "|q_u|"
                    e2 = f"(select {x.s} {q})"
                    st.pc.append(f"(forall (({q} {sort_smt(s[1])})) (= (select {r.s} {q}) (ite {is_some(T(('Opt', s[2]), e2)).s} {e2} (select {recv.s} {q}))))")
                    if self.store_back(f.value, r, st):
                        return T(NONE, "none")
            if at == "copy":
                return recv
            if at == "setdefault" and len(n.args) == 2:
                # m.setdefault(k, v): keeps an existing entry, stores v otherwise; returns the entry
                k = self.coerce(self.ev(n.args[0], st, old), s[1], "setdefault")
                v = self.coerce(self.ev(n.args[1], st, old), s[2], "setdefault-value")
                e = T(("Opt", s[2]), f"(select {recv.s} {k.s})")
                newm = T(s, f"(ite {is_some(e).s} {recv.s} (store {recv.s} {k.s} {some(c, v).s}))")
                if self.store_back(f.value, newm, st):
                    return T(s[2], f"(ite {is_some(e).s} {unopt(e).s} {v.s})")
            if at in ("pop",) and n.args:
                k = self.coerce(self.ev(n.args[0], st, old), s[1], "pop")
                e = T(("Opt", s[2]), f"(select {recv.s} {k.s})")
                newm = T(s, f"(store {recv.s} {k.s} {none_of(c, s[2]).s})")
                ok = self.store_back(f.value, newm, st)
                if not ok:
                    return None
                if len(n.args) > 1:
                    d = self.ev(n.args[1], st, old)
                    if isinstance(d, T) and d.sort == NONE:
                        return e
                    d = self.coerce(d, s[2], "pop-default")
                    return T(s[2], f"(ite {is_some(e).s} {unopt(e).s} {d.s})")
                if self.branch(is_some(e), st):
                    return unopt(e)
                raise RaiseEx("KeyError", None, n.lineno)
        if isinstance(s, tuple) and s[0] == "Set":
            if at == "update" and len(n.args) == 1:
                x = self.ev(n.args[0], st, old)
                if isinstance(x, T) and x.sort == s:
                    r = self.opaque("union", s)
                    st.pc.append(f"(forall ((|q_u| {sort_smt(s[1])})) (= (select {r.s} |q_u|) (or (select {recv.s} |q_u|) (select {x.s} |q_u|))))")
                    if self.store_back(f.value, r, st):
                        return T(NONE, "none")
            if at == "add" and len(n.args) == 1:
                x = self.coerce(self.ev(n.args[0], st, old), s[1], "add")
                if self.store_back(f.value, T(s, f"(store {recv.s} {x.s} true)"), st):
                    return T(NONE, "none")
            if at in ("discard", "remove") and len(n.args) == 1:
                x = self.coerce(self.ev(n.args[0], st, old), s[1], at)
                if at == "remove" and not self.branch(T(BOOL, f"(select {recv.s} {x.s})"), st):
                    raise RaiseEx("KeyError", None, n.lineno)
                if self.store_back(f.value, T(s, f"(store {recv.s} {x.s} false)"), st):
                    return T(NONE, "none")
            if at == "copy":
                return recv
        if isinstance(s, tuple) and s[0] == "Seq":
            if at == "index" and len(n.args) == 1:
                # xs.index(x): the first position holding x; ValueError when there is none
                x = self.coerce(self.ev(n.args[0], st, old), s[1], "index")
                present = T(BOOL, f"(exists ((|q_ix| Int)) (and (>= |q_ix| 0) (< |q_ix| (seq.len {recv.s})) (= (seq.nth {recv.s} |q_ix|) {x.s})))")
                if not self.branch(present, st):
                    raise RaiseEx("ValueError", None, n.lineno)
                i = self.opaque("ix", INT)
                st.pc.append(f"(and (>= {i.s} 0) (< {i.s} (seq.len {recv.s})) (= (seq.nth {recv.s} {i.s}) {x.s}))")
                st.pc.append(f"(forall ((|q_ix| Int)) (! (=> (and (>= |q_ix| 0) (< |q_ix| {i.s})) (not (= (seq.nth {recv.s} |q_ix|) {x.s}))) :pattern ((seq.nth {recv.s} |q_ix|))))")
                return i
            if at == "append" and len(n.args) == 1:
                x = self.coerce(self.ev(n.args[0], st, old), s[1], "append")
                # array-like axiomatisation (solvers handle nth-quantifiers far better than seq.++ under quantifiers)
                r = self.opaque("app", s)
                st.pc.append(f"(= {r.s} (seq.++ {recv.s} (seq.unit {x.s})))")
                st.pc.append(f"(= (seq.len {r.s}) (+ (seq.len {recv.s}) 1))")
                st.pc.append(f"(forall ((|q_a| Int)) (! (=> (and (>= |q_a| 0) (< |q_a| (seq.len {recv.s}))) (= (seq.nth {r.s} |q_a|) (seq.nth {recv.s} |q_a|))) :pattern ((seq.nth {r.s} |q_a|)) :pattern ((seq.nth {recv.s} |q_a|))))")
                st.pc.append(f"(= (seq.nth {r.s} (seq.len {recv.s})) {x.s})")
                st.pc.append(f"(forall ((|q_e| {sort_smt(s[1])})) (! (= (seq.contains {r.s} (seq.unit |q_e|)) (or (seq.contains {recv.s} (seq.unit |q_e|)) (= |q_e| {x.s}))) :pattern ((seq.contains {r.s} (seq.unit |q_e|)))))")
                if self.cur_contract.get("on_append"):
                    self.cur_contract["on_append"](self, st, recv, r, x)     # facts about contract-level abstractions of the extended list
                if self.store_back(f.value, r, st):
                    return T(NONE, "none")
            if at == "extend" and len(n.args) == 1:
                a0 = n.args[0]
                if isinstance(a0, ast.GeneratorExp):
                    a0 = ast.ListComp(elt=a0.elt, generators=a0.generators)
                    ast.copy_location(a0, n.args[0])
                x = self.ev(a0, st, old)
                if isinstance(x, T) and x.sort == s:
                    r = self.opaque("ext", s)
                    st.pc.append(f"(= {r.s} (seq.++ {recv.s} {x.s}))")
                    st.pc.append(f"(= (seq.len {r.s}) (+ (seq.len {recv.s}) (seq.len {x.s})))")
                    st.pc.append(f"(forall ((|q_a| Int)) (! (=> (and (>= |q_a| 0) (< |q_a| (seq.len {recv.s}))) (= (seq.nth {r.s} |q_a|) (seq.nth {recv.s} |q_a|))) :pattern ((seq.nth {r.s} |q_a|))))")
                    st.pc.append(f"(forall ((|q_a| Int)) (! (=> (and (>= |q_a| (seq.len {recv.s})) (< |q_a| (seq.len {r.s}))) (= (seq.nth {r.s} |q_a|) (seq.nth {x.s} (- |q_a| (seq.len {recv.s}))))) :pattern ((seq.nth {r.s} |q_a|))))")
                    st.pc.append(f"(forall ((|q_e| {sort_smt(s[1])})) (! (= (seq.contains {r.s} (seq.unit |q_e|)) (or (seq.contains {recv.s} (seq.unit |q_e|)) (seq.contains {x.s} (seq.unit |q_e|)))) :pattern ((seq.contains {r.s} (seq.unit |q_e|)))))")
                    if self.cur_contract.get("on_extend"):
                        self.cur_contract["on_extend"](self, st, recv, r, x)     # facts about contract-level abstractions of the extended list
                    if self.store_back(f.value, r, st):
                        return T(NONE, "none")
            if at == "copy":
                return recv
            if at == "pop" and not n.args:
                # xs.pop(): removes and returns the last element; IndexError on an empty list
                if not self.branch(T(BOOL, f"(> (seq.len {recv.s}) 0)"), st):
                    raise RaiseEx("IndexError", None, n.lineno)
                last = T(s[1], f"(seq.nth {recv.s} (- (seq.len {recv.s}) 1))")
                r = self.opaque("popped", s)
                st.pc.append(f"(= {r.s} (seq.extract {recv.s} 0 (- (seq.len {recv.s}) 1)))")
                st.pc.append(f"(= (seq.len {r.s}) (- (seq.len {recv.s}) 1))")
                st.pc.append(f"(forall ((|q_a| Int)) (! (=> (and (>= |q_a| 0) (< |q_a| (seq.len {r.s}))) (= (seq.nth {r.s} |q_a|) (seq.nth {recv.s} |q_a|))) :pattern ((seq.nth {r.s} |q_a|))))")
                st.pc.append(f"(forall ((|q_e| {sort_smt(s[1])})) (! (= (seq.contains {recv.s} (seq.unit |q_e|)) (or (seq.contains {r.s} (seq.unit |q_e|)) (= |q_e| {last.s}))) :pattern ((seq.contains {recv.s} (seq.unit |q_e|))) :pattern ((seq.contains {r.s} (seq.unit |q_e|)))))")
                if self.cur_contract.get("on_pop"):
                    self.cur_contract["on_pop"](self, st, recv, r, last)       # facts about contract-level abstractions of the shortened list
                if self.store_back(f.value, r, st):
                    return last
        if s == STR:
            if at in ("startswith", "endswith") and len(n.args) == 1:
                x = self.ev(n.args[0], st, old)
                op_ = "str.prefixof" if at == "startswith" else "str.suffixof"
                if isinstance(x, T) and x.sort == STR:
                    return T(BOOL, f"({op_} {x.s} {recv.s})")
                if isinstance(x, TupV) and x.items and all(isinstance(i, T) and i.sort == STR for i in x.items):
                    return T(BOOL, "(or " + " ".join(f"({op_} {i.s} {recv.s})" for i in x.items) + ")") if len(x.items) > 1 else T(BOOL, f"({op_} {x.items[0].s} {recv.s})")
            if at in ("removesuffix", "removeprefix") and len(n.args) == 1:
                x = self.ev(n.args[0], st, old)
                if isinstance(x, T) and x.sort == STR:
                    if at == "removesuffix":
                        return T(STR, f"(ite (str.suffixof {x.s} {recv.s}) (str.substr {recv.s} 0 (- (str.len {recv.s}) (str.len {x.s}))) {recv.s})")
                    return T(STR, f"(ite (str.prefixof {x.s} {recv.s}) (str.substr {recv.s} (str.len {x.s}) (- (str.len {recv.s}) (str.len {x.s}))) {recv.s})")
            if at in ("strip", "rstrip", "lstrip", "lower", "upper", "title", "replace", "split", "rsplit", "splitlines") and all(not isinstance(a, ast.Starred) for a in n.args) and not n.keywords:
                args = [self.ev(a, st, old) for a in n.args]
                args = [unopt(a) if isinstance(a, T) and a.sort == ("Opt", STR) else a for a in args]    # an Optional[str] argument is a str where the call is reached
                if all(isinstance(a, T) and a.sort in (STR, INT) for a in args):
                    ret = ("Seq", STR) if at in ("split", "rsplit", "splitlines") else STR
                    return c.app(f"str_{at}{len(args)}", [STR] + [a.sort for a in args], ret, [recv] + args)
            if at == "format" and isinstance(f.value, ast.Constant) and isinstance(f.value.value, str) and not any(isinstance(a, ast.Starred) for a in n.args):
                import string as _string
                kw = {k.arg: self.ev(k.value, st, old) for k in n.keywords if k.arg}
                pos = [self.ev(a, st, old) for a in n.args]
                auto = 0
                parts = []
                ok = True
                for lit, field, spec, conv in _string.Formatter().parse(f.value.value):
                    if lit:
                        parts.append(T(STR, smt_str(lit)))
                    if field is not None:
                        if field == "" and auto < len(pos):
                            v = pos[auto]      # auto-numbered positional field {}
                            auto += 1
                        elif field.isdigit() and int(field) < len(pos):
                            v = pos[int(field)]
                        else:
                            v = kw.get(field)
                        if spec or conv or not isinstance(v, T) or v.sort != STR:
                            ok = False
                            break
                        parts.append(v)
                if ok:
                    if not parts:
                        return T(STR, '""')
                    return T(STR, "(str.++ " + " ".join(p.s for p in parts) + ")") if len(parts) > 1 else parts[0]
            if at in ("encode", "decode"):
                self.note("A-UTF8", "encode/decode treated as identity on the String sort", n.lineno)
                return recv
            if at == "join" and len(n.args) == 1:
                x = self.ev(n.args[0], st, old)
                if isinstance(x, TupV) and all(isinstance(i, T) and i.sort == STR for i in x.items):
                    if not x.items:
                        return T(STR, '""')
                    parts = []
                    for i, it in enumerate(x.items):
                        if i:
                            parts.append(recv.s)
                        parts.append(it.s)
                    return T(STR, "(str.++ " + " ".join(parts) + ")") if len(parts) > 1 else x.items[0]
                if isinstance(x, T) and x.sort == ("Seq", STR):
                    return c.app("str_join", [STR, ("Seq", STR)], STR, [recv, x])
        return None

    def store_back(self, target, val, st):
        """write a new container value back to the l-value it came from"""
        if isinstance(target, ast.Name) and target.id in st.env:
            st.env[target.id] = val
            return True
        if isinstance(target, ast.Name) and target.id in st.ghost:
            st.ghost[target.id] = val
            return True
        if isinstance(target, ast.Subscript):
            t2 = ast.Subscript(value=target.value, slice=target.slice, ctx=ast.Store())
            ast.copy_location(t2, target)
            self.assign(t2, val, st)
            return True
        if isinstance(target, ast.Attribute) and target.attr in self.m.fields:
            o = self.ev(target.value, st, None)
            if isinstance(o, T) and o.sort == ("Opt", REF):
                o = unopt(o)
            if isinstance(o, T) and o.sort == REF:
                h = self.field(st, target.attr)
                st.heap[target.attr] = T(h.sort, f"(store {h.s} {o.s} {val.s})")
                return True
        return False

    # ------------------------------------------------------------ closures
    def call_closure(self, clo, args, kwargs, st):
        node = clo.node
        saved_env = st.env
        env = dict(clo.env)
        # late binding: names captured by the closure see the current values of enclosing locals
        for k in clo.env:
            if k in saved_env:
                env[k] = saved_env[k]
        params = [a.arg for a in node.args.args]
        for p, a in zip(params, args):
            env[p] = a
        for k, v in kwargs.items():
            env[k] = v
        defaults = node.args.defaults
        for p, d in zip(params[len(params) - len(defaults):], defaults):
            if p not in env or p in params[len(args):] and p not in kwargs:
                if p not in kwargs and params.index(p) >= len(args):
                    env[p] = self.ev(d, st, None)
        st.env = env
        try:
            if isinstance(node, ast.Lambda):
                return self.ev(node.body, st, None)
            try:
                self.exec_block(extract.strip_doc(node), st)
                return T(NONE, "none")
            except ReturnEx as r:
                return r.v
        finally:
            st.env = saved_env

    def check_deferred(self, lam, body, params, st, old):
        """lambda/def whose body calls a contracted function: check the callee precondition now (A-QUEUE)"""
        if isinstance(body, ast.Call):
            q = self.resolve(body.func, st)
            if q is not None:
                st2 = st.clone()
                for a in params:
                    st2.env[a] = self.opaque("lam_" + a)
                self.nofork += 1
                try:
                    self.call_contract(q, body, st2, old, deferred=True)
                except (NeedFork, RaiseEx):
                    pass
                finally:
                    self.nofork -= 1

    # ------------------------------------------------------------ contracts
    def bind_actuals(self, k, n, st, old):
        params = list(k.get("params", {}).items())
        actuals = []
        names = [p for p, _ in params]
        if params and params[0][0] == "self" and isinstance(n.func, ast.Attribute):
            actuals.append(self.ev(n.func.value, st, old))
        actuals += [self.ev(a, st, old) for a in n.args]
        bound = dict(zip(names, actuals))
        for kw in n.keywords:
            if kw.arg:
                bound[kw.arg] = self.ev(kw.value, st, old)
        return params, bound

    def call_contract(self, q, n, st, old, deferred=False):
        k = self.m.contracts[q]
        c = self.ctx
        params, bound = self.bind_actuals(k, n, st, old)
        b = St()
        b.heap, b.ghost, b.pc, b.ver, b.cls = st.heap, st.ghost, st.pc, st.ver, {}
        for pn, ps in params:
            if pn in bound:
                b.env[pn] = self.coerce(bound[pn], ps, f"{q}.{pn}")
            elif pn in k.get("defaults", {}):
                b.env[pn] = self.coerce(self.ev(parse_expr(k["defaults"][pn]), b, None), ps, f"{q}.{pn} default")
            else:
                b.env[pn] = self.opaque("dflt_" + pn, ps)
        cnt = self.call_ord.get(id(n), 0)
        key = self.callee_key(n.func)
        tag = "deferred" if deferred else "pre"
        site_args = [v for pn, v in b.env.items() if pn != "self"]
        for kind, table in (("site-" + tag, self.cur_contract.get("before_call", {})),):
            bc = table.get((q, cnt)) or table.get((q, "*"))
            if bc:
                stb = st.clone()
                for i, a in enumerate(site_args):
                    stb.env[f"arg{i}"] = a
                for i, r in enumerate(bc):
                    g = self.spec(r, stb, self.entry)
                    self.oblige(f"{self.cur}/{kind}[{key}#{cnt}].{i}", kind, st, g, n.lineno)
        for i, r in enumerate(k.get("requires", [])):
            g = self.spec(r, b, None)
            self.oblige(f"{self.cur}/{tag}[{key}#{cnt}].{i}", tag, st, g, n.lineno)
        self.events.append((q, cnt, n.lineno, deferred))
        if deferred:
            return None
        if k.get("pure"):
            # side-effect free function specified by a spec function: result == pure(args)
            asorts = [ps for _, ps in params]
            return c.app(k["pure"], asorts, k["returns"], [b.env[pn] for pn, _ in params], k.get("returns_cls"))
        # havoc the frame
        oldb = b.clone()
        oldb.heap, oldb.ghost = dict(st.heap), dict(st.ghost)
        for fld in k.get("modifies", []):
            if fld in self.m.fields:
                st.heap[fld] = c.fresh(("Array", REF, self.m.fields[fld]), "H_" + fld)
            elif fld in st.ghost:
                st.ghost[fld] = c.fresh(st.ghost[fld].sort, "G_" + fld)
        st.ver += 1
        post = b.clone()
        post.heap, post.ghost, post.pc = st.heap, st.ghost, st.pc
        if k.get("ghost_local"):
            post.ghost = dict(st.ghost)
            for g, gs in k["ghost_local"].items():
                post.ghost[g] = c.fresh(gs, "GL_" + g)  # existential: the callee's ensures hold for some value of its local ghost
        res = T(NONE, "none")
        rs = k.get("returns")
        if isinstance(rs, list):
            res = TupV([c.fresh(s, "ret") for s in rs])
            for i, it in enumerate(res.items):
                post.env[f"result{i}"] = it
        elif rs is not None:
            res = c.fresh(rs, "ret_" + key, k.get("returns_cls"))
            post.env["$result"] = res
        # exceptional exit allowed by the callee's contract?
        for exc, cond in k.get("raises", {}).items():
            g = self.spec(cond, b, None) if cond else T(BOOL, "true")
            if self.nofork == 0 and self.choice(2) == 1:
                st.pc.append(g.s)
                for e in k.get("exc_ensures", []):
                    st.pc.append(self.spec(e, post, oldb).s)
                raise RaiseEx(exc, None, n.lineno)
        lit_lens = [a.s.count("(seq.unit ") for a in b.env.values() if isinstance(a, T) and isinstance(a.sort, tuple) and a.sort[0] == "Seq" and a.s.startswith(("(seq.unit", "(seq.++ (seq.unit"))]
        for e in k.get("ensures", []):
            h = self.spec(e, post, oldb).s
            st.pc.append(h)
            if lit_lens and h.startswith("(forall ((|q_"):
                # arguments are literal lists: add the instances of index-quantified postconditions at their positions
                try:
                    from .solve import sx_parse, sx_show, sx_subst
                    ex = sx_parse(h)
                    if len(ex[1]) == 1 and ex[1][0][1] == "Int":
                        for i_ in range(min(max(lit_lens), 4)):
                            st.pc.append(sx_show(sx_subst(ex[2], ex[1][0][0], str(i_))))
                except Exception:
                    pass
        gu = self.cur_contract.get("after_call", {})
        gu = gu.get((q, cnt)) or gu.get((q, "*"))
        if gu:
            ste = st.clone()
            for i, a in enumerate(site_args):
                st.env[f"arg{i}"] = a
            st.env["$result"] = res
            st.env["callresult"] = res     # the callee's result under a name that cannot clash with a parameter called `result`
            n_res = len(res.items) if isinstance(res, TupV) else 0
            for i in range(n_res):
                st.env[f"result{i}"] = res.items[i]
            for stmt in ast.parse(textwrap.dedent(gu)).body:
                self.ghost_assign(stmt, st)
            for i in range(len(site_args)):
                st.env.pop(f"arg{i}", None)
            for i in range(n_res):
                st.env.pop(f"result{i}", None)
            st.env.pop("callresult", None)
            if "$result" in ste.env:
                st.env["$result"] = ste.env["$result"]
            else:
                st.env.pop("$result", None)
        return res

    def ghost_assign(self, stmt, st):
        tgt = stmt.targets[0]
        val = self.ev(stmt.value, st, self.entry)
        if isinstance(tgt, ast.Name):
            g = tgt.id
            assert g in st.ghost, f"ghost code may only assign ghost names: {g}"
            st.ghost[g] = self.coerce(val, st.ghost[g].sort, "ghost")
            return
        g = tgt.value.id
        assert g in st.ghost, f"ghost code may only assign ghost names: {g}"
        arr = st.ghost[g]
        idx = self.coerce(self.ev(tgt.slice, st, self.entry), arr.sort[1], "ghost-idx")
        if arr.sort[0] == "Set":
            vs = BOOL
        else:
            vs = arr.sort[2] if arr.sort[0] != "Map" else ("Opt", arr.sort[2])
        val = self.coerce(val, vs, "ghost")
        st.ghost[g] = T(arr.sort, f"(store {arr.s} {idx.s} {val.s})")


MUTATORS = {"append", "extend", "pop", "update", "clear", "add", "remove", "discard", "setdefault", "insert", "popitem", "sort", "reverse"}
