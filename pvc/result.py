"""uniform record for every decided item (SMT obligation, finite check, frame scan, bounded check)"""


class Result:
    def __init__(self, name, kind, status, function="", line=0, solver="", ms=0, detail=None, model="", proved_level="P"):
        self.name, self.kind, self.status, self.function, self.line = name, kind, status, function, line
        self.solver, self.ms, self.detail, self.model, self.level = solver, ms, detail or {}, model, proved_level
