"""pvc.orm -- A-ORM: the conjunctive fragment of SQLAlchemy queries used by redun, as a library of call/attribute hooks.

A query value (QueryV) carries a base table, joined tables and filter conditions (the real AST nodes of the repo code).
Rows are terms of uninterpreted sorts Row_<Table>; columns are functions col_<Table>_<name>(row); the database state is one
ghost set per table, tbl_<Table> : Set(Row_<Table>) (committed and session-pending rows together unless a contract splits
them).  .first()/.one_or_none() return Some(row) only for a row of the base table that satisfies the conditions together
with some rows of the joined tables, and None only if no such rows exist; iteration enumerates exactly those base rows.
ORDER BY / LIMIT choose among matching rows and are not modelled (any matching row may be returned).
No claim about SQL generation, dialects or isolation.
"""
import ast
from .smt import *
from .core import RaiseEx


class QueryV:
    def __init__(self, table, joins=None, filters=None, column=None):
        self.table, self.joins, self.filters, self.column = table, list(joins or []), list(filters or []), column
        self.sort, self.cls, self.s = ("Query",), None, "query"

    def extended(self, joins=(), filters=()):
        return QueryV(self.table, self.joins + list(joins), self.filters + list(filters), self.column)


class ORM:
    def __init__(self, tables, col_sorts=None, session_names=("self.session", "session"), pks=None):
        self.tables = set(tables)
        self.col_sorts = col_sorts or {}
        self.session_names = session_names
        self.pks = pks or {}

    # ---- declarations
    def row_sort(self, t):
        return "Row_" + t

    def prelude(self):
        return "\n".join(f"(declare-sort Row_{t} 0)" for t in sorted(self.tables))

    def ghost(self):
        return {f"tbl_{t}": Set(self.row_sort(t)) for t in sorted(self.tables)}

    def col(self, eng, t, name, row):
        sort = self.col_sorts.get((t, name), STR)
        return eng.ctx.app(f"col_{t}_{name}", [self.row_sort(t)], sort, [row])

    # ---- translating a column expression of the repo code into SMT over row variables
    def cond(self, eng, node, rows, st, old):
        """node: AST of e.g. Job.task_hash == task_hash ; rows: {table: row term}"""
        if isinstance(node, ast.Compare) and len(node.ops) == 1 and isinstance(node.ops[0], (ast.Eq, ast.NotEq)):
            a = self.operand(eng, node.left, rows, st, old)
            b = self.operand(eng, node.comparators[0], rows, st, old)
            r = eng.eq(a, b)
            return f"(not {r.s})" if isinstance(node.ops[0], ast.NotEq) else r.s
        if isinstance(node, ast.BinOp) and isinstance(node.op, ast.BitAnd):
            return f"(and {self.cond(eng, node.left, rows, st, old)} {self.cond(eng, node.right, rows, st, old)})"
        if isinstance(node, ast.Call) and isinstance(node.func, ast.Attribute) and node.func.attr == "is_" and len(node.args) == 1:
            a = self.operand(eng, node.func.value, rows, st, old)
            b = eng.ev(node.args[0], st, old)
            return eng.eq(a, b).s
        if isinstance(node, ast.UnaryOp) and isinstance(node.op, ast.Invert):
            return f"(not {self.cond(eng, node.operand, rows, st, old)})"
        if (isinstance(node, ast.Call) and isinstance(node.func, ast.Attribute) and node.func.attr == "where"
                and ast.unparse(node.func.value) in ("sa.exists()", "exists()")):
            # EXISTS (SELECT * FROM <table> WHERE conds): the table is the one whose columns the conditions mention first
            tbl = None
            for x in ast.walk(node):
                if isinstance(x, ast.Attribute) and isinstance(x.value, ast.Name) and x.value.id in self.tables and x.value.id not in rows:
                    tbl = x.value.id
                    break
            if tbl is None:
                raise KeyError("A-ORM: EXISTS without a new table")
            eng.qn = getattr(eng, "qn", 0) + 1
            r = T(self.row_sort(tbl), f"|q_ex{tbl}{eng.qn}|")
            rows2 = dict(rows)
            rows2[tbl] = r
            body = conj([f"(select {st.ghost['tbl_' + tbl].s} {r.s})"] + [self.cond(eng, a, rows2, st, old) for a in node.args])
            return f"(exists (({r.s} {r.sort})) {body})"
        # outside the modelled fragment: an unknown condition on the rows in scope (nothing can be concluded from it)
        eng.qn = getattr(eng, "qn", 0) + 1
        eng.note("A-ORM", "filter expression outside the modelled fragment, treated as an unknown row condition: " + ast.unparse(node)[:60], getattr(node, "lineno", 0))
        names = sorted(rows)
        return eng.ctx.app(f"unknown_filter_{eng.qn}", [rows[t].sort for t in names], BOOL, [rows[t] for t in names]).s

    def operand(self, eng, node, rows, st, old):
        if isinstance(node, ast.Attribute) and isinstance(node.value, ast.Name) and node.value.id in rows:
            return self.col(eng, node.value.id, node.attr, rows[node.value.id])
        if isinstance(node, ast.Call) and isinstance(node.func, ast.Name) and node.func.id in ("sa_cast", "cast") and node.args:
            return self.operand(eng, node.args[0], rows, st, old)   # sa_cast(x, JSON): the stored JSON value of x
        return eng.ev(node, st, old)

    def matches(self, eng, q, base_row, st, old, tag):
        """SMT Bool: base_row is in the table and satisfies q together with some joined rows"""
        rows = {q.table: base_row}
        ex = []
        for t, on in q.joins:
            r = T(self.row_sort(t), f"|q_{t}{tag}|")
            rows[t] = r
            ex.append((r, t))
        parts = [f"(select {st.ghost['tbl_' + q.table].s} {base_row.s})"]
        for r, t in ex:
            parts.append(f"(select {st.ghost['tbl_' + t].s} {r.s})")
        for t, on in q.joins:
            if on is not None:
                parts.append(self.cond(eng, on, rows, st, old))
        for f in q.filters:
            if isinstance(f, tuple):      # filter_by(col=value)
                parts.append(eng.eq(self.col(eng, q.table, f[0], base_row), f[1]).s)
            else:
                parts.append(self.cond(eng, f, rows, st, old))
        body = conj(parts)
        if ex:
            decl = " ".join(f"({r.s} {r.sort})" for r, t in ex)
            return f"(exists ({decl}) {body})"
        return body

    # ---- hooks
    def call_hook(self, eng, n, st, old):
        f = n.func
        if not isinstance(f, ast.Attribute):
            return NotImplemented
        # session.query(Table) / session.query(Table.column)
        if f.attr == "query" and ast.unparse(f.value) in self.session_names and len(n.args) == 1 and isinstance(n.args[0], ast.Name) and n.args[0].id in self.tables:
            return QueryV(n.args[0].id)
        if (f.attr == "query" and ast.unparse(f.value) in self.session_names and len(n.args) == 1 and isinstance(n.args[0], ast.Attribute)
                and isinstance(n.args[0].value, ast.Name) and n.args[0].value.id in self.tables):
            return QueryV(n.args[0].value.id, column=n.args[0].attr)
        # session.get(Table, primary_key)
        if f.attr == "get" and ast.unparse(f.value) in self.session_names and len(n.args) == 2 and isinstance(n.args[0], ast.Name) and n.args[0].id in self.pks:
            t = n.args[0].id
            key = eng.ev(n.args[1], st, old)
            q = QueryV(t, filters=[(self.pks[t], key)])
            rs = self.row_sort(t)
            r = eng.opaque("row", Opt(rs))
            st.pc.append(f"(=> {is_some(r).s} {self.matches(eng, q, unopt(r), st, old, 'g%d' % eng.ctx.n)})")
            qv = T(rs, f"|q_row{eng.ctx.n}|")
            st.pc.append(f"(=> (not {is_some(r).s}) (forall (({qv.s} {rs})) (not {self.matches(eng, q, qv, st, old, 'h%d' % eng.ctx.n)})))")
            eng.note("A-ORM", f"session.get({t}, pk)", n.lineno)
            return r
        recv_is_query = False
        # cheap syntactic test: does the receiver chain bottom out in a query?
        base = f.value
        while isinstance(base, ast.Call) and isinstance(base.func, ast.Attribute):
            base = base.func.value
        if isinstance(base, ast.Name) and isinstance(st.env.get(base.id), QueryV):
            recv_is_query = True
        if isinstance(base, (ast.Attribute, ast.Name)) and ast.unparse(base) in self.session_names:
            recv_is_query = isinstance(f.value, ast.Call)
        if not recv_is_query:
            return NotImplemented
        q = eng.ev(f.value, st, old)
        if not isinstance(q, QueryV):
            return NotImplemented
        m = f.attr
        if m in ("join", "outerjoin") and n.args and isinstance(n.args[0], ast.Name) and n.args[0].id in self.tables:
            if m == "outerjoin":
                raise KeyError("A-ORM: outerjoin needs a contract-specific model")
            return q.extended(joins=[(n.args[0].id, n.args[1] if len(n.args) > 1 else None)])
        if m == "filter":
            return q.extended(filters=list(n.args))
        if m == "filter_by":
            return q.extended(filters=[(k.arg, eng.ev(k.value, st, old)) for k in n.keywords])
        if m in ("order_by", "limit", "distinct", "options"):
            eng.note("A-ORM", f".{m}() not modelled: any matching row may be returned", n.lineno)
            return q
        if m in ("first", "one_or_none"):
            rs = self.row_sort(q.table)
            r = eng.opaque("row", Opt(rs))
            st.pc.append(f"(=> {is_some(r).s} {self.matches(eng, q, unopt(r), st, old, 'a%d' % eng.ctx.n)})")
            qv = T(rs, f"|q_row{eng.ctx.n}|")
            st.pc.append(f"(=> (not {is_some(r).s}) (forall (({qv.s} {rs})) (not {self.matches(eng, q, qv, st, old, 'b%d' % eng.ctx.n)})))")
            eng.note("A-ORM", f"query({q.table}) with {len(q.joins)} join(s), {len(q.filters)} filter(s) .{m}()", n.lineno)
            return r
        if m == "all":
            return self.as_set(eng, q, st, old)
        return NotImplemented

    def as_set(self, eng, q, st, old):
        rs = self.row_sort(q.table)
        S = eng.opaque("rows", Set(rs))
        qv = T(rs, f"|q_row{eng.ctx.n}|")
        st.pc.append(f"(forall (({qv.s} {rs})) (= (select {S.s} {qv.s}) {self.matches(eng, q, qv, st, old, 'c%d' % eng.ctx.n)}))")
        return S

    def filter_in(self, eng, n, st, old):
        """filter_in(query, Table.col, values): chunked `col IN values`; rows, or 1-tuples of the selected column for column queries"""
        q = eng.ev(n.args[0], st, old)
        vals = eng.ev(n.args[2], st, old)
        col = n.args[1]
        if not isinstance(q, QueryV) or not isinstance(vals, T):
            return NotImplemented
        rs = self.row_sort(q.table)
        qv = T(rs, f"|q_fi{eng.ctx.n}|")
        c = self.col(eng, q.table, col.attr, qv)
        if vals.sort[0] == "Set":
            member = f"(select {vals.s} {c.s})"
        else:
            member = f"(exists ((|q_vi| Int)) (and (>= |q_vi| 0) (< |q_vi| (seq.len {vals.s})) (= (seq.nth {vals.s} |q_vi|) {c.s})))"
        cond = f"(and {self.matches(eng, q, qv, st, old, 'f%d' % eng.ctx.n)} {member})"
        if q.column is None:
            S = eng.opaque("rows_in", Set(rs))
            st.pc.append(f"(forall (({qv.s} {rs})) (= (select {S.s} {qv.s}) {cond}))")
            return S
        csort = self.col_sorts.get((q.table, q.column), STR)
        ts = ("Tup", csort)
        eng.ctx.need(ts)
        S = eng.opaque("cols_in", Set(ts))
        sel = self.col(eng, q.table, q.column, qv)
        tv = T(ts, "|q_tup|")
        st.pc.append(f"(forall (({tv.s} {sort_smt(ts)})) (= (select {S.s} {tv.s}) (exists (({qv.s} {rs})) (and {cond} (= {tv.s} {mk_tup(eng.ctx, [sel]).s})))))")
        return S

    def iter_hook(self, eng, v, st):
        if isinstance(v, QueryV):
            return self.as_set(eng, v, st, None)
        return None

    def attr_hook(self, eng, o, attr, st, old):
        if isinstance(o, T) and isinstance(o.sort, str) and o.sort.startswith("Row_"):
            return self.col(eng, o.sort[4:], attr, o)
        if isinstance(o, T) and isinstance(o.sort, tuple) and o.sort[0] == "Opt" and isinstance(o.sort[1], str) and o.sort[1].startswith("Row_"):
            return self.col(eng, o.sort[1][4:], attr, unopt(o))
        return NotImplemented
