#!/bin/sh
# Offline setup: nothing to build. The engine is pure Python (stdlib) run under
# /venv/bin/python (the interpreter the repository itself runs under) and drives
# the solver CLIs z3-new / cvc5. Scratch files live in /verif/.work.
set -e
cd "$(dirname "$0")"
mkdir -p .work evidence replays
command -v z3-new >/dev/null
command -v cvc5 >/dev/null
/venv/bin/python -c "import redun, ast"
echo setup-ok
